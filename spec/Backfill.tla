------------------------------ MODULE Backfill ------------------------------
(* C22 - replay-protection backfill: internal/validitywindow client.go       *)
(* (BlockFetcherClient.FetchBlocks), syncer.go (Syncer.Start) and handler.go *)
(* (BlockFetcherHandler, the honest peer).                                   *)
(*                                                                           *)
(* The true chain is heights 0..N; a block is a record                       *)
(*   [id, parent, h, ts, ok]  (ok = FALSE: bytes that do not parse).         *)
(* True blocks have id = their height and parent = height - 1 (genesis: -1); *)
(* anything else a peer can fabricate has another id (ids are hashes of the  *)
(* bytes), modelled as ids >= 100.                                           *)
(*                                                                           *)
(* One action per loop iteration of the client goroutine (Round) and one per *)
(* iteration of the syncer goroutine (Save).                                 *)
EXTENDS Integers, Sequences, FiniteSets

CONSTANTS StopAtGenesis,       \* TRUE: the repaired client; FALSE: as originally coded
          CursorFromAccepted,  \* TRUE: the next request height is derived from the last ACCEPTED block (the code);
                               \* FALSE: the cursor moves by the length of every response, accepted or not
          StrictForward        \* TRUE: forward completion needs newTarget.ts - oldest.ts >  window (the code);
                               \* FALSE: >= (declares completion one timestamp too early)

VARIABLES conf,        \* [n |-> height of the last block of the true chain (blocks above n0 arrive from consensus
                       \*  while the backfill runs), n0 |-> height of the initial sync target, win |-> validity window]
          tgt,         \* height of the current sync target (n0, then raised by UpdateSyncTarget)
          ts,          \* timestamps of the true chain: function 0..N -> Nat, non-decreasing
          oldest,      \* height of the oldest block the node already had (Syncer.oldestBlock)
          last,        \* the client's lastBlock (a height: only true blocks can be accepted)
          inflight,    \* the client has sent a request and waits for the response
          reqH,        \* height the next request asks for (-1 models the uint64 underflow of 0 - 1)
          cdone,       \* the client closed the result channel
          delivered,   \* blocks pushed on the result channel, in order
          saved,       \* blocks the syncer passed to SaveHistorical + AcceptHistorical, in order
          sdone,       \* the syncer signalled done
          faults       \* faulty rounds so far (bounded in the design check)

N   == conf.n
Win == conf.win
vars == <<conf, tgt, ts, oldest, last, inflight, reqH, cdone, delivered, saved, sdone, faults>>

True(h)   == [id |-> h, parent |-> h - 1, h |-> h, ts |-> ts[h], ok |-> TRUE]
MinOf(h)  == IF ts[h] - Win > 0 THEN ts[h] - Win ELSE 0           \* calculateOldestAllowed(block h)
MinTS     == MinOf(tgt)                  \* Syncer.minTimestamp: follows the current target
MinTS0    == MinOf(conf.n0)              \* the request's MinTimestamp: fixed when FetchBlocks starts
(* the block that ends the walk: first one strictly older than MinTS, else genesis *)
Past(h)   == ts[h] < MinTS
Boundary(from) == IF \E h \in 0..from : Past(h) THEN CHOOSE h \in 0..from : Past(h) /\ \A g \in (h+1)..from : ~Past(g)
                  ELSE 0
(* heights that have to be recorded when the node starts with everything down to `from` *)
Required(from) == IF Past(from) \/ from = 0 THEN {} ELSE Boundary(from - 1)..(from - 1)

(* ---- the honest peer: BlockFetcherHandler.fetchBlocks over the true chain ---- *)
RECURSIVE HonestFrom(_)
HonestFrom(h) ==                       \* blocks h, h-1, ... ; stops after a block older than MinTS or when the
  IF h < 0 \/ h > N THEN <<>>          \* decremented height reaches 0 (so genesis needs a request of its own)
  ELSE IF h = 0 THEN <<True(0)>>
  ELSE IF h - 1 = 0 \/ ts[h] < MinTS0 THEN <<True(h)>>
  ELSE <<True(h)>> \o HonestFrom(h - 1)
Honest(h) == HonestFrom(h)             \* <<>> stands for the error "no blocks found"

(* ---- what a faulty peer can make of it ---- *)
Garbage    == [id |-> 100, parent |-> 100, h |-> 0, ts |-> 0, ok |-> FALSE]
Forged(b)  == [b EXCEPT !.id = 100 + b.h]                     \* same header fields, other content => other hash
Responses(h) ==
  LET hs == Honest(h) IN
  {hs, <<>>}                                                                        \* honest, error / empty
  \cup {SubSeq(hs, 1, k) : k \in 1..Len(hs)}                                        \* partial
  \cup {[hs EXCEPT ![j] = Garbage] : j \in 1..Len(hs)}                              \* truncated bytes
  \cup {[hs EXCEPT ![j] = Forged(hs[j])] : j \in 1..Len(hs)}                        \* forged block
  \cup {[i \in 1..Len(hs) |-> hs[Len(hs) + 1 - i]]}                                 \* reordered
  \cup {IF Len(hs) >= 2 THEN [hs EXCEPT ![1] = hs[2], ![2] = hs[1]] ELSE hs}        \* two swapped
  \cup {Honest(h - 1), Honest(h + 1)}                                               \* answer to another height
  \cup {SubSeq(hs, 1, j - 1) \o SubSeq(hs, j + 1, Len(hs)) : j \in 1..Len(hs)}     \* good prefix, then a block of another height
  \cup {SubSeq(hs, 1, j) \o <<hs[j]>> \o SubSeq(hs, j + 1, Len(hs)) : j \in 1..Len(hs)}  \* a block repeated

(* ---- client: expected-parent chaining over one response ---- *)
Finishes(b) == b.ts < MinTS \/ (StopAtGenesis /\ b.h = 0)
(* the accepted prefix: parsable, id = expected parent id, stop after a finishing block *)
RECURSIVE Accept(_, _)
Accept(resp, expect) ==
  IF resp = <<>> THEN <<>>
  ELSE LET b == Head(resp) IN
       IF ~b.ok \/ b.id # expect THEN <<>>
       ELSE IF Finishes(b) THEN <<b>>
       ELSE <<b>> \o Accept(Tail(resp), b.parent)

InitWith(n0, nf, w) ==
  /\ conf = [n |-> n0 + nf, n0 |-> n0, win |-> w] /\ tgt = n0
  /\ ts \in [0..N -> 0..(N + 1)] /\ \A h \in 1..N : ts[h - 1] <= ts[h]
  /\ oldest \in 1..n0                      \* what backfillFromExisting found (the window is not yet complete)
  /\ ~Past(oldest)
  /\ last = oldest /\ inflight = FALSE /\ reqH = oldest - 1 /\ cdone = FALSE
  /\ delivered = <<>> /\ saved = <<>> /\ sdone = FALSE /\ faults = 0

(* top of the client loop: done if lastBlock is older than the window (or, repaired, is genesis) ... *)
LoopDone == Past(last) \/ (StopAtGenesis /\ last = 0)
ClientCheck ==
  /\ ~cdone /\ ~inflight /\ LoopDone
  /\ cdone' = TRUE /\ UNCHANGED <<conf, tgt, ts, oldest, last, inflight, reqH, delivered, saved, sdone, faults>>
(* ... otherwise sample a peer and send the request *)
RoundStart ==
  /\ ~cdone /\ ~inflight /\ ~LoopDone
  /\ inflight' = TRUE /\ UNCHANGED <<conf, tgt, ts, oldest, last, reqH, cdone, delivered, saved, sdone, faults>>

(* processing of one response (the minimum timestamp may have moved since the request was sent) *)
RoundBody(resp) ==
  /\ LET acc == Accept(resp, last - 1) IN        \* expected parent id of a true block h is h - 1
     /\ delivered' = delivered \o acc
     /\ IF acc = <<>> THEN /\ UNCHANGED <<last, cdone>>
                            /\ reqH' = IF CursorFromAccepted THEN reqH ELSE reqH - Len(resp)
        ELSE LET b == acc[Len(acc)] IN
             /\ last' = b.h
             /\ cdone' = Finishes(b)
             /\ reqH' = IF Finishes(b) THEN reqH
                        ELSE IF CursorFromAccepted THEN b.h - 1     \* 0 - 1 underflows (modelled as -1)
                        ELSE reqH - Len(resp)
  /\ UNCHANGED <<conf, tgt, ts, oldest, saved, sdone>>
Round(resp) == ~cdone /\ inflight /\ inflight' = FALSE /\ RoundBody(resp)

HonestRound == Round(Honest(reqH)) /\ UNCHANGED faults
FaultyRound == \E r \in Responses(reqH) : Round(r) /\ faults' = faults + 1

(* syncer goroutine: range over the result channel *)
Save ==
  /\ Len(saved) < Len(delivered)
  /\ saved' = Append(saved, delivered[Len(saved) + 1])
  /\ UNCHANGED <<conf, tgt, ts, oldest, last, inflight, reqH, cdone, delivered, sdone, faults>>
SignalDone ==
  /\ cdone /\ Len(saved) = Len(delivered) /\ ~sdone
  /\ sdone' = TRUE /\ UNCHANGED <<conf, tgt, ts, oldest, last, inflight, reqH, cdone, delivered, saved, faults>>

(* Syncer.UpdateSyncTarget(next block from consensus): accept it; if the blocks the node holds from `oldest` upwards
   now span more than a window the backfill is complete (Close: signal done, cancel the fetcher - the client may still
   finish the response it is working on); otherwise the minimum timestamp follows the new target *)
ForwardCompletes(h) == IF StrictForward THEN ts[h] - ts[oldest] > Win ELSE ts[h] - ts[oldest] >= Win
Forward ==
  /\ tgt < N /\ tgt' = tgt + 1
  /\ sdone' = (sdone \/ ForwardCompletes(tgt + 1))
  /\ UNCHANGED <<conf, ts, oldest, last, inflight, reqH, cdone, delivered, saved, faults>>

Next == ClientCheck \/ RoundStart \/ HonestRound \/ FaultyRound \/ Save \/ SignalDone \/ Forward

(* ---- properties ---- *)
(* every recorded block is the true parent of the previously recorded one, starting below `oldest` *)
SavedAreTrueAncestorsContiguous ==
  \A i \in 1..Len(saved) : saved[i] = True(oldest - i)
SavedHeights == {saved[i].h : i \in 1..Len(saved)}
(* at completion everything the window of the CURRENT target needs below `oldest` (through the first block past the
   window, or genesis) is recorded; the blocks from `oldest` up to the target are held by the node *)
CompleteWhenDone == sdone => Required(oldest) \subseteq SavedHeights
(* once everything needed is recorded the backfill does complete *)
NothingLeftToFetch == Required(oldest) \subseteq SavedHeights
=============================================================================
