------------------------------- MODULE DList --------------------------------
(* internal/list/list.go (extra module X01): the generic doubly linked list  *)
(* behind the mempool's FIFO queue.  Two lists are modelled so that an       *)
(* element handed to the wrong list's Remove is covered.                     *)
(*  - implementation: the pointer fields next / prev / list of every element *)
(*    and of the two sentinels (root), size, written statement by statement  *)
(*    as PushFront / PushBack / Remove do (lazy init of the sentinel ring);  *)
(*  - abstraction: seq[L], the sequence of elements of list L.               *)
(* Elements are numbered in allocation order; element e carries value e.     *)
EXTENDS Integers, Sequences, FiniteSets

CONSTANTS MaxNodes,
          Variant        \* "code" | "nocheck" (Remove without the e.list == l test)

Lists   == {1, 2}
Nodes   == 1..MaxNodes
Nil     == 0
Root(L) == 100 + L
Cells   == Nodes \cup {Root(L) : L \in Lists}

VARIABLES nxt, prv, own,      \* own[e] = list the element belongs to (0 = none): the e.list field
          size, alloc,        \* size[L]; alloc = number of elements created so far
          res,                \* value returned by the last call (Remove: the element's value; Push: the new element)
          seq                 \* abstraction

impl == <<nxt, prv, own, size, alloc>>
vars == <<nxt, prv, own, size, alloc, res, seq>>

Init ==
  /\ nxt = [c \in Cells |-> Nil] /\ prv = [c \in Cells |-> Nil] /\ own = [e \in Nodes |-> 0]
  /\ size = [L \in Lists |-> 0] /\ alloc = 0 /\ res = Nil
  /\ seq = [L \in Lists |-> <<>>]

(* ---------------- implementation ---------------- *)
(* l.init() when l.root.next == nil, then insertAfter(e, at) *)
Ring(L, f) == IF nxt[Root(L)] = Nil THEN [f EXCEPT ![Root(L)] = Root(L)] ELSE f

InsertAfter(L, e, front) ==
  LET n0 == Ring(L, nxt)
      p0 == Ring(L, prv)
      at == IF front THEN Root(L) ELSE p0[Root(L)]
      an == n0[at]
  IN /\ prv' = [[p0 EXCEPT ![e] = at] EXCEPT ![an] = e]
     /\ nxt' = [[n0 EXCEPT ![e] = an] EXCEPT ![at] = e]
     /\ own' = [own EXCEPT ![e] = L]
     /\ size' = [size EXCEPT ![L] = @ + 1]

IPush(L, front) ==
  /\ alloc < MaxNodes
  /\ alloc' = alloc + 1
  /\ InsertAfter(L, alloc + 1, front)
  /\ res' = alloc + 1

IRemove(L, e) ==
  /\ e \in 1..alloc
  /\ res' = e
  /\ alloc' = alloc
  /\ IF own[e] = L \/ (Variant = "nocheck" /\ own[e] # 0)
     THEN /\ nxt' = [[nxt EXCEPT ![prv[e]] = nxt[e]] EXCEPT ![e] = Nil]
          /\ prv' = [[prv EXCEPT ![nxt[e]] = prv[e]] EXCEPT ![e] = Nil]
          /\ own' = [own EXCEPT ![e] = 0]
          /\ size' = [size EXCEPT ![L] = @ - 1]
     ELSE UNCHANGED <<nxt, prv, own, size>>

(* queries, as coded *)
IFirst(L) == IF size[L] = 0 THEN Nil ELSE nxt[Root(L)]
ILast(L)  == IF size[L] = 0 THEN Nil ELSE prv[Root(L)]
INext(e)  == IF own[e] = 0 \/ nxt[e] = Root(own[e]) THEN Nil ELSE nxt[e]
IPrev(e)  == IF own[e] = 0 \/ prv[e] = Root(own[e]) THEN Nil ELSE prv[e]

(* ---------------- abstraction ---------------- *)
SeqSet(s)    == {s[i] : i \in DOMAIN s}
Drop(s, e)   == SelectSeq(s, LAMBDA x : x # e)
APush(L, e, front) == seq' = [seq EXCEPT ![L] = IF front THEN <<e>> \o @ ELSE Append(@, e)]
ARemove(L, e)      == seq' = [seq EXCEPT ![L] = Drop(@, e)]      \* a no-op when e is not in list L

PushFront(L) == IPush(L, TRUE)  /\ APush(L, alloc + 1, TRUE)
PushBack(L)  == IPush(L, FALSE) /\ APush(L, alloc + 1, FALSE)
Remove(L, e) == IRemove(L, e) /\ ARemove(L, e)

Next == \E L \in Lists : PushFront(L) \/ PushBack(L) \/ (\E e \in Nodes : Remove(L, e))
Spec == Init /\ [][Next]_vars

(* ---------------- properties ---------------- *)
Pos(s, e) == CHOOSE i \in DOMAIN s : s[i] = e
Holder(e) == IF \E L \in Lists : e \in SeqSet(seq[L]) THEN CHOOSE L \in Lists : e \in SeqSet(seq[L]) ELSE 0
Rev(s)    == [i \in DOMAIN s |-> s[Len(s) + 1 - i]]

(* what a user sees when walking the list with First/Next (resp. Last/Prev); fuel bounds a corrupted ring *)
RECURSIVE Walk(_, _, _)
Walk(e, fwd, fuel) ==
  IF e = Nil \/ e \notin Nodes \/ fuel = 0 THEN <<>>
  ELSE <<e>> \o Walk(IF fwd THEN INext(e) ELSE IPrev(e), fwd, fuel - 1)
Forward(L)  == Walk(IFirst(L), TRUE, MaxNodes + 1)
Backward(L) == Walk(ILast(L), FALSE, MaxNodes + 1)

TypeOK == /\ alloc \in 0..MaxNodes /\ \A L \in Lists : SeqSet(seq[L]) \subseteq 1..alloc
          /\ \A L \in Lists : size[L] \in 0..MaxNodes

(* L1  the list is the sequence built by its pushes and removes, in both directions, and Size is its length *)
IsSequence == \A L \in Lists : Forward(L) = seq[L] /\ Backward(L) = Rev(seq[L]) /\ size[L] = Len(seq[L])

(* L2  an element is in at most one list, once; a removed (or never inserted) element is detached *)
Exclusive == /\ \A L \in Lists : Len(seq[L]) = Cardinality(SeqSet(seq[L]))
             /\ SeqSet(seq[1]) \cap SeqSet(seq[2]) = {}
Detached  == \A e \in 1..alloc : Holder(e) = 0 => INext(e) = Nil /\ IPrev(e) = Nil

(* L3  Remove affects only the list it is called on and only if the element is in it; it always returns the value *)
RemoveStep ==
  \A L \in Lists, e \in Nodes : Remove(L, e) =>
     /\ res' = e
     /\ \A M \in Lists \ {L} : Forward(M)' = Forward(M) /\ size'[M] = size[M]
     /\ e \notin SeqSet(seq[L]) => Forward(L)' = Forward(L) /\ size'[L] = size[L]
StepOK == [][RemoveStep]_vars
=============================================================================
