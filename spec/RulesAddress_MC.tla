--------------------------- MODULE RulesAddress_MC ---------------------------
(* Design step for C28: the complete decision table (one state per row).   *)
EXTENDS RulesAddress, TLC

CONSTANT Totals            \* decoded byte counts, boundary focused
VARIABLE r

Rows == {x \in [pfx : Prefixes, hex : HexKinds, total : Totals, sum : Sums, case : Cases] :
           /\ (x.sum = "right" => x.total >= ChecksumLen)     \* fewer than 4 bytes carry no checksum
           /\ (x.total = 0 => x.case = "lower")}              \* no digits, no case

(* the table is enumerated by Next (from the canonical row) so that TLC reports state counts *)
(* even when a row violates an invariant                                                   *)
Init == r = FormatRow
Next == r' \in Rows
Spec == Init /\ [][Next]_r

ParserMeetsProperty   == Conforms(Parse(r), r)
OriginalMeetsProperty == Conforms(ParseAsOriginallyCoded(r), r)
(* the two parsers differ exactly on checksummed payloads of the wrong length *)
OriginalDelimited     == (Parse(r) # ParseAsOriginallyCoded(r))
                           <=> (r.hex = "valid" /\ r.sum = "right" /\ r.total # FullLen)
FormatParses          == Canonical(FormatRow) /\ Parse(FormatRow) = "accept" /\ FormatRow.total \in Totals
(* every way of being malformed is named, and only those are rejected by the property *)
VerdictTotal          == /\ (Verdict(r) = "reject") <=> (Malformation(r) # "none")
                         /\ (Verdict(r) = "accept") => (r = FormatRow)
=============================================================================
