SPECIFICATION Spec
CONSTANTS
  MaxNodes = 5
  Variant = "code"
INVARIANTS TypeOK IsSequence Exclusive Detached
PROPERTIES StepOK
CHECK_DEADLOCK FALSE
