--------------------------- MODULE ExpiryHeapImpl ---------------------------
(* Implementation-shaped model of internal/eheap/eheap.go over               *)
(* internal/heap (GoHeap.tla), run in lock step with the abstract            *)
(* ExpirySet (TrackZero = TRUE).  Refinement invariants tie the two.         *)
EXTENDS ExpirySet, GoHeap, TLC

VARIABLES arr,     \* Seq([id, val, index])   minHeap.ih.items (lookup map = ids of arr)
          ires,    \* implementation's result of the last call
          last     \* label of the last call

ivars == <<arr, ires, last>>
vars  == <<esvars, ivars>>

IInit == ESInit /\ arr = <<>> /\ ires = R(TRUE, NoExp, {}) /\ last = "init"

Ent(i, e) == [id |-> i, val |-> e, index |-> Len(arr)]

IAdd(i, e) ==
  /\ arr' = HPush(arr, Ent(i, e))
  /\ ires' = R(TRUE, NoExp, {}) /\ last' = "add"

(* Remove: Get(id) -> entry.Index -> Heap.Remove(index) *)
RemoveId(a, i) == HRemove(a, HGet(a, i).index)

IRemove(i) ==
  /\ IF ~HHas(arr, i) THEN arr' = arr /\ ires' = R(FALSE, NoExp, {})
     ELSE /\ arr' = RemoveId(arr, i)[1]
          /\ ires' = R(TRUE, HGet(arr, i).val, {})
  /\ last' = "remove"

(* SetMin: loop { PeekMin; if expiry < val { PopMin (= Remove(first.id)) } else break } *)
RECURSIVE SetMinLoop(_, _, _)
SetMinLoop(a, t, acc) ==
  IF Len(a) = 0 \/ a[1].val >= t THEN <<a, acc>>
  ELSE SetMinLoop(RemoveId(a, a[1].id)[1], t, Append(acc, a[1].id))

ISetMin(t) ==
  LET r == SetMinLoop(arr, t, <<>>) IN
  /\ arr' = r[1]
  /\ ires' = R(TRUE, IF Len(r[2]) = Cardinality({r[2][k] : k \in DOMAIN r[2]}) THEN NoExp ELSE -2,   \* -2: duplicate returned
               {r[2][k] : k \in DOMAIN r[2]})
  /\ last' = "setmin"

IHas(i) == ires' = R(HHas(arr, i), NoExp, {}) /\ arr' = arr /\ last' = "has"

IPeekMin ==
  /\ ires' = IF Len(arr) = 0 THEN R(FALSE, NoExp, {}) ELSE R(TRUE, arr[1].val, {arr[1].id})
  /\ arr' = arr /\ last' = "peekmin"

IPopMin ==
  /\ IF Len(arr) = 0 THEN arr' = arr /\ ires' = R(FALSE, NoExp, {})
     ELSE arr' = RemoveId(arr, arr[1].id)[1] /\ ires' = R(TRUE, arr[1].val, {arr[1].id})
  /\ last' = "popmin"

ILen == ires' = R(TRUE, Len(arr), {}) /\ arr' = arr /\ last' = "len"

Next ==
  \/ \E i \in Ids, e \in Exps : ESAdd(<<[i |-> i, e |-> e]>>) /\ IAdd(i, e)
  \/ \E i \in Ids : ESRemove(i) /\ IRemove(i)
  \/ \E i \in Ids : ESHas(i) /\ IHas(i)
  \/ \E t \in MinArgs : ESSetMin(t) /\ ISetMin(t)
  \/ ESPeekMin /\ IPeekMin
  \/ IPopMin /\ ESPopMin(IF Len(arr) = 0 THEN CHOOSE i \in Ids : TRUE ELSE arr[1].id)
  \/ ESLen /\ ILen

Spec == IInit /\ [][Next]_vars

(* ---- refinement ---- *)
Refines ==
  /\ {<<arr[k].id, arr[k].val>> : k \in DOMAIN arr} = {<<i, held[i]>> : i \in Held}
  /\ Len(arr) = Cardinality(Held)
SameResultOf(l, ir, r) ==
  IF l = "peekmin" THEN ir.ok = r.ok /\ ir.e = r.e /\ ir.ids \subseteq r.ids /\ (r.ids = {} <=> ir.ids = {})
  ELSE ir = r
SameResult == SameResultOf(last, ires, res)
(* for the large configuration: states are identified by <<tz, held, arr>> (VIEW) and the result comparison is *)
(* evaluated on every transition instead (ACTION_CONSTRAINT), which TLC does before it discards known states   *)
View           == <<tz, held, arr>>
SameResultStep == Assert(SameResultOf(last', ires', res'), <<"SameResult violated", last', ires', res'>>)
HeapShape == HeapOrdered(arr) /\ IndexOK(arr) /\ DistinctIds(arr)
=============================================================================
