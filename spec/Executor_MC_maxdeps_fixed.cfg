SPECIFICATION Spec
CONSTANTS
  N = 3
  Keys = {k1}
  NW = 2
  MaxDeps = 1
  OriginalOffset = FALSE
  MaxFail = 1
  Shapes <- ShapesWriters
INVARIANTS TypeOK NoOverlap QueueOrder AtMostOnce WaitOK
PROPERTIES WaitReturns
CHECK_DEADLOCK TRUE
