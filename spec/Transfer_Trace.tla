--------------------------- MODULE Transfer_Trace ---------------------------
(* C06 binding: blocks of real actions.Transfer transactions executed by    *)
(* the real chain.Processor with the morpheusvm balance handler             *)
(* (drivers/examples/morpheusvm/actions) validated against the ledger of    *)
(* Transfer.tla.  One "block" line = one Processor.Execute call: the        *)
(* transactions (sponsor, actor, transfers), the balances before, and       *)
(* everything the call returned (results with fee and success flag,         *)
(* balances after read through the returned view, a scan of all balance     *)
(* records of the committed state).  The action never blocks; every broken  *)
(* clause is added to diag and DiagEmpty rejects the line.                  *)
EXTENDS Transfer, TLC, Json, IOUtils

VARIABLES l, bal, diag
tvars == <<l, bal, diag>>

Trace == ndJsonDeserialize(IOEnv.TRACE)
N     == Len(Trace)
T     == Trace[l]
Ev(e) == l <= N /\ Trace[l].ev = e /\ l' = l + 1

MAXT == 2147483647     \* recorded values are far below it: no transfer of a TLC-validated scenario can overflow
                       \* (overflow near 2^64 is evaluated by Apalache over the same Transfer.tla, see checks/C06.py)

Ledger(rec) == [a \in DOMAIN rec |-> rec[a]]
SameMap(f, g) == DOMAIN f = DOMAIN g /\ \A k \in DOMAIN f : f[k] = g[k]

TraceInit ==
  /\ l = 2 /\ TLCSet(1, 1)
  /\ Trace[1].ev = "reset"
  /\ bal = Ledger(Trace[1].bal) /\ diag = {}

TReset == Ev("reset") /\ bal' = Ledger(T.bal) /\ diag' = {}

(* the transactions as the ledger sees them; the fee of an included transaction is the fee its result reports
   (the statement speaks about "the fees charged"), the fee of a transaction of a rejected block is the one the
   driver computed from the transaction's units and the block's unit prices *)
TxsWith(feeOf(_)) == [i \in DOMAIN T.txs |-> [sponsor |-> T.txs[i].sponsor, actor |-> T.txs[i].actor, fee |-> feeOf(i),
                                               actions |-> T.txs[i].actions]]

BlockDiag ==
  LET out == T.out IN
  (IF ~SameMap(T.pre, bal) THEN {"pre-state-is-not-the-previous-post-state"} ELSE {}) \cup
  (IF out.err # "" THEN
     LET exp == RunBlockA(bal, TxsWith(LAMBDA i : T.txs[i].fee), MAXT) IN
     (IF exp.valid THEN {"valid-block-rejected"} ELSE {}) \cup
     (IF out.err # "insufficient" THEN {"error-class"} ELSE {})
   ELSE IF Len(out.results) # Len(T.txs) THEN {"result-count"}
   ELSE
     LET exp  == RunBlockA(bal, TxsWith(LAMBDA i : out.results[i].fee), MAXT)
         fees == FoldSeqL(LAMBDA acc, r : acc + r.fee, 0, out.results)
     IN
     (* C06 itself, independent of the per-account semantics *)
     (IF SumBal(out.post) # SumBal(bal) - fees THEN {"supply-not-conserved"} ELSE {}) \cup
     (IF out.scanned /\ out.others # 0 THEN {"balance-record-of-unknown-account"} ELSE {}) \cup
     (IF ~exp.valid THEN {"unpayable-fee-accepted"}
      ELSE (IF \E i \in DOMAIN exp.oks : out.results[i].ok # exp.oks[i] THEN {"success-flag"} ELSE {}) \cup
           (IF ~SameMap(out.post, exp.bal) THEN {"post-balances"} ELSE {})))

TBlock ==
  /\ Ev("block")
  /\ diag' = BlockDiag
  /\ bal' = IF T.advance /\ T.out.err = "" THEN Ledger(T.out.post) ELSE bal

TraceNext == TReset \/ TBlock
TraceSpec == TraceInit /\ [][TraceNext]_tvars

DiagEmpty == diag = {}
NonNegative == \A a \in DOMAIN bal : bal[a] >= 0
HWM      == TLCSet(1, IF TLCGet(1) > l - 1 THEN TLCGet(1) ELSE l - 1)
Accepted == PrintT(<<"TRACE_HWM", TLCGet(1)>>) /\ TLCGet(1) = N
=============================================================================
