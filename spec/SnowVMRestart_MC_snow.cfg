SPECIFICATION MCSpec
CONSTANTS
  N = 5
  Mode = "snow"
  MaxCrashes = 3
CHECK_DEADLOCK FALSE
INVARIANTS
  TypeOK
  IndexAheadOfState
  RestartSucceeds
  RecoveredEqualsNoCrash
  AtLeastOnceInOrderOrKF
