SPECIFICATION GSpec
CONSTANTS
  MaxN = 5
  KeyIds = {"1", "2"}
  Depth = 24
INVARIANT Emit
CHECK_DEADLOCK FALSE
