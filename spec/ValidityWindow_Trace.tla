------------------------ MODULE ValidityWindow_Trace ------------------------
(* Trace validation of a real TimeValidityWindow (drivers/internal/          *)
(* validitywindow) against the statement of C09.  The spec keeps only what   *)
(* the statement talks about - the tree of verified blocks with their        *)
(* timestamps and transactions - and decides every logged answer from it:    *)
(*  verify   must fail when the block repeats a transaction inside itself or *)
(*           one of an ancestor whose timestamp is within the window of the  *)
(*           block; it may fail only if it repeats some ancestor's           *)
(*           transaction (or itself);                                        *)
(*  isrepeat must mark every candidate contained in the parent or an         *)
(*           ancestor within the window of the given time, and may mark only *)
(*           candidates contained in some ancestor.                          *)
(* Accept / restart lines move the accepted tip; answers never depend on it. *)
EXTENDS Integers, Sequences, FiniteSets, TLC, Json, IOUtils

VARIABLES l, W, tree, diag       \* tree: function block name -> [parent, ts, txs (set of tx ids)]
tvars == <<l, W, tree, diag>>

Trace == ndJsonDeserialize(IOEnv.TRACE)
N == Len(Trace)
T == Trace[l]
Ev(e) == l <= N /\ Trace[l].ev = e /\ l' = l + 1

Root == [g |-> [parent |-> "", ts |-> 0, txs |-> {}]]
TraceInit == l = 2 /\ TLCSet(1, 1) /\ Trace[1].ev = "reset" /\ W = Trace[1].w /\ tree = Root /\ diag = {}
TReset == Ev("reset") /\ W' = T.w /\ tree' = Root /\ diag' = {}

Ids(txs) == {txs[i].id : i \in DOMAIN txs}
Oldest(ts) == IF ts - W > 0 THEN ts - W ELSE 0

(* ancestors-or-self of block name b *)
RECURSIVE Chain(_)
Chain(b) == IF b = "" THEN {} ELSE {b} \cup Chain(tree[b].parent)
InWindow(b, ts) == tree[b].ts >= Oldest(ts)
RepeatsWithin(p, ts, ids) == {x \in ids : \E a \in Chain(p) : InWindow(a, ts) /\ x \in tree[a].txs}
RepeatsAny(p, ids) == {x \in ids : \E a \in Chain(p) : x \in tree[a].txs}
SelfDup(txs) == \E i, j \in DOMAIN txs : i < j /\ txs[i].id = txs[j].id

TVerify ==
  /\ Ev("verify")
  /\ LET ids == Ids(T.txs)
         must == SelfDup(T.txs) \/ RepeatsWithin(T.parent, T.ts, ids) # {}
         may  == SelfDup(T.txs) \/ RepeatsAny(T.parent, ids) # {}
     IN /\ diag' = (IF T.res = "ok" /\ must THEN {"replay-accepted"} ELSE {}) \cup
                   (IF T.res = "duplicate" /\ ~may THEN {"fresh-block-rejected"} ELSE {}) \cup
                   (IF T.res \notin {"ok", "duplicate"} THEN {"unexpected-error"} ELSE {})
        /\ tree' = IF T.res = "ok" THEN [b \in DOMAIN tree \cup {T.id} |->
                                           IF b = T.id THEN [parent |-> T.parent, ts |-> T.ts, txs |-> ids] ELSE tree[b]]
                   ELSE tree
  /\ UNCHANGED W

TIsRepeat ==
  /\ Ev("isrepeat")
  /\ LET ids == Ids(T.txs)
         marked == {T.marked[i] : i \in DOMAIN T.marked}
     IN diag' = (IF T.res # "ok" THEN {"unexpected-error"} ELSE
                  (IF ~(RepeatsWithin(T.parent, T.ts, ids) \subseteq marked) THEN {"repeat-not-marked"} ELSE {}) \cup
                  (IF ~(marked \subseteq RepeatsAny(T.parent, ids)) THEN {"fresh-candidate-marked"} ELSE {}))
  /\ UNCHANGED <<W, tree>>

TAccept  == Ev("accept")  /\ diag' = (IF T.id \in DOMAIN tree THEN {} ELSE {"accept-of-unverified-block"}) /\ UNCHANGED <<W, tree>>
TRestart == Ev("restart") /\ diag' = {} /\ UNCHANGED <<W, tree>>

TraceNext == TReset \/ TVerify \/ TIsRepeat \/ TAccept \/ TRestart
TraceSpec == TraceInit /\ [][TraceNext]_tvars

(* C09 on the observed tree: no transaction twice along any chain of blocks that verified *)
NoDoubleInclusionObserved ==
  \A b \in DOMAIN tree : \A a \in Chain(tree[b].parent) : InWindow(a, tree[b].ts) => tree[a].txs \cap tree[b].txs = {}
DiagEmpty == diag = {}
HWM      == TLCSet(1, IF TLCGet(1) > l - 1 THEN TLCGet(1) ELSE l - 1)
Accepted == PrintT(<<"TRACE_HWM", TLCGet(1)>>) /\ TLCGet(1) = N
=============================================================================
