SPECIFICATION Spec
CONSTANTS
  Vals = {1, 2}
  DefA = 0
  DefB = 0
  MaxPrims = 3
  Variant = "code"
INVARIANTS FreshDefault CalledIffDecodes AccIsFold
CHECK_DEADLOCK FALSE
