SPECIFICATION Spec
CONSTANTS
  Keys = {"a", "b"}
  NC = 2
  NW = 1
  TxCap = 1
  CallShapes <- ShapesAll
  Original = "none"
INVARIANTS TypeOK ReadsSubsetOfDeclared EachKeyReadAtMostOnce GetReturnsParentValues ErrorPropagates

CHECK_DEADLOCK TRUE
