SPECIFICATION MCSpec
CONSTANTS
  Chunks = {"k1", "k2"}
  Kinds = {"valid", "wrong", "error"}
  MaxCerts = 2
  MaxScript = 3
  MaxBlocks = 2
  Variant = "fixed"
  Limits = {1, 100}
  MaxFail = 1
  Producers = {"v1", "v2"}
INVARIANTS AcceptTypeOK ChunksExact PrefixExact NeverFails
CHECK_DEADLOCK FALSE
