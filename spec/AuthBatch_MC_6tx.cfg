SPECIFICATION Spec
CONSTANTS
  MaxTx = 6
  MaxCores = 3
  MinBatch = 2
  ItemCap = 2
  BlockingAdd = TRUE
  FlushRemainder = TRUE
INVARIANTS VerdictCorrect EverySigChecked NoSendAfterClose
CHECK_DEADLOCK FALSE
