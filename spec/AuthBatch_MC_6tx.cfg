SPECIFICATION Spec
CONSTANTS
  MaxTx = 6
  MaxCores = 3
  MinBatch = 2
  FlushRemainder = TRUE
INVARIANTS VerdictCorrect EverySigChecked NoSendAfterClose
CHECK_DEADLOCK FALSE
