SPECIFICATION TraceSpec
CONSTANTS
  Agents <- TAgents
  K = 0
  Variant = "code"
CONSTRAINT HWM
INVARIANTS DiagEmpty
POSTCONDITION Accepted
CHECK_DEADLOCK FALSE
