SPECIFICATION Spec
CONSTANTS
  NW = 2
  NJ = 2
  NT = 1
  MaxJobs = 1
  Original = FALSE
  SubmitDuringStop = FALSE
INVARIANTS TypeOK AtMostOnce JobResultOK ShutdownRanNothing JobsSequential StopShutsDown NoPanic
PROPERTIES JobCompletes StopReturns
CHECK_DEADLOCK TRUE
