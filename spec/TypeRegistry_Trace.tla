------------------------- MODULE TypeRegistry_Trace -------------------------
(* Trace validation of the real codec.TypeParser and auth.AuthProvider (X14). *)
(*   reset {cap}              a new registry (cap = 256 / 0 = unbounded)     *)
(*   reg   {id, dec, err}     Register of id with fresh decoder number dec;   *)
(*                            err = "" | "dup" | "full" | "unknown"          *)
(*   use   {id, err, dec, intact, outok}  Unmarshal of a slice starting with *)
(*                            byte id (id = -1: empty slice); dec = decoder   *)
(*                            that ran (-1 none); intact = it was handed the *)
(*                            caller's whole slice; outok = its result came  *)
(*                            back unchanged                                 *)
(* and after every call ids / decs = GetRegisteredTypes (type id and          *)
(* registration number of each instance).  The monitor regs is stepped from  *)
(* the logged calls by the statement's rule (accepted iff the id is free and *)
(* the registry is not full); the observed types are loaded into the         *)
(* implementation variables and every clause is evaluated on the step.       *)
EXTENDS TypeRegistry, TLC, Json, IOUtils

VARIABLES l, diag, cap
tvars == <<vars, l, diag, cap>>

Trace == ndJsonDeserialize(IOEnv.TRACE)
N     == Len(Trace)
T     == Trace[l]
Ev(e) == l <= N /\ Trace[l].ev = e /\ l' = l + 1
TIds  == 0..255
TDecs == 0..100000
Name(ok, n) == IF ok THEN {} ELSE {n}

Obs(dflt) == IF T.listed THEN [i \in DOMAIN T.ids |-> [id |-> T.ids[i], dec |-> T.decs[i]]] ELSE dflt
\* (the AuthProvider has no listing: listed = FALSE, the registry's contents are then only observed through lookups)
IsFull == cap > 0 /\ Len(regs) >= cap

TraceInit == l = 1 /\ TLCSet(1, 0) /\ diag = {} /\ cap = 256 /\ Init

TReset ==
  /\ Ev("reset") /\ cap' = T.cap
  /\ regs' = <<>> /\ types' = Obs(<<>>) /\ idx' = <<>>
  /\ res' = [op |-> "new", id |-> -1, err |-> "", dec |-> NoDec]
  /\ diag' = Name(Len(types') = 0, "new-registry-not-empty")

TReg ==
  /\ Ev("reg") /\ UNCHANGED cap
  /\ LET accept == T.id \notin IdsOf(regs) /\ ~IsFull
     IN /\ regs' = IF accept THEN Append(regs, [id |-> T.id, dec |-> T.dec]) ELSE regs
        /\ types' = Obs(regs')
        /\ idx' = [id \in IdsOf(types') |-> First(types', id).dec]
        /\ res' = [op |-> "reg", id |-> T.id, err |-> T.err, dec |-> NoDec]
        /\ diag' = Name(accept <=> T.err = "", "accepted-iff-free-id-and-not-full") \cup
                   Name(T.err = "dup" => T.id \in IdsOf(regs), "duplicate-error-for-a-free-id") \cup
                   Name(T.err = "full" => IsFull, "full-error-below-capacity") \cup
                   Name(T.err # "unknown", "unclassified-error") \cup
                   Name(types' = regs', "registered-types-are-not-the-accepted-registrations-in-order")

TUse ==
  /\ Ev("use") /\ UNCHANGED <<cap, regs>>
  /\ types' = Obs(regs) /\ idx' = idx
  /\ res' = [op |-> "use", id |-> T.id, err |-> T.err, dec |-> T.dec]
  /\ diag' = Name((T.err = "") <=> (T.id \in IdsOf(regs)), "resolves-iff-registered") \cup
             Name(T.id \in IdsOf(regs) => T.dec = First(regs, T.id).dec, "wrong-decoder") \cup
             Name(T.id \notin IdsOf(regs) => T.dec = NoDec, "decoder-ran-for-unknown-id") \cup
             Name(T.intact, "decoder-did-not-get-the-whole-slice") \cup
             Name(T.outok, "decoder-result-not-returned") \cup
             Name(types' = regs, "lookup-changed-the-registry")

TraceNext == TReset \/ TReg \/ TUse
TraceSpec == TraceInit /\ [][TraceNext]_tvars

DiagEmpty == diag = {}
TUnique == \A i, j \in DOMAIN types : types[i].id = types[j].id => i = j
TBounded == cap > 0 => Len(types) <= cap
HWM      == TLCSet(1, IF TLCGet(1) > l - 1 THEN TLCGet(1) ELSE l - 1)
Accepted == PrintT(<<"TRACE_HWM", TLCGet(1)>>) /\ TLCGet(1) = N
=============================================================================
