--------------------------- MODULE ExpirySet_Gen ---------------------------
(* Transition cover (mbt): TLC enumerates the complete labelled state graph  *)
(* of the abstract ExpirySet over a small universe and prints every edge     *)
(* [from, op, result, to] exactly once (ACTION_CONSTRAINT Edge, VIEW held).  *)
(* checks/C25.py computes a set of paths from the empty set that traverses   *)
(* every edge; the Go replayer runs them on the real EMap / ExpiryHeap.      *)
(* PopMin is emitted only where the minimum is unique (elsewhere the         *)
(* implementation chooses and the path cannot be forced; tv covers that).    *)
(* EMap adds with expiry 0 are not generated: the statement leaves their      *)
(* treatment open ("applies to all entries with non-zero expiry").            *)
EXTENDS ExpirySet, TLC, Json, SequencesExt

VARIABLE lastop
gvars == <<esvars, lastop>>

Op(op, i, e, t) == [op |-> op, i |-> i, e |-> e, t |-> t]

GInit == ESInit /\ lastop = Op("init", "", 0, 0)

GNext ==
  \/ \E i \in Ids, e \in Exps : (tz \/ e # 0) /\ ESAdd(<<[i |-> i, e |-> e]>>) /\ lastop' = Op("add", i, e, 0)
  \/ \E i \in Ids : ESHas(i) /\ lastop' = Op("has", i, 0, 0)
  \/ \E t \in MinArgs : ESSetMin(t) /\ lastop' = Op("setmin", "", 0, t)
  \/ /\ tz
     /\ \/ \E i \in Ids : ESRemove(i) /\ lastop' = Op("remove", i, 0, 0)
        \/ ESPeekMin /\ lastop' = Op("peekmin", "", 0, 0)
        \/ ESLen /\ lastop' = Op("len", "", 0, 0)
        \/ Cardinality(MinIds) <= 1 /\ (\E i \in Ids : (Held = {} \/ i \in MinIds) /\ ESPopMin(i)) /\ lastop' = Op("popmin", "", 0, 0)

GSpec == GInit /\ [][GNext]_gvars
View  == <<tz, held>>
Edge  == PrintT("EDGE " \o ToJson([kind |-> IF tz THEN "eheap" ELSE "emap", from |-> held, op |-> lastop', to |-> held',
                                   res |-> [ok |-> res'.ok, e |-> res'.e, ids |-> SetToSeq(res'.ids)]]))
=============================================================================
