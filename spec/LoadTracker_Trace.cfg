SPECIFICATION TraceSpec
CONSTANTS
  Txs <- TTxs
  MaxCalls = 1000000
  Variant = "code"
CONSTRAINT HWM
INVARIANTS DiagEmpty CountsCalls MetricsAgree
POSTCONDITION Accepted
CHECK_DEADLOCK FALSE
