------------------------- MODULE DSMRNodeChain_MC -------------------------
(* design step for C37: an adversarial proposer offers any block (1..2 certificates, repeats allowed) on  *)
(* any processing tip, the builder builds on any tip, blocks are accepted in any order allowed by          *)
(* consensus; every expiry assignment 0..MaxE.  Fixed = FALSE checks the Verify that was coded originally  *)
(* (sensitivity: it must violate NoChunkTwice / NoExpiredRef).                                            *)
EXTENDS DSMRNodeChain
CONSTANTS MaxBlocks, MaxTs, MaxE, Win, Fixed
VARIABLE nb
mvars == <<cvars, nb>>

Order(S) == CHOOSE s \in [1..Cardinality(S) -> S] : SeqSet(s) = S
CertSeqs == {<<c>> : c \in Certs} \cup {<<c, d>> : c \in Certs, d \in Certs}
Tips     == {y \in DOMAIN blocks : lastAcc \in Path(y)}
NextTs(p) == {t \in (blocks[p].ts + 1)..(blocks[p].ts + 2) : t <= MaxTs}
NewId    == "b" \o ToString(nb + 1)

MCInit == nb = 0 /\ \E e \in [Certs -> 0..MaxE] : ChainInit(e, Win)

MCNext ==
  \/ /\ nb < MaxBlocks
     /\ \E p \in Tips, cs \in CertSeqs : \E t \in NextTs(p) :
          Verify(NewId, [parent |-> p, h |-> blocks[p].h + 1, ts |-> t, certs |-> cs], Fixed)
     /\ nb' = IF res' = "ok" THEN nb + 1 ELSE nb
  \/ /\ nb < MaxBlocks /\ built # NoBlock /\ built.parent \in Tips
     /\ Verify(NewId, built, Fixed)
     /\ nb' = IF res' = "ok" THEN nb + 1 ELSE nb
  \/ /\ \E p \in Tips : \E t \in NextTs(p) : Build(p, t, Order)
     /\ UNCHANGED nb
  \/ /\ \E id \in DOMAIN blocks : Accept(id, blocks[id].certs)
     /\ UNCHANGED nb
  \/ /\ \E c \in Certs \ stored : exp[c] >= smin /\ exp[c] <= smin + win /\ AddCert(c)
     /\ UNCHANGED nb

MCSpec == MCInit /\ [][MCNext]_mvars
(* res of a failed Verify is the only thing it changes: keep it out of the fingerprint *)
View == <<exp, win, blocks, lastAcc, seen, lah, stored, smin, delivered, built, nb>>
=============================================================================
