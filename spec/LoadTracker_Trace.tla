-------------------------- MODULE LoadTracker_Trace --------------------------
(* Trace validation of the real load.PrometheusTracker (X13).                *)
(*   reset {}                         NewPrometheusTracker on a fresh registry *)
(*   issue / confirm / fail {tx}      one call                               *)
(*   bulk {ni, nc, nf}                ni+nc+nf calls issued concurrently     *)
(* every line carries the getters (gi, gc, gf) and the gathered metrics      *)
(* (mi, mc, mf, lat = latency sample count) read after the call(s).          *)
EXTENDS LoadTracker, TLC, Json, IOUtils, Sequences

VARIABLES l, diag
tvars == <<vars, l, diag>>

Trace == ndJsonDeserialize(IOEnv.TRACE)
N     == Len(Trace)
T     == Trace[l]
Ev(e) == l <= N /\ Trace[l].ev = e /\ l' = l + 1
TTxs  == 0..64
Name(ok, n) == IF ok THEN {} ELSE {n}

Observe ==
  /\ issued' = T.gi /\ confirmed' = T.gc /\ failed' = T.gf
  /\ mI' = T.mi /\ mC' = T.mc /\ mF' = T.mf /\ mLat' = T.lat
  /\ out' = pending'          \* the outstanding map is not observable from outside the package
JudgeSet ==
          Name(issued' = calls'.issue, "issued-counts-issue-calls") \cup
          Name(confirmed' = calls'.confirm, "confirmed-counts-confirm-calls") \cup
          Name(failed' = calls'.fail, "failed-counts-fail-calls") \cup
          Name(mI' = issued' /\ mC' = confirmed' /\ mF' = failed', "metrics-disagree-with-getters") \cup
          Name(mLat' = confirmed' + failed', "latency-samples")
Judge == diag' = JudgeSet

TraceInit == l = 1 /\ TLCSet(1, 0) /\ diag = {} /\ Init
TReset == /\ Ev("reset")
          /\ calls' = [issue |-> 0, confirm |-> 0, fail |-> 0] /\ pending' = {}
          /\ Observe /\ diag' = JudgeSet \cup Name(T.ok, "constructor-failed")
TIssue   == Ev("issue") /\ calls' = [calls EXCEPT !.issue = @ + 1] /\ pending' = pending \cup {T.tx} /\ Observe /\ Judge
TConfirm == Ev("confirm") /\ calls' = [calls EXCEPT !.confirm = @ + 1] /\ pending' = pending \ {T.tx} /\ Observe /\ Judge
TFail    == Ev("fail") /\ calls' = [calls EXCEPT !.fail = @ + 1] /\ pending' = pending \ {T.tx} /\ Observe /\ Judge
TBulk    == /\ Ev("bulk")
            /\ calls' = [issue |-> calls.issue + T.ni, confirm |-> calls.confirm + T.nc, fail |-> calls.fail + T.nf]
            /\ pending' = {} /\ Observe /\ Judge

TraceNext == TReset \/ TIssue \/ TConfirm \/ TFail \/ TBulk
TraceSpec == TraceInit /\ [][TraceNext]_tvars

DiagEmpty == diag = {}
HWM      == TLCSet(1, IF TLCGet(1) > l - 1 THEN TLCGet(1) ELSE l - 1)
Accepted == PrintT(<<"TRACE_HWM", TLCGet(1)>>) /\ TLCGet(1) = N
=============================================================================
