--------------------------- MODULE Backfill_Trace ---------------------------
(* C22 binding step: executions of the real Syncer + BlockFetcherClient +     *)
(* TimeValidityWindow against a scripted network (the honest peer is the real *)
(* BlockFetcherHandler over the true chain) are replayed through Backfill.    *)
(*   reset : chain (timestamps, transactions per block), window, what the    *)
(*           node already has                                                 *)
(*   resp  : one FetchBlocksFromPeer call: requested height and the blocks    *)
(*           handed to the client, as records [id, parent, h, ts, ok]         *)
(*           (true blocks: id = height; fabricated ones: id >= 100)           *)
(*   update: Syncer.UpdateSyncTarget(next block from consensus), issued by    *)
(*           the driver while the client waits for a response                 *)
(*   save  : BlockStore.SaveHistorical(block)                                 *)
(*   end   : Syncer.Wait returned (done) or the 30 s watchdog fired; the      *)
(*           transactions TimeValidityWindow.IsRepeat reports as seen         *)
(* The spec's own client processes every response (Round); what the real      *)
(* syncer records must be, block by block, what that client delivered (Save): *)
(* so unparsable / unlinked / out-of-order blocks can never be recorded.  At  *)
(* the end: done => everything the CURRENT target's window requires is        *)
(* recorded (or held); the tracked set is                                     *)
(* exactly the transactions of the blocks the node had plus the recorded      *)
(* ones; not done is only acceptable while something is still missing and the *)
(* peers have not just answered Need requests in a row honestly (whatever the *)
(* client asked for - a client that asks for the wrong heights is not excused).*)
EXTENDS Backfill, TLC, Json, IOUtils

VARIABLES l,        \* next line of Trace
          txs,      \* transactions of the true chain: height -> set of tx numbers
          streak    \* consecutive most recent responses that were the honest answer to the request

Trace == ndJsonDeserialize(IOEnv.TRACE)
NL    == Len(Trace)
T     == Trace[l]
tvars == <<vars, l, txs, streak>>
Need  == 4

SetOf(s)  == {s[i] : i \in DOMAIN s}
TsOf(r)   == [h \in 0..r.n |-> r.ts[h + 1]]
TxsOf(r)  == [h \in 0..r.n |-> SetOf(r.txs[h + 1])]
Blk(b)    == [id |-> b.id, parent |-> b.parent, h |-> b.h, ts |-> b.ts, ok |-> b.ok]
RespOf(s) == [i \in DOMAIN s |-> Blk(s[i])]

(* Syncer.oldestBlock after backfillFromExisting: populate walks down from the target through the blocks the node
   has and stops at the first one older than the window *)
StartOf(r) ==
  LET tsf   == TsOf(r)
      minTs == IF tsf[r.n0] - r.win > 0 THEN tsf[r.n0] - r.win ELSE 0
      past  == {h \in (r.n0 - r.have)..r.n0 : tsf[h] < minTs}
  IN IF past = {} THEN r.n0 - r.have ELSE CHOOSE h \in past : \A g \in past : g <= h

Load(r) ==
  /\ conf' = [n |-> r.n, n0 |-> r.n0, win |-> r.win] /\ tgt' = r.n0 /\ ts' = TsOf(r) /\ txs' = TxsOf(r)
  /\ oldest' = StartOf(r) /\ last' = StartOf(r) /\ inflight' = FALSE /\ reqH' = StartOf(r) - 1
  /\ cdone' = FALSE /\ delivered' = <<>> /\ saved' = <<>> /\ sdone' = FALSE /\ faults' = 0 /\ streak' = 0

TraceInit ==
  /\ l = 2 /\ TLCSet(1, 1) /\ Trace[1].ev = "reset"
  /\ LET r == Trace[1] IN
     /\ conf = [n |-> r.n, n0 |-> r.n0, win |-> r.win] /\ tgt = r.n0 /\ ts = TsOf(r) /\ txs = TxsOf(r)
     /\ oldest = StartOf(r) /\ last = StartOf(r) /\ inflight = FALSE /\ reqH = StartOf(r) - 1
     /\ cdone = FALSE /\ delivered = <<>> /\ saved = <<>> /\ sdone = FALSE /\ faults = 0 /\ streak = 0

Ev(e)  == l <= NL /\ T.ev = e /\ l' = l + 1
TReset == Ev("reset") /\ Load(T)

(* a response: the real client sent the request, so it had passed its loop check then (updates that arrived while it
   waited are already in the log); once the spec's client has closed the channel further requests are judged at "end" *)
TResp ==
  /\ Ev("resp") /\ UNCHANGED txs
  /\ LET r == RespOf(T.blocks) IN
     /\ streak' = IF r = Honest(T.h) THEN streak + 1 ELSE 0     \* whatever was asked, the peer answered it honestly
     /\ IF cdone THEN UNCHANGED vars
        ELSE RoundBody(r) /\ UNCHANGED <<inflight, faults>>

(* the sampler had no peer to offer *)
TNoPeer == Ev("nopeer") /\ streak' = 0 /\ UNCHANGED <<vars, txs>>

TUpdate ==
  /\ Ev("update") /\ UNCHANGED <<txs, streak>>
  /\ T.h = tgt + 1 /\ Forward

TSave ==
  /\ Ev("save") /\ UNCHANGED <<txs, streak>>
  /\ Save
  /\ Blk(T) = saved'[Len(saved')]

Expected == UNION {txs[h] : h \in (oldest..tgt) \cup SavedHeights}
TEnd ==
  /\ Ev("end") /\ UNCHANGED <<vars, txs, streak>>
  /\ T.done => Required(oldest) \subseteq SavedHeights
  /\ ~T.done => (~NothingLeftToFetch /\ streak < Need)
  /\ SetOf(T.tracked) = SetOf(T.universe) \cap Expected

TraceNext == TReset \/ TResp \/ TNoPeer \/ TUpdate \/ TSave \/ TEnd
TraceSpec == TraceInit /\ [][TraceNext]_tvars

HWM      == TLCSet(1, IF TLCGet(1) > l - 1 THEN TLCGet(1) ELSE l - 1)
Accepted == PrintT(<<"TRACE_HWM", TLCGet(1)>>) /\ TLCGet(1) = NL
=============================================================================
