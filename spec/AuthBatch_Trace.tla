-------------------------- MODULE AuthBatch_Trace --------------------------
(* Trace validation of the real chain.Processor.Execute on blocks of really  *)
(* signed transactions (drivers/chain/verif_authbatch_test.go) against the    *)
(* verdict rule of AuthRules.tla - the rule AuthBatch_MC proves for the       *)
(* batching / worker design.  One "block" line per Execute call:              *)
(*   kinds[i], how[i]  auth type and how the signature was produced           *)
(*   intended[i]       the driver meant signature i to be valid               *)
(*   valid[i]          one-by-one reference: tx.Auth.Verify(unsigned bytes)   *)
(*   cfg               workers (0 = serial), batch engine on/off, decorated   *)
(*   out.err           "" or the error class Execute returned                 *)
(*   ran               (decorated runs) members of the verification tasks     *)
(*                     that were executed - evidence, see SigCheckedEvidence  *)
(* The action never blocks; broken clauses go to diag, DiagEmpty rejects.     *)
EXTENDS AuthRules, TLC, Json, IOUtils

VARIABLES l, diag, refVerdict
tvars == <<l, diag, refVerdict>>

Trace == ndJsonDeserialize(IOEnv.TRACE)
N     == Len(Trace)
T     == Trace[l]
Ev(e) == l <= N /\ Trace[l].ev = e /\ l' = l + 1

TraceInit == l = 2 /\ TLCSet(1, 1) /\ Trace[1].ev = "reset" /\ diag = {} /\ refVerdict = "none"
TReset    == Ev("reset") /\ diag' = {} /\ refVerdict' = "none"

Verdict(out) == IF out.err = "" THEN "ok" ELSE "fail"

BlockDiag(t) ==
  LET exp == ExpectedVerdict(t.valid)
      got == Verdict(t.out)
  IN (IF exp = "ok" /\ got = "fail" THEN {"valid-block-rejected"} ELSE {}) \cup
     (IF exp = "fail" /\ got = "ok" THEN {"invalid-signature-accepted"} ELSE {}) \cup
     \* one-by-one verification itself: a signature made over the unsigned bytes by the signer verifies, one made over
     \* another message / by another key / with a flipped bit does not
     (IF \E i \in DOMAIN t.valid : t.intended[i] /\ ~t.valid[i] THEN {"genuine-signature-does-not-verify"} ELSE {}) \cup
     (IF \E i \in DOMAIN t.valid : ~t.intended[i] /\ t.valid[i] THEN {"forged-signature-verifies"} ELSE {}) \cup
     \* batched / parallel execution agrees with the serial one-by-one execution of the same block (rep 0)
     (IF t.rep > 0 /\ refVerdict # "none" /\ got # refVerdict THEN {"differs-from-one-by-one-execution"} ELSE {})

TBlock ==
  /\ Ev("block")
  /\ diag' = BlockDiag(T)
  /\ refVerdict' = IF T.rep = 0 THEN Verdict(T.out) ELSE refVerdict

TraceNext == TReset \/ TBlock
TraceSpec == TraceInit /\ [][TraceNext]_tvars

DiagEmpty == diag = {}
HWM      == TLCSet(1, IF TLCGet(1) > l - 1 THEN TLCGet(1) ELSE l - 1)
Accepted == PrintT(<<"TRACE_HWM", TLCGet(1)>>) /\ TLCGet(1) = N
=============================================================================
