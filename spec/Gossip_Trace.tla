---------------------------- MODULE Gossip_Trace ----------------------------
(* Trace validation of the real internal/gossiper.Target (X03) against the   *)
(* property level of Gossip.tla.  Lines:                                     *)
(*   reset   {sizes, lifes, assign, strategy, maxsize, cachesize}            *)
(*   add     {t, pool}              Mempool.Add of transaction t             *)
(*   receive {txs, garbage, err, submitted, pool, sentmsgs} HandleAppGossip  *)
(*   force   {props, perr, err, visited, msgs, pool, badsends} Force with    *)
(*           the scripted proposer set (perr: the lookup fails); visited =   *)
(*           order in which the mempool handed transactions to the gossiper; *)
(*           msgs = what reached the network sender ({to, txs})              *)
(* pool = transactions the mempool holds after the call (ascending).         *)
(* The seen cache is stepped at the property level (a FIFO of cachesize ids  *)
(* over "received" and "picked for a batch"), Want / Messages / Stopper of   *)
(* Gossip.tla give the expected batch and messages; a failing clause is      *)
(* named in diag (INVARIANT DiagEmpty).  strategy / maxsize / cachesize are  *)
(* constants of a validation run (scenarios are grouped by configuration).   *)
EXTENDS Gossip, TLC, Json, IOUtils

VARIABLES l, diag
tvars == <<vars, l, diag>>

Trace == ndJsonDeserialize(IOEnv.TRACE)
N     == Len(Trace)
T     == Trace[l]
Ev(e) == l <= N /\ Trace[l].ev = e /\ l' = l + 1
Name(ok, n) == IF ok THEN {} ELSE {n}

TTxs       == 1..8
TPeers     == {"n1", "n2", "n3"}
TSizes     == 1..64
TMaxSize   == atoi(IOEnv.MAXSIZE)
TCacheSize == atoi(IOEnv.CACHESIZE)
TStrategy  == IOEnv.STRATEGY

RECURSIVE SortedSeq(_)
SortedSeq(S) == IF S = {} THEN <<>> ELSE LET x == CHOOSE y \in S : \A z \in S : y <= z IN <<x>> \o SortedSeq(S \ {x})
Obs == SeqSet(T.pool)

TraceInit ==
  /\ l = 1 /\ TLCSet(1, 0)
  /\ size = <<>> /\ life = <<>> /\ assign = <<>> /\ pool = <<>> /\ cache = <<>> /\ out = {} /\ visited = <<>>
  /\ res = "init" /\ ever = {} /\ got = {} /\ resent = FALSE /\ echoed = FALSE /\ diag = {}

TReset ==
  /\ Ev("reset")
  /\ size' = T.sizes /\ life' = T.lifes /\ assign' = T.assign
  /\ pool' = <<>> /\ cache' = <<>> /\ out' = {} /\ visited' = <<>> /\ res' = "init"
  /\ ever' = {} /\ got' = {} /\ resent' = FALSE /\ echoed' = FALSE
  /\ diag' = Name(T.strategy = Strategy /\ T.maxsize = MaxSize /\ T.cachesize = CacheSize, "harness-configuration-group")

TAdd ==
  /\ Ev("add")
  /\ pool' = SortedSeq(Obs) /\ res' = "added"
  /\ UNCHANGED <<size, life, assign, cache, out, visited, ever, got, resent, echoed>>
  /\ diag' = Name(Obs = SeqSet(pool) \cup {T.t}, "harness-mempool-add")

(* G5  HandleAppGossip never fails and never sends; a well-formed batch is handed to the submitter completely and in
       order and all of it counts as seen; an undecodable batch changes nothing *)
TReceive ==
  /\ Ev("receive")
  /\ pool' = SortedSeq(Obs) /\ res' = "received"
  /\ UNCHANGED <<size, life, assign, out, visited, ever, resent, echoed>>
  /\ IF T.garbage
     THEN /\ UNCHANGED <<cache, got>>
          /\ diag' = Name(~T.err, "handler-returned-an-error") \cup Name(T.submitted = <<>>, "garbage-submitted") \cup
                     Name(Obs = SeqSet(pool), "garbage-changed-mempool") \cup Name(T.sentmsgs = 0, "handler-sent")
     ELSE /\ cache' = PutAll(cache, T.txs) /\ got' = got \cup SeqSet(T.txs)
          /\ diag' = Name(~T.err, "handler-returned-an-error") \cup Name(T.submitted = T.txs, "not-submitted-as-received") \cup
                     Name(T.sentmsgs = 0, "handler-sent") \cup Name(Obs = SeqSet(pool) \cup SeqSet(T.txs), "harness-mempool-add")

MsgSet == {[to |-> SeqSet(T.msgs[i].to), txs |-> T.msgs[i].txs] : i \in DOMAIN T.msgs}

(* Known finding: the batch is put into the seen cache while it is being picked, before the strategy and the network
   are asked; when the proposer lookup fails / returns nobody, or the assigner has no peer for a transaction, nothing
   goes out but the transactions still count as seen and are never offered to a peer again.  (A transaction whose
   only recipient would be this node is not sent by design.)  The cache is stepped as the code does it; the
   predicate marks the lines where that happens. *)
KF_X03_unsent_batch_marked_seen(want, fails) ==
  \/ fails
  \/ Strategy = "assigner" /\ \E t \in SeqSet(want) : assign[t] = None

TForce ==
  /\ Ev("force")
  /\ LET props == SeqSet(T.props)
         want  == Want(T.visited, cache)
         fails == Strategy = "proposers" /\ want # <<>> /\ (props = {} \/ T.perr)
         exp   == IF fails THEN {} ELSE Messages(want, props)
         pairs == UNION {m.to \X SeqSet(m.txs) : m \in MsgSet}
     IN /\ visited' = T.visited /\ out' = MsgSet /\ res' = (IF T.err THEN "err" ELSE "ok")
        /\ pool' = SortedSeq(Obs)
        /\ cache' = PutAll(cache, want)
        /\ resent' = (resent \/ pairs \cap ever # {})
        /\ echoed' = (echoed \/ \E pr \in pairs : pr[2] \in got)
        /\ ever' = ever \cup pairs
        /\ UNCHANGED <<size, life, assign, got>>
        /\ (IF KF_X03_unsent_batch_marked_seen(want, fails) THEN PrintT(<<"KF_HIT", "unsent-batch-marked-seen", l>>) ELSE TRUE)
        /\ diag' = Name(T.err = fails, "error-result") \cup
                   Name(Len(T.msgs) = Cardinality(MsgSet), "duplicate-message") \cup
                   Name(MsgSet = exp, "wrong-batch-or-recipients") \cup
                   Name(\A m \in MsgSet : BytesOf(m.txs) <= MaxSize, "batch-over-size") \cup
                   Name(T.badsends = 0, "malformed-send") \cup
                   Name(SeqSet(T.visited) \subseteq SeqSet(pool) /\ Len(T.visited) = Cardinality(SeqSet(T.visited)), "visited-not-from-mempool") \cup
                   Name(SeqSet(T.visited) = SeqSet(pool) \/ Stopper(T.visited, cache), "stopped-before-the-batch-was-full") \cup
                   Name(Obs \subseteq SeqSet(pool) /\ \A t \in SeqSet(pool) \ Obs : life[t] = "expired", "live-transaction-left-the-mempool")

TraceNext == TReset \/ TAdd \/ TReceive \/ TForce
TraceSpec == TraceInit /\ [][TraceNext]_tvars

DiagEmpty == diag = {}
HWM      == TLCSet(1, IF TLCGet(1) > l - 1 THEN TLCGet(1) ELSE l - 1)
Accepted == PrintT(<<"TRACE_HWM", TLCGet(1)>>) /\ TLCGet(1) = N
=============================================================================
