SPECIFICATION Spec
CONSTANTS
  MaxN = 3
  MaxV = 3
  MaxL = 3
INVARIANT OriginalPostHolds
CHECK_DEADLOCK FALSE
