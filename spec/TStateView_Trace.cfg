SPECIFICATION TraceSpec
CONSTANTS
  Keys = {"k1", "k2", "k3", "k4"}
  Vals = {"v1", "v2", "v3"}
CONSTRAINT HWM
INVARIANT KVTypeOK
POSTCONDITION Accepted
CHECK_DEADLOCK FALSE
