--------------------------- MODULE EventTree_MC -----------------------------
(* Exhaustive check of EventTree over every tree of a bounded shape: leaves  *)
(* 1..NLeaf with every failure pattern, aggregates of 0..2 children, maps,   *)
(* nested Depth levels deep.                                                 *)
EXTENDS EventTree, TLC

CONSTANTS NLeaf, Depth, Events

LeafSet == {[kind |-> "leaf", id |-> i, nfail |-> nf, cfail |-> cf, closer |-> cl] :
              i \in 1..NLeaf, nf \in BOOLEAN, cf \in BOOLEAN, cl \in BOOLEAN} \ {l \in [kind : {"leaf"}, id : 1..NLeaf, nfail : BOOLEAN, cfail : {TRUE}, closer : {FALSE}] : TRUE}
Over(S) == S \cup {[kind |-> "agg", kids |-> <<>>]}
             \cup {[kind |-> "agg", kids |-> <<a>>] : a \in S}
             \cup {[kind |-> "agg", kids |-> <<a, b>>] : a \in S, b \in S}
             \cup {[kind |-> "map", add |-> k, kid |-> a] : k \in {1, 10}, a \in S}
RECURSIVE TreesOf(_)
TreesOf(d) == IF d = 0 THEN LeafSet ELSE Over(TreesOf(d - 1))

VARIABLES tree, ev, phase
Init == tree \in TreesOf(Depth) /\ ev \in Events /\ phase = 0
Next == phase = 0 /\ phase' = 1 /\ UNCHANGED <<tree, ev>>        \* the calls are evaluated in the successor state
Spec == Init /\ [][Next]_<<tree, ev, phase>>

NotifyConforms == phase = 1 => INotify(tree, ev) = NotifySpec(tree, ev)
CloseConforms  == phase = 1 => IClose(tree) = CloseSpec(tree)
=============================================================================
