SPECIFICATION Spec
CONSTANTS
  MaxN = 3
  MaxV = 2
  MaxL = 3
INVARIANT PostHolds
INVARIANT OriginalDelimited
CHECK_DEADLOCK FALSE
