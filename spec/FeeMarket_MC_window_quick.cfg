SPECIFICATION WindowSpec
CONSTANTS
  MAXU = 7
  W = 3
  Denoms = {1}
  Sinces = {0, 1, 2, 3, 4, 7}
INVARIANTS WindowInWord WindowShift TotalIsCappedSum TotalMonotone
CHECK_DEADLOCK FALSE
