---------------------------- MODULE PubSubServer ----------------------------
(* pubsub/server.go, connection.go, connections.go (extra module X06): the   *)
(* websocket fan-out layer above the per-connection message buffer (which is *)
(* MsgBuffer.tla, C32; here it is a bounded FIFO of capacity Cap).           *)
(*  reg      connections registered with the server (Server.conns)           *)
(*  live     client side still open;  reading: the client reads its socket   *)
(*  q[c]     messages accepted for c and not yet written to its socket       *)
(*  got[c]   what client c has received                                      *)
(* monitor:  exp[c] messages accepted for c (Send returned true), ret / sub  *)
(* the result and the argument of the last Publish, n messages published.    *)
EXTENDS Integers, Sequences, FiniteSets

CONSTANTS Conns, MaxMsg, Cap,
          Variant      \* "code" | "blocking" (Publish waits for room in a full queue) | "broadcast" (ignores the subscriber set)

VARIABLES reg, ever, live, reading, q, got, exp, ret, sub, n
vars == <<reg, ever, live, reading, q, got, exp, ret, sub, n>>

Init == /\ reg = {} /\ ever = {} /\ live = {} /\ reading = {} /\ n = 0 /\ ret = {} /\ sub = {}
        /\ q = [c \in Conns |-> <<>>] /\ got = [c \in Conns |-> <<>>] /\ exp = [c \in Conns |-> <<>>]

(* ServeHTTP + addConnection *)
Connect(c) == /\ c \notin ever /\ ever' = ever \cup {c} /\ reg' = reg \cup {c} /\ live' = live \cup {c}
              /\ reading' = reading \cup {c} /\ UNCHANGED <<q, got, exp, ret, sub, n>>

(* Server.Publish(msg, conns): registered members get the message if their buffer takes it; the others are returned *)
Targets(S) == IF Variant = "broadcast" THEN reg ELSE S \cap reg
CanPublish(S) == Variant = "blocking" => \A c \in Targets(S) : Len(q[c]) < Cap
Publish(S) ==
  /\ n < MaxMsg /\ CanPublish(S)
  /\ n' = n + 1 /\ sub' = S /\ ret' = S \ reg
  /\ q'   = [c \in Conns |-> IF c \in Targets(S) /\ Len(q[c]) < Cap THEN Append(q[c], n + 1) ELSE q[c]]
  /\ exp' = [c \in Conns |-> IF c \in Targets(S) /\ Len(q[c]) < Cap THEN Append(exp[c], n + 1) ELSE exp[c]]
  /\ UNCHANGED <<reg, ever, live, reading, got>>

(* writePump: one message reaches a client that reads *)
Pump(c) == /\ c \in reg /\ c \in live /\ c \in reading /\ q[c] # <<>>
           /\ got' = [got EXCEPT ![c] = Append(@, Head(q[c]))] /\ q' = [q EXCEPT ![c] = Tail(@)]
           /\ UNCHANGED <<reg, ever, live, reading, exp, ret, sub, n>>
Stall(c)  == c \in reading /\ reading' = reading \ {c} /\ UNCHANGED <<reg, ever, live, q, got, exp, ret, sub, n>>
Hangup(c) == c \in live /\ live' = live \ {c} /\ UNCHANGED <<reg, ever, reading, q, got, exp, ret, sub, n>>
(* readPump / writePump notice the dead or stuck peer (read error, write deadline): removeConnection + deactivate *)
Drop(c) == /\ c \in reg /\ (c \notin live \/ (c \notin reading /\ q[c] # <<>>))
           /\ reg' = reg \ {c} /\ q' = [q EXCEPT ![c] = <<>>]
           /\ UNCHANGED <<ever, live, reading, got, exp, ret, sub, n>>

Next == \/ \E c \in Conns : Connect(c) \/ Pump(c) \/ Stall(c) \/ Hangup(c) \/ Drop(c)
        \/ \E S \in SUBSET ever : Publish(S)
Spec == Init /\ [][Next]_vars

(* ---------------- properties ---------------- *)
IsPrefix(a, b) == Len(a) <= Len(b) /\ SubSeq(b, 1, Len(a)) = a

(* F1  fan-out: a client only ever receives messages that were published to a set containing it, once each, in
       publish order; a healthy client with nothing pending has received everything accepted for it *)
InOrderNoLoss == \A c \in Conns : IsPrefix(got[c], exp[c])
Complete      == \A c \in reg \cap live \cap reading : q[c] = <<>> => got[c] = exp[c]
(* F2  Publish returns exactly the members of its argument that are not registered any more *)
ReportsInactive == [][\A S \in SUBSET Conns : Publish(S) => ret' = S \ reg]_vars
OnlySubscribers == [][\A S \in SUBSET Conns : Publish(S) => \A c \in Conns \ S : exp'[c] = exp[c]]_vars
(* F3  isolation: Publish is never held up by somebody's full or stuck connection *)
NeverBlocks == \A S \in SUBSET ever : n < MaxMsg => ENABLED Publish(S)
=============================================================================
