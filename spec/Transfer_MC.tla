---------------------------- MODULE Transfer_MC ----------------------------
(* C06 design step.  A block of transfer transactions executed the way the  *)
(* code does it, one step per call of the transaction view:                 *)
(*   chain/processor.go     a fresh view per transaction scoped to its      *)
(*                          declared keys, PreExecute.CanDeduct, Commit     *)
(*   chain/transaction.go   Deduct the fee, OpIndex checkpoint, action      *)
(*                          fold, Rollback to the checkpoint on failure     *)
(*   morpheusvm/storage     SubBalance (get; Remove at zero, else Insert),  *)
(*                          AddBalance (get; overflow check; Insert)        *)
(*   morpheusvm/actions     Transfer.Execute (zero value, memo, sub, add)   *)
(* on top of the implementation-shaped view of TStateView.tla (pending map, *)
(* allocates/writes, undo log) which runs in lock step with the abstract KV *)
(* view.  Balances are stored as decimal strings (Vals); None = no record.  *)
(* The abstract ledger of Transfer.tla runs alongside: abal.                *)
(* Properties: the stored balances always denote the ledger (LedgerRefines),*)
(* every action succeeds/fails and outputs exactly as the ledger says       *)
(* (Agree), and the committed balances add up to the initial supply minus   *)
(* the fees burned (Conserved).                                             *)
EXTENDS TStateView, Transfer, TLC

CONSTANTS MAXU,      \* largest balance (2^64-1 in the code)
          MaxTxs, MaxActs,
          Fees       \* fees a transaction may be charged (positive: minimum unit prices are positive)

VARIABLES abal,      \* abstract ledger  [Keys -> 0..MAXU]
          acp,       \* ledger at the action checkpoint of the open transaction
          pc, sp, ac, tos, fee,      \* open transaction: sponsor, actor, declared recipients, fee
          who, amt, to, ret, nb,     \* registers of SubBalance / AddBalance in flight
          outS,                      \* sender balance returned by SubBalance
          expect,                    \* what the ledger says about the action in flight
          ntx, nact, paid, sum0, agree
mvars == <<abal, acp, pc, sp, ac, tos, fee, who, amt, to, ret, nb, outS, expect, ntx, nact, paid, sum0, agree>>
allvars == <<vars, mvars>>

NumOf  == [v \in Vals |-> CHOOSE n \in 0..MAXU : ToString(n) = v]
Num(v) == IF v = None THEN 0 ELSE NumOf[v]
Str(n) == ToString(n)

(* Transaction.StateKeys: sponsor read+write (BalanceHandler.SponsorStateKeys), actor read+write and every recipient
   read+allocate+write (Transfer.StateKeys), unioned *)
Sc(s, a, T) == [k \in Keys |-> (IF k = s \/ k = a THEN {"r", "w"} ELSE {}) \cup (IF k \in T THEN {"r", "a", "w"} ELSE {})]

NoExpect == [ok |-> FALSE, bal |-> abal, out |-> NoOut]

MInit ==
  /\ \E b \in [Keys -> Vals \cup {None}] : KVInitWith(b, [k \in Keys |-> Unset], [k \in Keys |-> {}])
  /\ pend = [k \in Keys |-> Unset] /\ allocs = {} /\ writes = {} /\ ops = <<>> /\ icps = <<>>
  /\ ires = "init" /\ last = "init"
  /\ abal = [k \in Keys |-> Num(base[k])] /\ acp = abal
  /\ pc = "idle" /\ sp = "" /\ ac = "" /\ tos = {} /\ fee = 0
  /\ who = "" /\ amt = 0 /\ to = "" /\ ret = "" /\ nb = 0 /\ outS = 0
  /\ expect = [ok |-> FALSE, bal |-> abal, out |-> NoOut]
  /\ ntx = 0 /\ nact = 0 /\ paid = 0 /\ sum0 = SumBal(abal) /\ agree = TRUE

ViewIdle == UNCHANGED <<kvvars, ivars>>

(* processor.go: new view for the next transaction *)
BeginTx(s, a, T, f) ==
  /\ pc = "idle" /\ ntx < MaxTxs
  /\ KVDiscard(Sc(s, a, T)) /\ IFresh /\ last' = "discard"
  /\ sp' = s /\ ac' = a /\ tos' = T /\ fee' = f /\ ntx' = ntx + 1 /\ nact' = 0 /\ pc' = "fee-check"
  /\ UNCHANGED <<abal, acp, who, amt, to, ret, nb, outS, expect, paid, sum0, agree>>

(* PreExecute: BalanceHandler.CanDeduct *)
FeeCheck ==
  /\ pc = "fee-check"
  /\ KVGet(sp) /\ IGet(sp) /\ last' = "get"
  /\ LET can == Num(ires') >= fee IN
     /\ agree' = (agree /\ (can = (abal[sp] >= fee)))
     /\ pc' = IF can THEN "sub-get" ELSE "invalid"
  /\ who' = sp /\ amt' = fee /\ ret' = "fee"
  /\ UNCHANGED <<abal, acp, sp, ac, tos, fee, to, nb, outS, expect, ntx, nact, paid, sum0>>

(* an action error ends the action fold; an error while deducting the fee fails the block *)
FailPc == IF ret = "fee" THEN "broken" ELSE "rollback"

(* storage.SubBalance, first half: read *)
SubGet ==
  /\ pc = "sub-get"
  /\ KVGet(who) /\ IGet(who) /\ last' = "get"
  /\ IF ires' = None \/ Num(ires') < amt
       THEN pc' = FailPc /\ nb' = nb /\ agree' = (agree /\ (ret = "act" => ~expect.ok))
       ELSE pc' = "sub-put" /\ nb' = Num(ires') - amt /\ agree' = agree
  /\ UNCHANGED <<abal, acp, sp, ac, tos, fee, who, amt, to, ret, outS, expect, ntx, nact, paid, sum0>>

(* storage.SubBalance, second half: delete the record at zero, else store the new balance *)
SubPut(removeOp(_), insertOp(_, _)) ==
  /\ pc = "sub-put"
  /\ IF nb = 0 THEN KVRemove(who) /\ removeOp(who) /\ last' = "remove"
               ELSE KVInsert(who, Str(nb)) /\ insertOp(who, Str(nb)) /\ last' = "insert"
  /\ IF ires' = Denied
       THEN pc' = FailPc /\ agree' = (agree /\ (ret = "act" => ~expect.ok)) /\ UNCHANGED <<abal, paid, outS>>
       ELSE IF ret = "fee"
         THEN pc' = "checkpoint" /\ abal' = [abal EXCEPT ![sp] = @ - fee] /\ paid' = paid + fee
              /\ UNCHANGED <<outS, agree>>
         ELSE pc' = "add-get" /\ outS' = nb /\ UNCHANGED <<abal, paid, agree>>
  /\ UNCHANGED <<acp, sp, ac, tos, fee, who, amt, to, ret, nb, expect, ntx, nact, sum0>>

(* transaction.go: actionStart = ts.OpIndex() *)
Checkpoint ==
  /\ pc = "checkpoint"
  /\ KVCheckpoint /\ ICheckpoint /\ last' = "checkpoint"
  /\ acp' = abal /\ pc' = "choose"
  /\ UNCHANGED <<abal, sp, ac, tos, fee, who, amt, to, ret, nb, outS, expect, ntx, nact, paid, sum0, agree>>

(* Transfer.Execute, entry: the next action of the transaction (any declared recipient, any value, long memo) *)
StartAction(t, v, m) ==
  /\ pc = "choose" /\ nact < MaxActs
  /\ ViewIdle
  /\ LET e == TransferA(abal, ac, [to |-> t, value |-> v, memo |-> m], MAXU) IN
     /\ expect' = e
     /\ IF v = 0 \/ m > MaxMemo
          THEN pc' = "rollback" /\ agree' = (agree /\ ~e.ok)
          ELSE pc' = "sub-get" /\ agree' = agree
  /\ who' = ac /\ amt' = v /\ to' = t /\ ret' = "act" /\ nact' = nact + 1
  /\ UNCHANGED <<abal, acp, sp, ac, tos, fee, nb, outS, ntx, paid, sum0>>

(* storage.AddBalance, first half: read and overflow check *)
AddGet ==
  /\ pc = "add-get"
  /\ KVGet(to) /\ IGet(to) /\ last' = "get"
  /\ IF Num(ires') + amt > MAXU
       THEN pc' = "rollback" /\ nb' = nb /\ agree' = (agree /\ ~expect.ok)
       ELSE pc' = "add-put" /\ nb' = Num(ires') + amt /\ agree' = agree
  /\ UNCHANGED <<abal, acp, sp, ac, tos, fee, who, amt, to, ret, outS, expect, ntx, nact, paid, sum0>>

(* storage.AddBalance, second half: store (creates the record when there is none); the action returns *)
AddPut(insertOp(_, _)) ==
  /\ pc = "add-put"
  /\ KVInsert(to, Str(nb)) /\ insertOp(to, Str(nb)) /\ last' = "insert"
  /\ IF ires' = Denied
       THEN pc' = "rollback" /\ agree' = (agree /\ ~expect.ok) /\ abal' = abal
       ELSE /\ pc' = "choose"
            /\ agree' = (agree /\ expect.ok /\ expect.out = [sender |-> outS, receiver |-> nb])
            /\ abal' = expect.bal
  /\ UNCHANGED <<acp, sp, ac, tos, fee, who, amt, to, ret, nb, outS, expect, ntx, nact, paid, sum0>>

(* transaction.go: ts.Rollback(ctx, actionStart); the ledger forgets the actions, not the fee *)
Rollback ==
  /\ pc = "rollback"
  /\ KVRollback(1) /\ IRollback(1) /\ last' = "rollback"
  /\ abal' = acp /\ pc' = "commit"
  /\ UNCHANGED <<acp, sp, ac, tos, fee, who, amt, to, ret, nb, outS, expect, ntx, nact, paid, sum0, agree>>

(* processor.go: tsv.Commit() after the transaction (successful or reverted) *)
Commit ==
  /\ \/ pc = "commit"
     \/ pc = "choose" /\ nact >= 1
  /\ KVCommit([k \in Keys |-> {}]) /\ IFresh /\ last' = "commit"
  /\ pc' = "idle"
  /\ UNCHANGED <<abal, acp, sp, ac, tos, fee, who, amt, to, ret, nb, outS, expect, ntx, nact, paid, sum0, agree>>

Steps(removeOp(_), insertOp(_, _)) ==
  \/ \E s \in Keys, a \in Keys, T \in (SUBSET Keys) \ {{}}, f \in Fees : BeginTx(s, a, T, f)
  \/ FeeCheck \/ SubGet \/ SubPut(removeOp, insertOp) \/ Checkpoint
  \/ \E t \in tos, v \in 0..MAXU : StartAction(t, v, 0)
  \/ \E t \in tos : StartAction(t, 1, MaxMemo + 1)
  \/ AddGet \/ AddPut(insertOp) \/ Rollback \/ Commit

(* sensitivity variant of TStateView.Insert: the no-op detection (isUnchanged) looks at the block-level value only when
   that value exists; after an earlier transaction of the block DELETED the key it compares with the parent value.
   A credit that restores exactly the pre-block balance of an account drained earlier in the block is then dropped. *)
IInsertIgnoringBlockDelete(k, v) ==
  LET under == IF blk[k] # Unset /\ blk[k] # None THEN blk[k] ELSE base[k]
      unch  == (under = v)
      past  == Vis(k)
  IN
  IF ~Has(k, NeedWrite) THEN ires' = Denied /\ UNCHANGED <<pend, allocs, writes, ops, icps>>
  ELSE IF past # None /\ past = v THEN ires' = "ok" /\ UNCHANGED <<pend, allocs, writes, ops, icps>>
  ELSE IF past = None /\ ~Has(k, NeedAlloc) THEN ires' = Denied /\ UNCHANGED <<pend, allocs, writes, ops, icps>>
  ELSE /\ ires' = "ok"
       /\ ops' = Append(ops, Op(IF past = None THEN "create" ELSE "insert", k))
       /\ IF unch THEN Forget(k)
          ELSE /\ pend' = [pend EXCEPT ![k] = v]
               /\ writes' = writes \cup {k}
               /\ allocs' = IF past = None THEN allocs \cup {k} ELSE allocs
       /\ UNCHANGED icps

MNext            == Steps(IRemove, IInsert)
MNextOriginal    == Steps(IRemoveAsOriginallyCoded, IInsert)   \* the Remove of the pinned commit, before fix 4ad459b
MNextBlockDelete == Steps(IRemove, IInsertIgnoringBlockDelete) \* needs two transactions: drain, then exact refill

MSpec         == MInit /\ [][MNext]_allvars
MSpecOriginal == MInit /\ [][MNextOriginal]_allvars
MSpecBlockDelete == MInit /\ [][MNextBlockDelete]_allvars

(* ------------------------------ properties ------------------------------ *)
Quiescent == pc \in {"idle", "checkpoint", "choose", "commit"}
(* the stored balances denote the ledger whenever no storage routine is half way *)
LedgerRefines == (Quiescent /\ pc # "commit") => \A k \in Keys : Num(Vis(k)) = abal[k]
(* CanDeduct, every action's success flag and its output are what the ledger says *)
Agree == agree
(* C06: committed balances (what the block publishes on top of the parent) = initial supply - fees burned *)
Conserved == pc = "idle" => SumBal([k \in Keys |-> Num(Under(k))]) = sum0 - paid
LedgerConserved == Quiescent => SumBal(abal) = sum0 - paid
(* the fee deduction never fails once CanDeduct said yes *)
NeverBroken == pc # "broken"
MTypeOK == TypeOK /\ abal \in [Keys -> 0..MAXU]

Sym == Permutations(Keys)     \* accounts are interchangeable (cfg: Keys are model values)
MView == <<base, blk, cur, cps, scope, pend, allocs, writes, ops, icps,
           abal, acp, pc, sp, ac, tos, fee, who, amt, to, ret, nb, outS, expect, ntx, nact, paid, sum0, agree>>
=============================================================================
