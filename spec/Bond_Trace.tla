---------------------------- MODULE Bond_Trace ----------------------------
(* Trace validation of executions recorded from the real Bonder            *)
(* (internal/chain/bond.go) driven through the real fdsmr.Node against the *)
(* abstract BondLedger (C38).  One ndjson line per public call:            *)
(*   reset   txs : {name -> {sp,size,exp}}, max : {sponsor -> n}            *)
(*   setmax  s, m                                                          *)
(*   build   txs (names, duplicates allowed), rate (-1 = overflowing rate),*)
(*           oks (the Bond return values, in order), err (none|inner|bond) *)
(*   accept  ts, incl (names of the txs in the executed block)             *)
(* every line carries pend : {sponsor -> pending balance read from the     *)
(* bonder's database after the call}.  The ledger says what it must be.    *)
EXTENDS BondLedger, TLC, Json, IOUtils, SequencesExt

VARIABLE l

Trace == ndJsonDeserialize(IOEnv.TRACE)
N     == Len(Trace)
tvars == <<lvars, l>>

Set(seq) == {seq[i] : i \in DOMAIN seq}
T        == Trace[l]
Ev(e)    == l <= N /\ Trace[l].ev = e /\ l' = l + 1

InfoOf(r) == [t \in Txs |-> [sp |-> r.txs[t].sp, size |-> r.txs[t].size, exp |-> r.txs[t].exp]]
MaxOf(r)  == [s \in Sponsors |-> r.max[s]]

(* the statement: the pending balance the real bonder shows is the sum of the open fees *)
PendOK == \A s \in Sponsors : T.pend[s] = DueOf(open', s)

TraceInit ==
  /\ l = 2 /\ TLCSet(1, 1)
  /\ Trace[1].ev = "reset"
  /\ LInit(InfoOf(Trace[1]), MaxOf(Trace[1]))

TReset  == Ev("reset") /\ info' = InfoOf(T) /\ max' = MaxOf(T)
           /\ open' = [t \in Txs |-> -1] /\ over' = FALSE
TSetMax == Ev("setmax") /\ LSetMax(T.s, T.m) /\ PendOK
(* err = "none": the build succeeded; "inner": the inner DSMR.BuildChunk failed; "bond": Bond returned an error  *)
(* for txs[Len(oks)+1] and the build stopped there.  Whatever Bond accepted stays bonded in all three cases.     *)
(* WithinMax is also demanded as a step condition so that the rejected line is the offending build.             *)
TBuild  == /\ Ev("build")
           /\ IF T.err = "bond" THEN Len(T.oks) < Len(T.txs) ELSE Len(T.oks) = Len(T.txs)
           /\ LBuild(SubSeq(T.txs, 1, Len(T.oks)), T.oks, T.rate)
           /\ ~over' /\ PendOK
TAccept == Ev("accept") /\ LAccept(T.ts, Set(T.incl)) /\ PendOK

TraceNext == TReset \/ TSetMax \/ TBuild \/ TAccept
TraceSpec == TraceInit /\ [][TraceNext]_tvars

HWM      == TLCSet(1, IF TLCGet(1) > l - 1 THEN TLCGet(1) ELSE l - 1)
Accepted == PrintT(<<"TRACE_HWM", TLCGet(1)>>) /\ TLCGet(1) = N
=============================================================================
