-------------------------- MODULE RulesPrefix_Trace --------------------------
(* Binding step (tv) for C39: one row per call of the real                 *)
(* metadata.HasConflictingPrefixes: p = the list (first three entries were *)
(* given to metadata.NewManager as height, fee, timestamp prefix, the rest *)
(* as vmPrefixes), res = 1 iff it reported a conflict.                     *)
EXTENDS RulesPrefix, TLC, Json, IOUtils

VARIABLE l
Trace == ndJsonDeserialize(IOEnv.TRACE)
T     == Trace[l]

Reason(t) == IF Conflict(t.p) /\ t.res = 0 THEN "conflict-not-reported"
             ELSE IF ~Conflict(t.p) /\ t.res = 1 THEN "conflict-reported-without-prefix-relation"
             ELSE "ok"

TraceInit == l = 2 /\ TLCSet(1, 1) /\ Trace[1].ev = "reset"
TRow == /\ l <= Len(Trace) /\ T.ev = "row" /\ l' = l + 1
        /\ LET c == Reason(T) IN IF c = "ok" THEN TRUE ELSE PrintT(<<"ROW_REJECTED", l, c>>)
TReset == l <= Len(Trace) /\ T.ev = "reset" /\ l' = l + 1
TraceSpec == TraceInit /\ [][TRow \/ TReset]_l

HWM      == TLCSet(1, IF TLCGet(1) > l - 1 THEN TLCGet(1) ELSE l - 1)
Accepted == PrintT(<<"TRACE_HWM", TLCGet(1)>>) /\ TLCGet(1) = Len(Trace)
=============================================================================
