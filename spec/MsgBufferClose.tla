--------------------------- MODULE MsgBufferClose ---------------------------
(* C32, "close at any point / timer flush at any point": the mutex protocol  *)
(* between MessageBuffer.Close and the flush timer's callback.               *)
(* timer.Timer.Stop() waits until the dispatch goroutine has left the        *)
(* callback; the callback takes the buffer mutex.  MsgBuffer.tla treats each *)
(* critical section as atomic; this module checks that the critical sections *)
(* can always be entered and left (Close returns, Queue gets closed).        *)
EXTENDS Naturals

CONSTANT StopHoldingLock   \* TRUE: as originally coded (Stop() called inside Close's critical section)

VARIABLES lock,      \* "free" | "close" | "timer" | "send"
          closePc,   \* "idle" | "locked" | "stopping" | "done"
          timerPc,   \* "idle" | "fired" (callback running, wants the mutex) | "locked" | "stopped"
          closed,    \* m.closed / Queue closed
          armed      \* the flush timer is scheduled (SetTimeoutIn by a Send that made pending non-empty)

vars == <<lock, closePc, timerPc, closed, armed>>

Init == lock = "free" /\ closePc = "idle" /\ timerPc = "idle" /\ closed = FALSE /\ armed \in BOOLEAN

TimerFire == timerPc = "idle" /\ armed /\ timerPc' = "fired" /\ armed' = FALSE /\ UNCHANGED <<lock, closePc, closed>>
TimerLock == timerPc = "fired" /\ lock = "free" /\ lock' = "timer" /\ timerPc' = "locked"
             /\ UNCHANGED <<closePc, closed, armed>>
(* the callback flushes, or returns early when the buffer is closed *)
TimerBody == timerPc = "locked" /\ lock' = "free" /\ timerPc' = "idle" /\ UNCHANGED <<closePc, closed, armed>>

(* a concurrent Send: takes and releases the mutex *)
SendLock   == lock = "free" /\ lock' = "send" /\ UNCHANGED <<closePc, timerPc, closed, armed>>
SendUnlock == lock = "send" /\ lock' = "free" /\ armed' \in (IF closed THEN {armed} ELSE {armed, TRUE})
              /\ UNCHANGED <<closePc, timerPc, closed>>

CloseLock == closePc = "idle" /\ lock = "free" /\ lock' = "close" /\ closePc' = "locked"
             /\ UNCHANGED <<timerPc, closed, armed>>
(* critical section of Close: flush, mark closed, close(Queue) *)
CloseBody ==
  /\ closePc = "locked" /\ closePc' = "stopping" /\ closed' = TRUE
  /\ lock' = IF StopHoldingLock THEN lock ELSE "free"
  /\ UNCHANGED <<timerPc, armed>>
(* pendingTimer.Stop(): returns once the dispatcher is outside the callback *)
CloseStop ==
  /\ closePc = "stopping" /\ timerPc = "idle"
  /\ timerPc' = "stopped" /\ closePc' = "done" /\ lock' = IF StopHoldingLock THEN "free" ELSE lock
  /\ UNCHANGED <<closed, armed>>

Done == closePc = "done" /\ UNCHANGED vars
Next == TimerFire \/ TimerLock \/ TimerBody \/ SendLock \/ SendUnlock \/ CloseLock \/ CloseBody \/ CloseStop \/ Done
Spec == Init /\ [][Next]_vars /\ SF_vars(TimerLock)   \* sync.Mutex hands over to a starving waiter
             /\ WF_vars(TimerBody) /\ WF_vars(SendUnlock)
             /\ WF_vars(CloseBody) /\ WF_vars(CloseStop)

(* Close is never stuck behind the callback it is waiting for *)
NoCloseTimerDeadlock == ~(closePc = "stopping" /\ lock = "close" /\ timerPc = "fired")
(* once Close holds the mutex it returns *)
CloseReturns == (closePc = "locked") ~> (closePc = "done")
=============================================================================
