SPECIFICATION MCSpec
CONSTANTS
  Chunks = {"k1", "k2"}
  Kinds = {"valid", "wrong", "error"}
  MaxCerts = 2
  MaxScript = 3
  MaxBlocks = 2
  Original = TRUE
INVARIANTS AcceptTypeOK ChunksExact PrefixExact NeverFails
PROPERTIES Served
CHECK_DEADLOCK FALSE
