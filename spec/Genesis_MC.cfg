SPECIFICATION Spec
CONSTANTS
  MAXU = 7
  MaxAllocs = 3
  NDims = 2
  MaxPrice = 2
  CheckSupply = TRUE
INVARIANTS PropertyHolds NothingBeforeCommit FoldAgrees
CHECK_DEADLOCK FALSE
