SPECIFICATION Spec
CONSTANTS
  Txs = {"t1", "t2"}
  W = 2
  MaxTs = 4
  MaxBlocks = 5
INVARIANT NoDoubleInclusion
CHECK_DEADLOCK FALSE
