SPECIFICATION MCSpec
CONSTANTS
  N = 5
  Mode = "coded"
  MaxCrashes = 3
CHECK_DEADLOCK FALSE
INVARIANTS
  TypeOK
  IndexAheadOfState
  RestartSucceedsOrKF
  RecoveredEqualsNoCrash
  AtLeastOnceInOrder
