---------------------------- MODULE SnowVM_Trace ----------------------------
(* Trace validation of runs recorded from the real snow.VM (drivers/snow/     *)
(* verif_snowvm_test.go) against SnowVM (C20, C21).  One ndjson line per      *)
(* engine call / async-accepter step: argument b, result res, the Chain       *)
(* callbacks (cc) and subscriber notifications (nn) it caused, and what the   *)
(* VM answers afterwards: LastAccepted (la), the blocks GetBlock finds        *)
(* (found), GetBlockIDAtHeight = GetBlockByHeight for every height (byh),     *)
(* HealthCheck (health), ConsensusIndex.GetLastAccepted with its chain state  *)
(* (lp, lps) and GetPreferredBlock (pref).                                    *)
(* Not bound (cache policy, may be refactored freely): whether a parse hit a  *)
(* cache (Chain.ParseBlock calls), wrapper flags of looked-up blocks.         *)
EXTENDS SnowVM, Json, IOUtils, SequencesExt

VARIABLE l

Trace == ndJsonDeserialize(IOEnv.TRACE)
N     == Len(Trace)
tvars == <<vars, l>>
T     == Trace[l]
Set(s) == {s[i] : i \in DOMAIN s}

TreeOf(rec) == [b \in DOMAIN rec |-> [p |-> rec[b].p, h |-> rec[b].h, inv |-> rec[b].inv]]

Ev(e) == l <= N /\ Trace[l].ev = e /\ l' = l + 1

(* what the VM shows after the step must be what the specification shows *)
Proj ==
  /\ T.la = lastAcc'
  /\ Set(T.found) = {b \in IDs : Found(b)'}
  /\ \A i \in DOMAIN T.byh : T.byh[i] = LookupH(i - 1)'
  /\ T.health = Health'
  /\ T.lp = lastProc'
  /\ (T.lp # None => T.lps = cstate'[T.lp])
  /\ T.pref \in {pref', "err"}
  /\ (pendRej' = {} /\ (pref' \in vblocks' \/ pref' = lastAcc') /\ pref' \in wv' /\ ready') => T.pref = pref'
Outs == T.res = res' /\ T.cc = cc' /\ T.nn = nn'

TraceInit ==
  /\ l = 2 /\ TLCSet(1, 1)
  /\ Trace[1].ev = "reset"
  /\ InitWith(TreeOf(Trace[1].tree), Trace[1].root, Trace[1].ready, Trace[1].pcap, Trace[1].acap)

TReset == /\ Ev("reset")
          /\ tree' = TreeOf(T.tree) /\ pcap' = T.pcap /\ acap' = T.acap
          /\ LET t == TreeOf(T.tree) root == T.root rdy == T.ready IN
             /\ est' = [b \in DOMAIN t |-> IF b = root THEN "acc" ELSE "new"]
             /\ eLast' = root /\ pendRej' = {} /\ eacc' = <<>> /\ epre' = <<>>
             /\ wv' = (IF rdy THEN {root} ELSE {}) /\ wa' = (IF rdy THEN {root} ELSE {})
             /\ lru' = <<>> /\ vblocks' = {} /\ fifo' = <<root>>
             /\ idx' = [h \in {t[b].h : b \in DOMAIN t} |-> IF h = t[root].h THEN root ELSE None]
             /\ lastAcc' = root /\ pref' = root /\ lastProc' = (IF rdy THEN root ELSE None)
             /\ queue' = <<>> /\ inflight' = <<>>
             /\ cver' = (IF rdy THEN {root} ELSE {})
             /\ cstate' = [b \in DOMAIN t |-> IF b = root /\ rdy THEN <<root>> ELSE <<>>]
             /\ cacc' = <<>> /\ bad' = {}
             /\ nver' = [b \in DOMAIN t |-> 0] /\ nacc' = <<>> /\ nrej' = [b \in DOMAIN t |-> 0]
             /\ nprerej' = [b \in DOMAIN t |-> 0] /\ npre' = <<>>
             /\ ready' = rdy /\ phase' = (IF rdy THEN "normal" ELSE "syncing")
             /\ unresolved' = {} /\ hcReg' = FALSE /\ procAtFinish' = {} /\ syncBase' = root /\ ftarget' = None
             /\ res' = "init" /\ cc' = <<>>
             /\ nn' = (IF rdy THEN <<Cb("naccepted", root, None)>> ELSE <<Cb("npreacc", root, None)>>)

(* VM.Initialize returned: startup notification of the last accepted block, then the first projection *)
TInit     == Ev("init") /\ UNCHANGED vars /\ T.res = "ok" /\ T.nn = nn /\ T.cc = cc /\ Proj
TParse    == Ev("parse")    /\ Parse(T.b)   /\ Outs /\ Proj
TBuild    == Ev("build")    /\ Build(T.b)   /\ T.p = pref /\ Outs /\ Proj
TVerify   == Ev("verify")   /\ Verify(T.b)  /\ Outs /\ Proj
(* Lookups made from a second goroutine while Accept is inside the chain index write must see the state before *)
(* or after the accept, never something else: a verified block stays retrievable at every instant until it is  *)
(* rejected, LastAccepted is the old or the new block.                                                         *)
FoundSet == {b \in IDs : Found(b)}
MidOK == /\ \A i \in DOMAIN T.midfound : Set(T.midfound[i]) \in {FoundSet, FoundSet'}
         /\ \A i \in DOMAIN T.midla : T.midla[i] \in {lastAcc, lastAcc'}
TAccept   == Ev("accept")   /\ Accept(T.b)  /\ Outs /\ Proj /\ MidOK
(* the chain index refused the write once: the accept failed and left no trace *)
TAcceptFail == Ev("acceptfail") /\ AcceptIndexFails(T.b) /\ Outs /\ Proj /\ MidOK
TReject   == Ev("reject")   /\ Reject(T.b)  /\ Outs /\ Proj
TSetPref  == Ev("setpref")  /\ SetPref(T.b) /\ Outs /\ Proj
TDequeue  == Ev("dequeue")  /\ Dequeue /\ inflight' = <<T.b>> /\ Outs /\ Proj
TProcess  == Ev("process")  /\ Process /\ inflight = <<T.b>> /\ Outs /\ Proj
TStart    == Ev("startsync") /\ StartSync(T.b) /\ Outs /\ Proj
(* the implementation may re-verify the processing blocks in any parent-before-child order: the     *)
(* callbacks are compared as sets plus the ordering constraints that matter                          *)
TopoOK(a) == /\ \A i, j \in DOMAIN a : (i < j /\ a[i].k = a[j].k /\ a[i].b # a[j].b) => ~Desc(a[j].b, a[i].b)
             /\ \A i, j \in DOMAIN a : (a[i].k = "cverify" /\ a[j].k = "caccept" /\ a[i].b = a[j].b) => i < j
SameUpToOrder(a, b) == Len(a) = Len(b) /\ Set(a) = Set(b) /\ TopoOK(a)
(* HealthCheck probed from a second goroutine at every Chain callback inside FinishStateSync: the hand-over takes   *)
(* effect at one instant of the call, a probe sees the health before it or after it (and never goes back).           *)
MidHealthOK == /\ \A i \in DOMAIN T.midh : T.midh[i] \in {Health, Health'}
               /\ \A i, j \in DOMAIN T.midh : (i < j /\ T.midh[i] # Health) => T.midh[j] = Health'
TFinish   == /\ Ev("finishsync") /\ FinishSyncWith(T.b, HeightOrder(vblocks), FixParentMissing) /\ MidHealthOK
             /\ T.res = res' /\ SameUpToOrder(T.cc, cc') /\ SameUpToOrder(T.nn, nn') /\ Proj

TraceNext == TReset \/ TInit \/ TParse \/ TBuild \/ TVerify \/ TAccept \/ TAcceptFail \/ TReject \/ TSetPref
             \/ TDequeue \/ TProcess \/ TStart \/ TFinish
TraceSpec == TraceInit /\ [][TraceNext]_tvars

HWM      == TLCSet(1, IF TLCGet(1) > l - 1 THEN TLCGet(1) ELSE l - 1)
Accepted == PrintT(<<"TRACE_HWM", TLCGet(1)>>) /\ TLCGet(1) = N
=============================================================================
