---------------------------- MODULE Genesis_MC ----------------------------
(* Design step of C27: NewGenesisCommit as a step machine (one step per     *)
(* allocation / metadata write / commit) over every allocation list of at   *)
(* most MaxAllocs entries over two addresses with balances 0..MAXU and every *)
(* minimum price vector; invariant PropertyHolds = the statement of C27 at   *)
(* termination, FoldAgrees = the one-shot operator used by trace validation  *)
(* equals the step machine, NumAgrees = the integer-only form evaluated by   *)
(* Apalache on 64-bit rows accepts exactly what GenesisOK accepts.           *)
EXTENDS Genesis, TLC
CONSTANTS MAXU, MaxAllocs, NDims, MaxPrice, CheckSupply

N == INSTANCE GenesisNum

Addr      == {"a1", "a2"}
AllocSet  == [a : Addr, b : 0..MAXU]
AllocSeqs == UNION {[1..n -> AllocSet] : n \in 0..MaxAllocs}
PriceVecs == [1..NDims -> 0..MaxPrice]

VARIABLES allocs, minp, pc, i, supply, view, db, blkroot
vars == <<allocs, minp, pc, i, supply, view, db, blkroot>>

Init == /\ allocs \in AllocSeqs /\ minp \in PriceVecs
        /\ pc = "alloc" /\ i = 1 /\ supply = 0 /\ view = Empty /\ db = Empty /\ blkroot = Empty

Alloc ==
  /\ pc = "alloc" /\ i <= Len(allocs)
  /\ LET r == AllocStep(MAXU, CheckSupply, supply, view, allocs[i]) IN
       IF r.ok THEN i' = i + 1 /\ supply' = r.supply /\ view' = r.view /\ pc' = pc
       ELSE pc' = "failed" /\ UNCHANGED <<i, supply, view>>
  /\ UNCHANGED <<allocs, minp, db, blkroot>>
AllocDone == pc = "alloc" /\ i > Len(allocs) /\ pc' = "height" /\ UNCHANGED <<allocs, minp, i, supply, view, db, blkroot>>
Height    == pc = "height" /\ view' = WriteHeight(view) /\ pc' = "timestamp" /\ UNCHANGED <<allocs, minp, i, supply, db, blkroot>>
Timestamp == pc = "timestamp" /\ view' = WriteTimestamp(view) /\ pc' = "fee" /\ UNCHANGED <<allocs, minp, i, supply, db, blkroot>>
Fee       == pc = "fee" /\ view' = WriteFee(view, minp) /\ pc' = "commit" /\ UNCHANGED <<allocs, minp, i, supply, db, blkroot>>
Commit    == pc = "commit" /\ db' = view /\ blkroot' = view /\ pc' = "done" /\ UNCHANGED <<allocs, minp, i, supply, view>>

Next == Alloc \/ AllocDone \/ Height \/ Timestamp \/ Fee \/ Commit
Spec == Init /\ [][Next]_vars

Terminal == pc \in {"done", "failed"}
Out      == [err |-> pc = "failed", st |-> db, root |-> blkroot]

(* C27 *)
PropertyHolds == Terminal => GenesisOK(MAXU, allocs, minp, Out)
(* nothing is visible before the commit *)
NothingBeforeCommit == pc # "done" => db = Empty
FoldAgrees ==
  Terminal => LET g == GenesisCommit(MAXU, CheckSupply, allocs, minp) IN
              g.err = Out.err /\ (~g.err => g.st = db /\ g.root = blkroot)

(* lemma binding GenesisNum (Apalache rows) to GenesisOK: evaluated once per allocation list, over every
   candidate outcome (error flag, stored balance or absent key per address) *)
Idx(a)  == IF a = "a1" THEN 1 ELSE 2
SA(j)   == IF j <= Len(allocs) THEN Idx(allocs[j].a) ELSE 0
SB(j)   == IF j <= Len(allocs) THEN allocs[j].b ELSE 0
CandSt(s1, s2) ==
  LET base == WriteFee(WriteTimestamp(WriteHeight(Empty)), minp)
      w1   == IF s1 = -1 THEN base ELSE Upd(base, BalKey("a1"), s1)
  IN IF s2 = -1 THEN w1 ELSE Upd(w1, BalKey("a2"), s2)
NumAgrees ==
  (pc = "alloc" /\ i = 1 /\ Len(allocs) <= 4 /\ \A d \in 1..NDims : minp[d] = 0) =>
    \A e \in {0, 1}, s1 \in -1..MAXU, s2 \in -1..MAXU :
      LET st == CandSt(s1, s2) IN
      N!RowOK(Len(allocs), SA(1), SB(1), SA(2), SB(2), SA(3), SB(3), SA(4), SB(4), e, s1, s2, -1, 0, 3, 0, 0,
              0, 0, 0, 0, 0, 0, 0, 0, 0, 0, 1)
        = GenesisOK(MAXU, allocs, minp, [err |-> e = 1, st |-> st, root |-> st])
=============================================================================
