--------------------------- MODULE TStateView_MC ---------------------------
EXTENDS TStateView
CONSTANTS MaxOps, MaxCps
(* bounded configs for the design step *)
FullScope   == [k \in Keys |-> Perms]
MCFull      == {FullScope}
(* C05: every permission mask on k1, full access on the other keys *)
MCMasks     == {[k \in Keys |-> IF k = "k1" THEN m ELSE Perms] : m \in SUBSET Perms}
Bound       == Len(ops) <= MaxOps /\ Len(cps) <= MaxCps
View        == <<base, blk, cur, cps, scope, res, pend, allocs, writes, ops, icps, ires>>
=============================================================================
