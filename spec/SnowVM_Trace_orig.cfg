SPECIFICATION TraceSpec
CONSTANTS
  FixParentMissing = FALSE
CONSTRAINT HWM
POSTCONDITION Accepted
CHECK_DEADLOCK FALSE
INVARIANTS
  TypeOK
  VerifyOnlyOnVerifiedOrAcceptedParent
  AcceptInHeightOrderAtMostOnce
  NeverAcceptRejected
  AcceptedNotificationsMatch
  RejectedNotificationsMatch
  VerifiedNotificationsMatch
  LookupReturnsAcceptedChain
  NoFatalAccept
  AcceptParentPopulated
  EndsAtExecutedState
  ReverifiesAllProcessing
  UnhealthyUntilInvalidRejected
