SPECIFICATION TraceSpec
CONSTANTS
  Ids = {"i0", "i1", "i2", "i3", "i4", "i5", "i6", "i7", "i8", "i9", "i10", "i11", "z0", "z1"}
  Exps = {0, 1, 2, 3, 4, 5, 6, 7, 8}
  TrackZeroSet = {TRUE, FALSE}
CONSTRAINT HWM
INVARIANT ESTypeOK
POSTCONDITION Accepted
CHECK_DEADLOCK FALSE
