---- MODULE Workers_MC_TTrace_1790028719 ----
EXTENDS Sequences, TLCExt, Toolbox, Workers_MC, Naturals, TLC

_expression ==
    LET Workers_MC_TEExpression == INSTANCE Workers_MC_TEExpression
    IN Workers_MC_TEExpression!expression
----

_trace ==
    LET Workers_MC_TETrace == INSTANCE Workers_MC_TETrace
    IN Workers_MC_TETrace!trace
----

_inv ==
    ~(
        TLCGet("level") = Len(_TETrace)
        /\
        waitres = (<<<<0, 0>>, <<0, 0>>>>)
        /\
        triggered = (FALSE)
        /\
        jobOrder = (<<>>)
        /\
        shouldShutdown = (TRUE)
        /\
        result = (<<<<>>, <<>>>>)
        /\
        sg = (0)
        /\
        jtasks = (<<<<>>, <<>>>>)
        /\
        cpc = (<<"panicked", "idle">>)
        /\
        qtask = (<<0, 0>>)
        /\
        qjob = (0)
        /\
        scount = (0)
        /\
        stopClosed = (FALSE)
        /\
        fails = ((<<1, 1>> :> FALSE @@ <<2, 1>> :> FALSE))
        /\
        ackClosed = (FALSE)
        /\
        err = (<<0, 0>>)
        /\
        qpc = ("recv")
        /\
        spc = ("ack")
        /\
        completed = (<<FALSE, FALSE>>)
        /\
        qclosed = (TRUE)
        /\
        wpc = (<<"sel">>)
        /\
        sent = (<<0, 0>>)
        /\
        ended = ({})
        /\
        jclosed = (<<FALSE, FALSE>>)
        /\
        runs = ((<<1, 1>> :> 0 @@ <<2, 1>> :> 0))
        /\
        queue = (<<>>)
        /\
        wtask = (<<<<0, 0>>>>)
    )
----

_init ==
    /\ completed = _TETrace[1].completed
    /\ stopClosed = _TETrace[1].stopClosed
    /\ runs = _TETrace[1].runs
    /\ ackClosed = _TETrace[1].ackClosed
    /\ shouldShutdown = _TETrace[1].shouldShutdown
    /\ fails = _TETrace[1].fails
    /\ jclosed = _TETrace[1].jclosed
    /\ jobOrder = _TETrace[1].jobOrder
    /\ triggered = _TETrace[1].triggered
    /\ wtask = _TETrace[1].wtask
    /\ qclosed = _TETrace[1].qclosed
    /\ sg = _TETrace[1].sg
    /\ queue = _TETrace[1].queue
    /\ waitres = _TETrace[1].waitres
    /\ qtask = _TETrace[1].qtask
    /\ sent = _TETrace[1].sent
    /\ qjob = _TETrace[1].qjob
    /\ cpc = _TETrace[1].cpc
    /\ result = _TETrace[1].result
    /\ qpc = _TETrace[1].qpc
    /\ spc = _TETrace[1].spc
    /\ jtasks = _TETrace[1].jtasks
    /\ wpc = _TETrace[1].wpc
    /\ err = _TETrace[1].err
    /\ ended = _TETrace[1].ended
    /\ scount = _TETrace[1].scount
----

_next ==
    /\ \E i,j \in DOMAIN _TETrace:
        /\ \/ /\ j = i + 1
              /\ i = TLCGet("level")
        /\ completed  = _TETrace[i].completed
        /\ completed' = _TETrace[j].completed
        /\ stopClosed  = _TETrace[i].stopClosed
        /\ stopClosed' = _TETrace[j].stopClosed
        /\ runs  = _TETrace[i].runs
        /\ runs' = _TETrace[j].runs
        /\ ackClosed  = _TETrace[i].ackClosed
        /\ ackClosed' = _TETrace[j].ackClosed
        /\ shouldShutdown  = _TETrace[i].shouldShutdown
        /\ shouldShutdown' = _TETrace[j].shouldShutdown
        /\ fails  = _TETrace[i].fails
        /\ fails' = _TETrace[j].fails
        /\ jclosed  = _TETrace[i].jclosed
        /\ jclosed' = _TETrace[j].jclosed
        /\ jobOrder  = _TETrace[i].jobOrder
        /\ jobOrder' = _TETrace[j].jobOrder
        /\ triggered  = _TETrace[i].triggered
        /\ triggered' = _TETrace[j].triggered
        /\ wtask  = _TETrace[i].wtask
        /\ wtask' = _TETrace[j].wtask
        /\ qclosed  = _TETrace[i].qclosed
        /\ qclosed' = _TETrace[j].qclosed
        /\ sg  = _TETrace[i].sg
        /\ sg' = _TETrace[j].sg
        /\ queue  = _TETrace[i].queue
        /\ queue' = _TETrace[j].queue
        /\ waitres  = _TETrace[i].waitres
        /\ waitres' = _TETrace[j].waitres
        /\ qtask  = _TETrace[i].qtask
        /\ qtask' = _TETrace[j].qtask
        /\ sent  = _TETrace[i].sent
        /\ sent' = _TETrace[j].sent
        /\ qjob  = _TETrace[i].qjob
        /\ qjob' = _TETrace[j].qjob
        /\ cpc  = _TETrace[i].cpc
        /\ cpc' = _TETrace[j].cpc
        /\ result  = _TETrace[i].result
        /\ result' = _TETrace[j].result
        /\ qpc  = _TETrace[i].qpc
        /\ qpc' = _TETrace[j].qpc
        /\ spc  = _TETrace[i].spc
        /\ spc' = _TETrace[j].spc
        /\ jtasks  = _TETrace[i].jtasks
        /\ jtasks' = _TETrace[j].jtasks
        /\ wpc  = _TETrace[i].wpc
        /\ wpc' = _TETrace[j].wpc
        /\ err  = _TETrace[i].err
        /\ err' = _TETrace[j].err
        /\ ended  = _TETrace[i].ended
        /\ ended' = _TETrace[j].ended
        /\ scount  = _TETrace[i].scount
        /\ scount' = _TETrace[j].scount

\* Uncomment the ASSUME below to write the states of the error trace
\* to the given file in Json format. Note that you can pass any tuple
\* to `JsonSerialize`. For example, a sub-sequence of _TETrace.
    \* ASSUME
    \*     LET J == INSTANCE Json
    \*         IN J!JsonSerialize("Workers_MC_TTrace_1790028719.json", _TETrace)

=============================================================================

 Note that you can extract this module `Workers_MC_TEExpression`
  to a dedicated file to reuse `expression` (the module in the 
  dedicated `Workers_MC_TEExpression.tla` file takes precedence 
  over the module `Workers_MC_TEExpression` below).

---- MODULE Workers_MC_TEExpression ----
EXTENDS Sequences, TLCExt, Toolbox, Workers_MC, Naturals, TLC

expression == 
    [
        \* To hide variables of the `Workers_MC` spec from the error trace,
        \* remove the variables below.  The trace will be written in the order
        \* of the fields of this record.
        completed |-> completed
        ,stopClosed |-> stopClosed
        ,runs |-> runs
        ,ackClosed |-> ackClosed
        ,shouldShutdown |-> shouldShutdown
        ,fails |-> fails
        ,jclosed |-> jclosed
        ,jobOrder |-> jobOrder
        ,triggered |-> triggered
        ,wtask |-> wtask
        ,qclosed |-> qclosed
        ,sg |-> sg
        ,queue |-> queue
        ,waitres |-> waitres
        ,qtask |-> qtask
        ,sent |-> sent
        ,qjob |-> qjob
        ,cpc |-> cpc
        ,result |-> result
        ,qpc |-> qpc
        ,spc |-> spc
        ,jtasks |-> jtasks
        ,wpc |-> wpc
        ,err |-> err
        ,ended |-> ended
        ,scount |-> scount
        
        \* Put additional constant-, state-, and action-level expressions here:
        \* ,_stateNumber |-> _TEPosition
        \* ,_completedUnchanged |-> completed = completed'
        
        \* Format the `completed` variable as Json value.
        \* ,_completedJson |->
        \*     LET J == INSTANCE Json
        \*     IN J!ToJson(completed)
        
        \* Lastly, you may build expressions over arbitrary sets of states by
        \* leveraging the _TETrace operator.  For example, this is how to
        \* count the number of times a spec variable changed up to the current
        \* state in the trace.
        \* ,_completedModCount |->
        \*     LET F[s \in DOMAIN _TETrace] ==
        \*         IF s = 1 THEN 0
        \*         ELSE IF _TETrace[s].completed # _TETrace[s-1].completed
        \*             THEN 1 + F[s-1] ELSE F[s-1]
        \*     IN F[_TEPosition - 1]
    ]

=============================================================================



Parsing and semantic processing can take forever if the trace below is long.
 In this case, it is advised to uncomment the module below to deserialize the
 trace from a generated binary file.

\*
\*---- MODULE Workers_MC_TETrace ----
\*EXTENDS IOUtils, Workers_MC, TLC
\*
\*trace == IODeserialize("Workers_MC_TTrace_1790028719.bin", TRUE)
\*
\*=============================================================================
\*

---- MODULE Workers_MC_TETrace ----
EXTENDS Workers_MC, TLC

trace == 
    <<
    ([waitres |-> <<<<0, 0>>, <<0, 0>>>>,triggered |-> FALSE,jobOrder |-> <<>>,shouldShutdown |-> FALSE,result |-> <<<<>>, <<>>>>,sg |-> 0,jtasks |-> <<<<>>, <<>>>>,cpc |-> <<"idle", "idle">>,qtask |-> <<0, 0>>,qjob |-> 0,scount |-> 0,stopClosed |-> FALSE,fails |-> (<<1, 1>> :> FALSE @@ <<2, 1>> :> FALSE),ackClosed |-> FALSE,err |-> <<0, 0>>,qpc |-> "recv",spc |-> "idle",completed |-> <<FALSE, FALSE>>,qclosed |-> FALSE,wpc |-> <<"sel">>,sent |-> <<0, 0>>,ended |-> {},jclosed |-> <<FALSE, FALSE>>,runs |-> (<<1, 1>> :> 0 @@ <<2, 1>> :> 0),queue |-> <<>>,wtask |-> <<<<0, 0>>>>]),
    ([waitres |-> <<<<0, 0>>, <<0, 0>>>>,triggered |-> FALSE,jobOrder |-> <<>>,shouldShutdown |-> FALSE,result |-> <<<<>>, <<>>>>,sg |-> 0,jtasks |-> <<<<>>, <<>>>>,cpc |-> <<"chk", "idle">>,qtask |-> <<0, 0>>,qjob |-> 0,scount |-> 0,stopClosed |-> FALSE,fails |-> (<<1, 1>> :> FALSE @@ <<2, 1>> :> FALSE),ackClosed |-> FALSE,err |-> <<0, 0>>,qpc |-> "recv",spc |-> "idle",completed |-> <<FALSE, FALSE>>,qclosed |-> FALSE,wpc |-> <<"sel">>,sent |-> <<0, 0>>,ended |-> {},jclosed |-> <<FALSE, FALSE>>,runs |-> (<<1, 1>> :> 0 @@ <<2, 1>> :> 0),queue |-> <<>>,wtask |-> <<<<0, 0>>>>]),
    ([waitres |-> <<<<0, 0>>, <<0, 0>>>>,triggered |-> FALSE,jobOrder |-> <<>>,shouldShutdown |-> TRUE,result |-> <<<<>>, <<>>>>,sg |-> 0,jtasks |-> <<<<>>, <<>>>>,cpc |-> <<"chk", "idle">>,qtask |-> <<0, 0>>,qjob |-> 0,scount |-> 0,stopClosed |-> FALSE,fails |-> (<<1, 1>> :> FALSE @@ <<2, 1>> :> FALSE),ackClosed |-> FALSE,err |-> <<0, 0>>,qpc |-> "recv",spc |-> "close",completed |-> <<FALSE, FALSE>>,qclosed |-> FALSE,wpc |-> <<"sel">>,sent |-> <<0, 0>>,ended |-> {},jclosed |-> <<FALSE, FALSE>>,runs |-> (<<1, 1>> :> 0 @@ <<2, 1>> :> 0),queue |-> <<>>,wtask |-> <<<<0, 0>>>>]),
    ([waitres |-> <<<<0, 0>>, <<0, 0>>>>,triggered |-> FALSE,jobOrder |-> <<>>,shouldShutdown |-> TRUE,result |-> <<<<>>, <<>>>>,sg |-> 0,jtasks |-> <<<<>>, <<>>>>,cpc |-> <<"chk", "idle">>,qtask |-> <<0, 0>>,qjob |-> 0,scount |-> 0,stopClosed |-> FALSE,fails |-> (<<1, 1>> :> FALSE @@ <<2, 1>> :> FALSE),ackClosed |-> FALSE,err |-> <<0, 0>>,qpc |-> "recv",spc |-> "ack",completed |-> <<FALSE, FALSE>>,qclosed |-> TRUE,wpc |-> <<"sel">>,sent |-> <<0, 0>>,ended |-> {},jclosed |-> <<FALSE, FALSE>>,runs |-> (<<1, 1>> :> 0 @@ <<2, 1>> :> 0),queue |-> <<>>,wtask |-> <<<<0, 0>>>>]),
    ([waitres |-> <<<<0, 0>>, <<0, 0>>>>,triggered |-> FALSE,jobOrder |-> <<>>,shouldShutdown |-> TRUE,result |-> <<<<>>, <<>>>>,sg |-> 0,jtasks |-> <<<<>>, <<>>>>,cpc |-> <<"panicked", "idle">>,qtask |-> <<0, 0>>,qjob |-> 0,scount |-> 0,stopClosed |-> FALSE,fails |-> (<<1, 1>> :> FALSE @@ <<2, 1>> :> FALSE),ackClosed |-> FALSE,err |-> <<0, 0>>,qpc |-> "recv",spc |-> "ack",completed |-> <<FALSE, FALSE>>,qclosed |-> TRUE,wpc |-> <<"sel">>,sent |-> <<0, 0>>,ended |-> {},jclosed |-> <<FALSE, FALSE>>,runs |-> (<<1, 1>> :> 0 @@ <<2, 1>> :> 0),queue |-> <<>>,wtask |-> <<<<0, 0>>>>])
    >>
----


=============================================================================

---- CONFIG Workers_MC_TTrace_1790028719 ----
CONSTANTS
    NW = 1
    NJ = 2
    NT = 1
    MaxJobs = 1
    Original = FALSE
    SubmitDuringStop = TRUE

INVARIANT
    _inv

CHECK_DEADLOCK
    \* CHECK_DEADLOCK off because of PROPERTY or INVARIANT above.
    FALSE

INIT
    _init

NEXT
    _next

CONSTANT
    _TETrace <- _trace

ALIAS
    _expression
=============================================================================
\* Generated on Mon Sep 21 22:12:00 UTC 2026