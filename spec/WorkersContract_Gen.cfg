SPECIFICATION GSpec
CONSTANTS
  J = {1, 2, 3}
  T = {1, 2, 3, 4}
  Depth = 22
INVARIANT Emit
CHECK_DEADLOCK FALSE
