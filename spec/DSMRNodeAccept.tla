--------------------------- MODULE DSMRNodeAccept ---------------------------
(* x/dsmr/node.go Node.Accept (C35): for every certificate of the block, in order, the chunk is taken     *)
(* from local storage or requested from a validator until a response passes; then the executed block is    *)
(* returned.  Peers are a response script indexed by request count (the code picks the peer at random,     *)
(* every peer answers from the same script); when the script is exhausted peers serve the valid chunk.     *)
(*                                                                                                         *)
(* Response kinds: "valid" = the referenced chunk; "wrong" = a different chunk that is valid on its own    *)
(* (validator-signed, in the validity window); every other kind is a failure the code must retry after     *)
(* (transport error, undecodable bytes, bad signature, producer not a validator, expiry out of window).    *)
(* Request models the repaired code (fixes/C35-*.patch); RequestAsOriginallyCoded what was coded before:   *)
(* a valid response was appended and then the empty local bytes were parsed (Accept failed), and a wrong   *)
(* chunk was taken for the referenced one.                                                                 *)
(*                                                                                                         *)
(* Producer rate limit: pend = chunks pending on the acceptor, PW(p) = how many of them producer p made    *)
(* (all chunks weigh one unit), limit is GetMaxAccumulatedProducerChunkWeight in units.  The limit is enforced where a       *)
(* producer asks for a signature (the caller of Store), NOT on the chunks Accept fetches: a referenced     *)
(* chunk must be taken even if it pushes its producer over the limit.  RequestRateLimited is the variant   *)
(* in which VerifyRemoteChunk itself enforces the limit: the valid response is refused for ever and        *)
(* Served fails (kept for the sensitivity run of the design step).                                         *)
(*                                                                                                         *)
(* Local fault: failput = k means that the k-th write of a fetched chunk's pending record during this      *)
(* Accept fails once (0 = never).  Every valid response leads to exactly one such write (all other kinds   *)
(* are rejected before the store).  A failed store is one more reason to retry: nothing is appended.       *)
(* RequestAppendBeforeStore is the variant that appends the response before storing it (the chunk then     *)
(* appears twice); kept for the sensitivity run.                                                           *)
EXTENDS Integers, Sequences, FiniteSets, TLC

CONSTANTS Chunks, Kinds, Producers

VARIABLES have,      \* chunks retrievable from the acceptor's storage
          status,    \* "idle" | "running" | "failed"
          certs,     \* certificates (chunk names) of the block being accepted
          idx, out,  \* next certificate to resolve, chunks collected so far
          script,    \* responses the peers will still give
          nreq,      \* requests sent during this Accept
          res,       \* result of the last finished Accept: "none" | "ok" | "err"
          prod,      \* producer of every chunk seen so far ("none" = not yet known)
          limit,     \* producer rate limit in chunks (configuration)
          pend,      \* chunks in the acceptor's pending map (subset of have; the others are accepted)
          failput,   \* which store of a fetched chunk fails during this Accept (0 = none)
          nput       \* stores of fetched chunks attempted during this Accept

avars == <<have, status, certs, idx, out, script, nreq, res, prod, limit, pend, failput, nput>>

PW(p) == Cardinality({c \in pend : prod[c] = p})

AcceptInit(lim) ==
  /\ have = {} /\ status = "idle" /\ certs = <<>> /\ idx = 1 /\ out = <<>> /\ script = <<>> /\ nreq = 0 /\ res = "none"
  /\ prod = [c \in Chunks |-> "none"] /\ limit = lim /\ pend = {} /\ failput = 0 /\ nput = 0

(* resolve certificates from local storage as far as possible *)
RECURSIVE Adv(_, _, _, _)
Adv(cs, i, o, h) == IF i <= Len(cs) /\ cs[i] \in h THEN Adv(cs, i + 1, Append(o, cs[i]), h) ELSE <<i, o>>

Store(c, p) ==     \* the chunk of producer p reaches local storage before the block (signed for its producer)
  /\ status = "idle" /\ have' = have \cup {c}
  /\ prod' = [prod EXCEPT ![c] = p]
  /\ pend' = pend \cup {c}
  /\ UNCHANGED <<status, certs, idx, out, script, nreq, res, limit, failput, nput>>

AcceptCall(cs, ps, sc, fp) ==      \* ps[i] = producer of cs[i]; fp = which store of a fetched chunk fails (0 = none)
  /\ status = "idle" /\ status' = "running"
  /\ certs' = cs /\ script' = sc /\ nreq' = 0 /\ failput' = fp /\ nput' = 0
  /\ prod' = [c \in Chunks |-> IF \E i \in DOMAIN cs : cs[i] = c THEN ps[CHOOSE i \in DOMAIN cs : cs[i] = c] ELSE prod[c]]
  /\ LET a == Adv(cs, 1, <<>>, have) IN idx' = a[1] /\ out' = a[2]
  /\ UNCHANGED <<have, res, limit, pend>>

(* the chunk Accept is waiting for would push its producer over the limit *)
OverLimit == status = "running" /\ idx <= Len(certs) /\ PW(prod[certs[idx]]) + 1 > limit

NextKind == IF script = <<>> THEN "valid" ELSE Head(script)
Pop      == IF script = <<>> THEN <<>> ELSE Tail(script)

(* one AppRequest for certs[idx] and its response *)
Request(want, kind) ==
  /\ status = "running" /\ idx <= Len(certs)
  /\ want = certs[idx] /\ kind = NextKind
  /\ script' = Pop /\ nreq' = nreq + 1
  /\ nput' = IF kind = "valid" THEN nput + 1 ELSE nput
  /\ IF kind = "valid" /\ nput + 1 # failput
       THEN /\ have' = have \cup {want}
            /\ pend' = pend \cup {want}                          \* stored as pending whatever the limit says
            /\ LET a == Adv(certs, idx + 1, Append(out, want), have') IN idx' = a[1] /\ out' = a[2]
       ELSE UNCHANGED <<have, idx, out, pend>>                 \* retry (bad response, or the local store failed)
  /\ UNCHANGED <<status, certs, res, prod, limit, failput>>

StoreFails == status = "running" /\ idx <= Len(certs) /\ NextKind = "valid" /\ nput + 1 = failput

(* variant: the response is appended before it is stored, so a failed store leaves it in the result *)
RequestAppendBeforeStore(want, kind) ==
  /\ status = "running" /\ idx <= Len(certs)
  /\ want = certs[idx] /\ kind = NextKind
  /\ script' = Pop /\ nreq' = nreq + 1
  /\ nput' = IF kind = "valid" THEN nput + 1 ELSE nput
  /\ IF kind = "valid" /\ nput + 1 # failput
       THEN /\ have' = have \cup {want}
            /\ pend' = pend \cup {want}
            /\ LET a == Adv(certs, idx + 1, Append(out, want), have') IN idx' = a[1] /\ out' = a[2]
       ELSE IF kind = "valid" THEN out' = Append(out, want) /\ UNCHANGED <<have, idx, pend>>
       ELSE UNCHANGED <<have, idx, out, pend>>
  /\ UNCHANGED <<status, certs, res, prod, limit, failput>>

(* variant: VerifyRemoteChunk enforces the producer limit on fetched chunks as well.  nreq stops counting  *)
(* once the script is exhausted so that the endless retry is a finite lasso for TLC.                       *)
RequestRateLimited(want, kind) ==
  /\ status = "running" /\ idx <= Len(certs)
  /\ want = certs[idx] /\ kind = NextKind
  /\ script' = Pop /\ nreq' = IF script = <<>> THEN nreq ELSE nreq + 1
  /\ IF kind = "valid" /\ ~OverLimit
       THEN /\ have' = have \cup {want}
            /\ pend' = pend \cup {want}
            /\ LET a == Adv(certs, idx + 1, Append(out, want), have') IN idx' = a[1] /\ out' = a[2]
       ELSE UNCHANGED <<have, idx, out, pend>>
  /\ UNCHANGED <<status, certs, res, prod, limit, failput, nput>>

RequestAsOriginallyCoded(want, kind) ==
  /\ status = "running" /\ idx <= Len(certs)
  /\ want = certs[idx] /\ kind = NextKind
  /\ script' = Pop /\ nreq' = nreq + 1
  /\ IF kind = "valid" THEN status' = "failed" /\ UNCHANGED <<have, idx, out>>    \* falls through to ParseChunk(nil)
     ELSE IF kind = "wrong" THEN status' = "failed" /\ UNCHANGED <<have, idx, out>>
     ELSE UNCHANGED <<status, have, idx, out>>
  /\ UNCHANGED <<certs, res, prod, limit, pend, failput, nput>>

AcceptReturn ==                    \* SetMin saves the block's chunks as accepted: they stop being pending
  /\ status = "running" /\ idx > Len(certs)
  /\ status' = "idle" /\ res' = "ok"
  /\ pend' = pend \ {certs[i] : i \in DOMAIN certs}
  /\ UNCHANGED <<have, certs, idx, out, script, nreq, prod, limit, failput, nput>>

AcceptFail ==
  /\ status = "failed" /\ status' = "idle" /\ res' = "err"
  /\ UNCHANGED <<have, certs, idx, out, script, nreq, prod, limit, pend, failput, nput>>

-----------------------------------------------------------------------------
(* C35 *)
ChunksExact  == (status = "running" /\ idx > Len(certs)) => out = certs      \* what AcceptReturn hands out
PrefixExact  == status = "running" => /\ idx - 1 = Len(out)
                                      /\ \A i \in 1..Len(out) : out[i] = certs[i]
NeverFails   == status # "failed" /\ res # "err"
Served       == status = "running" ~> status = "idle"                        \* succeeds once a peer serves a valid chunk
AcceptTypeOK == /\ have \subseteq Chunks /\ status \in {"idle", "running", "failed"} /\ idx \in 1..(Len(certs) + 1)
                /\ pend \subseteq have
=============================================================================
