---------------------------- MODULE DSMRStorage ----------------------------
(* x/dsmr/storage.go  ChunkStorage, shaped like the code (C36).             *)
(*                                                                         *)
(* memory : pendingChunkMap (pend, cert), chunkEMap (em), minimumExpiry    *)
(*          (min), pendingChunksSizes (w)                                  *)
(* disk   : pendingByte table (dPend), acceptedByte table (dAcc), min slot *)
(*          (dMin)                                                         *)
(* One action per public call: AddLocalChunkWithCert, VerifyRemoteChunk,   *)
(* SetChunkCert, SetMin, and NewChunkStorage on the same database (Reopen).*)
(* The property (ReopenInvisible / Durable) is stated separately from the  *)
(* actions.  SetMin models the repaired code (fixes/C36-*.patch);          *)
(* SetMinAsOriginallyCoded keeps what the code did before.                 *)
(* Crash points: every public call is ONE atomic durable step (a single Put *)
(* or a single batch).  CrashDuring(callImage) = the process dies somewhere *)
(* inside the call and the storage is opened again: what it loads is the    *)
(* disk image before the call or the image after the whole call, never a    *)
(* mix.  CrashDuringImages lets a sensitivity run offer intermediate images.*)
EXTENDS Integers, FiniteSets, TLC

CONSTANTS Chunks, Producers

VARIABLES
  attr,     \* [Chunks -> [p : Producers, e : Nat, sz : Nat]]  scenario configuration, never changes
  pend, cert, em, w, min,
  dPend, dAcc, dMin,
  res       \* tag of the last call: "init" "ok" "rejected" "err" "reopen" "crash"

svars == <<attr, pend, cert, em, w, min, dPend, dAcc, dMin, res>>

RECURSIVE SumSz(_, _)
SumSz(a, S) == IF S = {} THEN 0 ELSE LET c == CHOOSE x \in S : TRUE IN a[c].sz + SumSz(a, S \ {c})
WeightOf(a, S) == [p \in Producers |-> SumSz(a, {c \in S : a[c].p = p})]

StorageInit(a) ==
  /\ attr = a
  /\ pend = {} /\ cert = {} /\ em = {} /\ min = 0
  /\ w = [p \in Producers |-> 0]
  /\ dPend = {} /\ dAcc = {} /\ dMin = 0
  /\ res = "init"

(* putVerifiedChunk *)
Put(c, withCert) ==
  /\ dPend' = dPend \cup {c}
  /\ em' = IF attr[c].e = 0 THEN em ELSE em \cup {c}       \* emap ignores expiry 0 and ids it already holds
  /\ cert' = IF withCert THEN cert \cup {c} ELSE cert
  /\ IF c \in pend
       THEN UNCHANGED <<pend, w>>
       ELSE /\ pend' = pend \cup {c}
            /\ w' = [w EXCEPT ![attr[c].p] = @ + attr[c].sz]
  /\ UNCHANGED <<attr, min, dAcc, dMin>>

AddLocal(c) == Put(c, TRUE) /\ res' = "ok"

(* VerifyRemoteChunk: ok is the verifier's verdict.  A chunk that is already pending is answered from    *)
(* memory (the code dereferences its certificate, callers guarantee there is one).                        *)
VerifyRemote(c, ok) ==
  \/ /\ c \in cert /\ res' = "ok"
     /\ UNCHANGED <<attr, pend, cert, em, w, min, dPend, dAcc, dMin>>
  \/ /\ c \notin pend /\ ok /\ Put(c, FALSE) /\ res' = "ok"
  \/ /\ c \notin pend /\ ~ok /\ res' = "rejected"
     /\ UNCHANGED <<attr, pend, cert, em, w, min, dPend, dAcc, dMin>>

SetCert(c, valid) ==
  /\ IF c \in pend /\ valid THEN cert' = cert \cup {c} /\ res' = "ok"
                            ELSE cert' = cert /\ res' = "err"
  /\ UNCHANGED <<attr, pend, em, w, min, dPend, dAcc, dMin>>

(* disk images <<pending table, accepted table, min slot>> *)
Image       == <<dPend, dAcc, dMin>>
PutImage(c) == <<dPend \cup {c}, dAcc, dMin>>                      \* after putVerifiedChunk
SetMinImage(t, save, deletePendingRecordOfSaved) ==                \* after the SetMin batch
  LET dropped == {c \in em : attr[c].e < t} \cap (pend \ save)     \* only chunks still in the pending map are deleted from disk
  IN <<(IF deletePendingRecordOfSaved THEN dPend \ save ELSE dPend) \ dropped, dAcc \cup save, t>>

(* SetMin(updatedMin, saveChunks); callers pass ids of pending chunks and never move the minimum back *)
SetMinGeneric(t, save, deletePendingRecordOfSaved) ==
  /\ t >= min /\ save \subseteq pend
  /\ LET afterSave == pend \ save
         expired   == {c \in em : attr[c].e < t}
         img       == SetMinImage(t, save, deletePendingRecordOfSaved)
     IN /\ pend' = afterSave \ expired
        /\ em' = em \ expired
        /\ cert' = cert \cap pend'
        /\ w' = [p \in Producers |-> w[p] - SumSz(attr, {c \in pend \ pend' : attr[c].p = p})]
        /\ dPend' = img[1] /\ dAcc' = img[2] /\ dMin' = img[3]
  /\ min' = t
  /\ res' = "ok"
  /\ UNCHANGED attr

SetMin(t, save)                  == SetMinGeneric(t, save, TRUE)
SetMinAsOriginallyCoded(t, save) == SetMinGeneric(t, save, FALSE)

(* NewChunkStorage on the same database: memory := load(disk).  cs = certificates that survive; the code  *)
(* keeps none, the property does not care.                                                                *)
LoadFrom(img, cs) ==
  /\ dPend' = img[1] /\ dAcc' = img[2] /\ dMin' = img[3]
  /\ pend' = img[1] /\ cert' = cs \cap img[1]
  /\ em' = {c \in img[1] : attr[c].e # 0}
  /\ w' = WeightOf(attr, img[1])
  /\ min' = img[3]
  /\ UNCHANGED attr

Reopen(cs) == cs \subseteq dPend /\ LoadFrom(Image, cs) /\ res' = "reopen"

(* the process dies inside a public call whose complete durable effect is callImage, then the storage is  *)
(* opened again on what reached the disk                                                                  *)
CrashDuringImages(images, cs) == \E img \in images : LoadFrom(img, cs) /\ res' = "crash"
CrashDuring(callImage, cs)    == CrashDuringImages({Image, callImage}, cs)

-----------------------------------------------------------------------------
(* observable projection named by the statement *)
Retrievable == pend \cup dAcc                     \* GetChunkBytes succeeds
Proj        == <<pend, Retrievable, min, w>>

(* C36 *)
ReopenInvisible == [][res' = "reopen" => Proj' = Proj]_svars
(* state form of the same property: what a reopen would load is what memory holds now *)
Durable     == dPend = pend /\ dMin = min /\ w = WeightOf(attr, pend)

WeightExact == w = WeightOf(attr, pend)
CertsPending == cert \subseteq pend
(* every pending record on disk is still tracked for expiry, i.e. cannot leak forever *)
NoLeak      == \A c \in dPend : attr[c].e # 0 => c \in em
StorageTypeOK ==
  /\ pend \subseteq Chunks /\ cert \subseteq Chunks /\ em \subseteq Chunks
  /\ dPend \subseteq Chunks /\ dAcc \subseteq Chunks
  /\ min \in Nat /\ dMin \in Nat
  /\ \A p \in Producers : w[p] \in Nat
=============================================================================
