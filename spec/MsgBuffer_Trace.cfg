SPECIFICATION TraceSpec
CONSTANTS
  VB = 128
VIEW TraceView
CONSTRAINT HWM
INVARIANTS QueueBounded ClosedFlushed
POSTCONDITION Accepted
CHECK_DEADLOCK FALSE
