SPECIFICATION TraceSpec
CONSTANTS
  StopAtGenesis = TRUE
  CursorFromAccepted = TRUE
  StrictForward = TRUE
CONSTRAINT HWM
INVARIANT SavedAreTrueAncestorsContiguous
POSTCONDITION Accepted
CHECK_DEADLOCK FALSE
