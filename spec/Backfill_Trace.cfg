SPECIFICATION TraceSpec
CONSTANTS
  StopAtGenesis = TRUE
CONSTRAINT HWM
INVARIANT SavedAreTrueAncestorsContiguous
POSTCONDITION Accepted
CHECK_DEADLOCK FALSE
