SPECIFICATION MCSpec
CONSTANTS
  Chunks = {"k1", "k2", "k3"}
  Kinds = {"valid", "wrong", "error"}
  MaxCerts = 3
  MaxScript = 3
  MaxBlocks = 2
  Variant = "fixed"
  Limits = {1, 2, 100}
  MaxFail = 1
  Producers = {"v1", "v2"}
INVARIANTS AcceptTypeOK ChunksExact PrefixExact NeverFails
PROPERTIES Served
CHECK_DEADLOCK FALSE
