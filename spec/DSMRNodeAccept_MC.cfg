SPECIFICATION MCSpec
CONSTANTS
  Chunks = {"k1", "k2", "k3"}
  Kinds = {"valid", "wrong", "error"}
  MaxCerts = 3
  MaxScript = 3
  MaxBlocks = 2
  Original = FALSE
INVARIANTS AcceptTypeOK ChunksExact PrefixExact NeverFails
PROPERTIES Served
CHECK_DEADLOCK FALSE
