SPECIFICATION Spec
CONSTANTS
  Ids = {"a", "b", "c", "d"}
  Exps = {0, 1, 2, 3}
  TrackZeroSet = {FALSE}
INVARIANTS ESTypeOK Refines SameResult HeapShape
PROPERTIES AddIdempotent Shrinks
