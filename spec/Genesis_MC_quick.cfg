SPECIFICATION Spec
CONSTANTS
  MAXU = 7
  MaxAllocs = 3
  NDims = 1
  MaxPrice = 1
  CheckSupply = TRUE
INVARIANTS PropertyHolds NothingBeforeCommit FoldAgrees
CHECK_DEADLOCK FALSE
