------------------------------ MODULE LoadBurst ------------------------------
(* load/burst_orchestrator.go (extra module X13): every agent's issuer sends *)
(* TxsPerIssuer transactions, registers each with the agent's listener and   *)
(* tells it when issuing is over; Execute then waits for the listeners, at   *)
(* most Timeout.  One action per step of an issuer goroutine / listener /    *)
(* Execute.                                                                  *)
EXTENDS Integers, FiniteSets

CONSTANTS Agents, K,
          Variant        \* "code" | "nodefer" (IssuingDone skipped when the issuer fails)

VARIABLES failAt,        \* [Agents -> 0..K]: the call of the agent's issuer that fails (0 = none); chosen initially
          lkind,         \* [Agents -> {"normal", "err", "stuck"}]: listener returns nil once issuing is done / returns an
                         \* error once issuing is done / only returns (nil) when its context is cancelled
          calls, regs, idone, istate, lstate, phase, result, lctx
env  == <<failAt, lkind>>
vars == <<failAt, lkind, calls, regs, idone, istate, lstate, phase, result, lctx>>

Init == /\ failAt \in [Agents -> 0..K] /\ lkind \in [Agents -> {"normal", "err", "stuck"}]
        /\ calls = [a \in Agents |-> 0] /\ regs = [a \in Agents |-> 0] /\ idone = [a \in Agents |-> 0]
        /\ istate = [a \in Agents |-> "run"] /\ lstate = [a \in Agents |-> "run"]
        /\ phase = "issuing" /\ result = "" /\ lctx = "live"

Issue(a) ==
  /\ phase = "issuing" /\ istate[a] = "run" /\ calls[a] < K
  /\ calls' = [calls EXCEPT ![a] = @ + 1]
  /\ IF calls'[a] = failAt[a]
     THEN /\ istate' = [istate EXCEPT ![a] = "err"]
          /\ idone' = IF Variant = "nodefer" THEN idone ELSE [idone EXCEPT ![a] = @ + 1]     \* defer IssuingDone()
          /\ UNCHANGED regs
     ELSE /\ regs' = [regs EXCEPT ![a] = @ + 1] /\ UNCHANGED <<istate, idone>>
  /\ UNCHANGED <<lstate, phase, result, lctx, env>>

IssuerEnd(a) ==
  /\ phase = "issuing" /\ istate[a] = "run" /\ calls[a] = K
  /\ istate' = [istate EXCEPT ![a] = "ok"] /\ idone' = [idone EXCEPT ![a] = @ + 1]
  /\ UNCHANGED <<calls, regs, lstate, phase, result, lctx, env>>

ListenerReturns(a) ==
  /\ lstate[a] = "run"
  /\ \/ lctx = "cancelled" /\ lstate' = [lstate EXCEPT ![a] = "nil"]          \* Listen MUST return nil when cancelled
     \/ lctx = "live" /\ idone[a] >= 1 /\ lkind[a] = "normal" /\ lstate' = [lstate EXCEPT ![a] = "nil"]
     \/ lctx = "live" /\ idone[a] >= 1 /\ lkind[a] = "err" /\ lstate' = [lstate EXCEPT ![a] = "err"]
  /\ UNCHANGED <<calls, regs, idone, istate, phase, result, lctx, env>>

IssuersJoined ==
  /\ phase = "issuing" /\ \A a \in Agents : istate[a] # "run"
  /\ IF \E a \in Agents : istate[a] = "err"
     THEN phase' = "done" /\ result' = "ierr" /\ lctx' = "cancelled"        \* return err; deferred observerCancel
     ELSE phase' = "waiting" /\ UNCHANGED <<result, lctx>>
  /\ UNCHANGED <<calls, regs, idone, istate, lstate, env>>

Timeout == phase = "waiting" /\ lctx = "live" /\ lctx' = "cancelled"
           /\ UNCHANGED <<calls, regs, idone, istate, lstate, phase, result, env>>

Return ==
  /\ phase = "waiting" /\ \A a \in Agents : lstate[a] # "run"
  /\ phase' = "done" /\ lctx' = "cancelled"
  /\ result' = IF \E a \in Agents : lstate[a] = "err" THEN "lerr" ELSE "nil"
  /\ UNCHANGED <<calls, regs, idone, istate, lstate, env>>

Finished == phase = "done" /\ (\A a \in Agents : lstate[a] # "run") /\ UNCHANGED vars
Next == (\E a \in Agents : Issue(a) \/ IssuerEnd(a) \/ ListenerReturns(a)) \/ IssuersJoined \/ Timeout \/ Return \/ Finished
Spec == Init /\ [][Next]_vars

(* ---------------- properties ---------------- *)
Fails(a) == failAt[a] \in 1..K
(* B1  once issuing is over every issuer was asked for exactly TxsPerIssuer transactions - up to and including its
       first failure -, each issued one was registered, and IssuingDone was called exactly once per agent *)
ExactlyK == phase # "issuing" =>
              \A a \in Agents : /\ calls[a] = (IF Fails(a) THEN failAt[a] ELSE K)
                                /\ regs[a] = (IF Fails(a) THEN failAt[a] - 1 ELSE K)
                                /\ idone[a] = 1
(* B2  IssuingDone comes after the agent's last registration *)
DoneIsLast == \A a \in Agents : idone[a] <= 1 /\ (idone[a] = 1 => istate[a] # "run")
(* B3  the verdict: an issuer's error if any, else a listener's error if any, else nil - and without an issuer error
       Execute returns only after every listener returned *)
Verdict == phase = "done" =>
             /\ result = "ierr" <=> \E a \in Agents : Fails(a)
             /\ result # "ierr" => \A a \in Agents : lstate[a] # "run"
             /\ result = "lerr" => \E a \in Agents : lkind[a] = "err"
(* B4  Execute always returns (the Timeout bounds the wait for stuck listeners): the only deadlock-free end is done *)
Returns == <>(phase = "done")
FairSpec == Spec /\ WF_vars(Next)
=============================================================================
