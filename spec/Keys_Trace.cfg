SPECIFICATION TraceSpec
CONSTRAINT HWM
POSTCONDITION Accepted
CHECK_DEADLOCK FALSE
