SPECIFICATION Spec
CONSTANTS
  MaxT = 4
  Cap = 1
  Gaps = {0, 2}
  MinGap = 1
  Fine = FALSE
  Variant = "nogap"
INVARIANTS TypeOK NotEarly SingleFlight FlagBacked NoLostWakeup
PROPERTIES CoalescedIsNoOp ForceNotifies QuietAfterDone
CHECK_DEADLOCK FALSE
