------------------------------- MODULE Gossip -------------------------------
(* internal/gossiper/target.go + strategy.go (extra module X03): which       *)
(* transactions a node pushes to which peers.                                *)
(*  - implementation: Force as coded - the callback handed to Mempool.Top    *)
(*    folded over the mempool in its order (expired: dropped; about to       *)
(*    expire: kept, not sent; would overflow the batch: stop; already in the *)
(*    seen cache: kept, not sent; else put into the seen cache and batched), *)
(*    Mempool.Top giving the kept items back at the FRONT one by one (which  *)
(*    reverses them), the two target strategies, HandleAppGossip (mark seen, *)
(*    submit); the seen cache is the FIFO of FifoCache.tla (keys only).      *)
(*  - monitor: ever (pairs <<peer, tx>> ever sent), got (transactions        *)
(*    received from peers), and per Force the recorded visit order.          *)
(* Transaction attributes (size, life class at the time of the calls) are    *)
(* chosen arbitrarily in the initial state and never change.                 *)
EXTENDS Integers, Sequences, FiniteSets

CONSTANTS Txs, Peers, Self, MaxSize, CacheSize, Sizes,
          Strategy,       \* "proposers" | "assigner"
          Variant         \* "code" | "nocache" (Force does not consult the seen cache) | "dropsent" (sent items leave the mempool)

Nodes == Peers \cup {Self}
None  == "none"

VARIABLES size, life, assign,        \* attributes: size[t]; life[t] in {"expired","short","long"}; assign[t] in Nodes + None
          pool, cache,               \* mempool order; seen cache (oldest first)
          out, visited, res,         \* messages of the last Force, its visit order, result
          ever, got, resent, echoed  \* monitor

vars == <<size, life, assign, pool, cache, out, visited, res, ever, got, resent, echoed>>

SeqSet(s) == {s[i] : i \in DOMAIN s}
Rev(s)    == [i \in DOMAIN s |-> s[Len(s) + 1 - i]]
Filter(s, P(_)) == SelectSeq(s, P)
CachePut(c, t) == IF t \in SeqSet(c) THEN c
                  ELSE IF Len(c) = CacheSize THEN Append(Tail(c), t) ELSE Append(c, t)

Init ==
  /\ size \in [Txs -> Sizes] /\ life \in [Txs -> {"expired", "short", "long"}]
  /\ assign \in (IF Strategy = "assigner" THEN [Txs -> Nodes \cup {None}] ELSE [Txs -> {None}])
  /\ pool = <<>> /\ cache = <<>> /\ out = {} /\ visited = <<>> /\ res = "init"
  /\ ever = {} /\ got = {} /\ resent = FALSE /\ echoed = FALSE

(* ---------------- implementation ---------------- *)
(* the callback, folded: acc = [batch, bytes, cache, keep (restorable, visit order), seen (visited), stop] *)
RECURSIVE Fold(_, _)
Fold(acc, rest) ==
  IF rest = <<>> \/ acc.stop THEN [acc EXCEPT !.rest = rest]
  ELSE LET t == Head(rest)
           v == [acc EXCEPT !.seen = Append(@, t)]
       IN IF life[t] = "expired" THEN Fold(v, Tail(rest))
          ELSE IF life[t] = "short" THEN Fold([v EXCEPT !.keep = Append(@, t)], Tail(rest))
          ELSE IF size[t] + acc.bytes > MaxSize THEN Fold([v EXCEPT !.keep = Append(@, t), !.stop = TRUE], Tail(rest))
          ELSE IF Variant # "nocache" /\ t \in SeqSet(acc.cache) THEN Fold([v EXCEPT !.keep = Append(@, t)], Tail(rest))
          ELSE Fold([v EXCEPT !.batch = Append(@, t), !.bytes = @ + size[t], !.cache = CachePut(@, t),
                              !.keep = IF Variant = "dropsent" THEN @ ELSE Append(@, t)], Tail(rest))

(* TargetProposers: one message with the whole batch to the proposers without ourselves;
   TargetAssigner: one message per assigned peer *)
Messages(batch, props) ==
  IF batch = <<>> THEN {}
  ELSE IF Strategy = "proposers" THEN {[to |-> props \ {Self}, txs |-> batch]}
  ELSE {[to |-> {n}, txs |-> Filter(batch, LAMBDA t : assign[t] = n)] :
          n \in {assign[t] : t \in SeqSet(batch)} \ {Self, None}}

Force(props) ==
  LET r == Fold([batch |-> <<>>, bytes |-> 0, cache |-> cache, keep |-> <<>>, seen |-> <<>>, stop |-> FALSE, rest |-> <<>>], pool)
      fails == Strategy = "proposers" /\ r.batch # <<>> /\ props = {}       \* "no proposers to gossip to"
      msgs  == IF fails THEN {} ELSE Messages(r.batch, props)
      pairs == {<<n, t>> : n \in Nodes, t \in Txs} \cap UNION {m.to \X SeqSet(m.txs) : m \in msgs}
  IN /\ pool' = Rev(r.keep) \o r.rest                 \* Top gives the kept items back at the front, one by one
     /\ cache' = r.cache
     /\ visited' = r.seen
     /\ out' = msgs
     /\ res' = IF fails THEN "err" ELSE "ok"
     /\ resent' = (resent \/ pairs \cap ever # {})
     /\ echoed' = (echoed \/ \E pr \in pairs : pr[2] \in got)
     /\ ever' = ever \cup pairs
     /\ UNCHANGED <<size, life, assign, got>>

(* a transaction enters the local mempool (API submit) *)
Add(t) == /\ t \notin SeqSet(pool) /\ pool' = Append(pool, t) /\ res' = "added"
          /\ UNCHANGED <<size, life, assign, cache, out, visited, ever, got, resent, echoed>>

(* HandleAppGossip: everything is marked seen and handed to the submitter (which adds what it does not hold) *)
RECURSIVE PutAll(_, _)
PutAll(c, s) == IF s = <<>> THEN c ELSE PutAll(CachePut(c, Head(s)), Tail(s))
Receive(s) ==
  /\ cache' = PutAll(cache, s)
  /\ pool' = pool \o Filter(s, LAMBDA t : t \notin SeqSet(pool))
  /\ got' = got \cup SeqSet(s) /\ res' = "received"
  /\ UNCHANGED <<size, life, assign, out, visited, ever, resent, echoed>>

Next == \/ \E p \in SUBSET Nodes : Force(p)
        \/ \E t \in Txs : Add(t)
        \/ \E t \in Txs : Receive(<<t>>)
        \/ \E t, u \in Txs : t # u /\ Receive(<<t, u>>)
Spec == Init /\ [][Next]_vars

(* ---------------- properties ---------------- *)
Sent == UNION {SeqSet(m.txs) : m \in out}
RECURSIVE BytesOf(_)
BytesOf(q) == IF q = <<>> THEN 0 ELSE size[Head(q)] + BytesOf(Tail(q))

(* the batch a Force must pick, given the visit order v and the seen cache c before the call: the property-level
   reading - walk in order, skip dead / dying / seen, take what fits (it becomes seen at once, which with a small
   cache can push an older id out during the same walk), stop at the first live item that does not fit *)
RECURSIVE Pick(_, _, _, _)
Pick(v, c, bytes, acc) ==
  IF v = <<>> THEN acc
  ELSE LET t == Head(v) IN
       IF life[t] # "long" THEN Pick(Tail(v), c, bytes, acc)
       ELSE IF size[t] + bytes > MaxSize THEN acc
       ELSE IF t \in SeqSet(c) THEN Pick(Tail(v), c, bytes, acc)
       ELSE Pick(Tail(v), CachePut(c, t), bytes + size[t], Append(acc, t))

TypeOK == SeqSet(pool) \subseteq Txs /\ SeqSet(cache) \subseteq Txs /\ Len(cache) <= CacheSize

(* G1  selection: a Force sends exactly the live, long-lived, not yet seen transactions of the mempool, in mempool
       order, as long as they fit into one batch; it looks at the whole mempool unless a live transaction does not fit.
   G4  targeting: proposers - one message with the whole batch to the proposer set without ourselves (an error and
       nothing sent when there is no proposer); assigner - each transaction only to its assigned peer, never to us *)
Want(v, c)    == Pick(v, c, 0, <<>>)
Stopper(v, c) ==      \* the last visited transaction is live and did not fit after what was picked before it
  /\ v # <<>> /\ life[v[Len(v)]] = "long"
  /\ size[v[Len(v)]] + BytesOf(Pick(SubSeq(v, 1, Len(v) - 1), c, 0, <<>>)) > MaxSize
ForceOK(p, perr) ==
  LET want == Want(visited', cache) IN
  /\ BytesOf(want) <= MaxSize
  /\ IF Strategy = "proposers" /\ want # <<>> /\ (p = {} \/ perr) THEN res' = "err" /\ out' = {}
     ELSE res' = "ok" /\ out' = Messages(want, p)
  /\ SeqSet(visited') \subseteq SeqSet(pool)
  /\ SeqSet(visited') = SeqSet(pool) \/ Stopper(visited', cache)
Selection == [][\A p \in SUBSET Nodes : Force(p) => ForceOK(p, FALSE)]_vars

(* G2  no re-gossip: while the seen cache holds every transaction, no transaction is pushed twice to the same peer,
       and nothing that was received from a peer is pushed afterwards; nothing is ever pushed to ourselves *)
NoRegossip   == CacheSize >= Cardinality(Txs) => ~resent
NoEcho       == CacheSize >= Cardinality(Txs) => ~echoed
NeverToSelf  == \A pr \in ever : pr[1] # Self

(* G3  the mempool only loses expired transactions *)
KeepsLive ==
  [][\A p \in SUBSET Nodes : Force(p) =>
        /\ SeqSet(pool') \subseteq SeqSet(pool)
        /\ \A t \in SeqSet(pool) : t \notin SeqSet(pool') => life[t] = "expired"]_vars

Targeting == \A m \in out : m.txs # <<>> /\ Self \notin m.to
=============================================================================
