SPECIFICATION MCSpec
CONSTANTS
  Certs = {"x", "y", "z"}
  MaxBlocks = 4
  MaxTs = 6
  MaxE = 4
  Win = 2
  Fixed = TRUE
VIEW View
INVARIANTS ChainTypeOK NoChunkTwice NoExpiredRef BuilderClean DeliveredOnce
