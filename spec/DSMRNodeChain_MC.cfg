SPECIFICATION MCSpec
CONSTANTS
  Certs = {"x", "y", "z"}
  MaxBlocks = 3
  MaxTs = 5
  MaxE = 3
  Win = 2
  Fixed = TRUE
VIEW View
INVARIANTS ChainTypeOK NoChunkTwice NoExpiredRef BuilderClean DeliveredOnce
