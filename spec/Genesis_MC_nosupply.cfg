SPECIFICATION Spec
CONSTANTS
  MAXU = 7
  MaxAllocs = 2
  NDims = 1
  MaxPrice = 0
  CheckSupply = FALSE
INVARIANTS PropertyHolds
CHECK_DEADLOCK FALSE
