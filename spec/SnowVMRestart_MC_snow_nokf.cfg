SPECIFICATION MCSpec
CONSTANTS
  N = 3
  Mode = "snow"
  MaxCrashes = 1
CHECK_DEADLOCK FALSE
INVARIANTS
  TypeOK
  IndexAheadOfState
  RestartSucceeds
  RecoveredEqualsNoCrash
  AtLeastOnceInOrder
