SPECIFICATION Spec
CONSTANTS
  Keys = {"a"}
  NC = 2
  NW = 1
  TxCap = 1
  CallShapes <- ShapesAll
  Original = "none"
INVARIANTS TypeOK ReadsSubsetOfDeclared EachKeyReadAtMostOnce GetReturnsParentValues ErrorPropagates
PROPERTIES GetsReturn WaitReturns
CHECK_DEADLOCK TRUE
