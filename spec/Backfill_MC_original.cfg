SPECIFICATION MCSpec
CONSTANTS
  NC = 3
  NF = 1
  WinC = 2
  CursorFromAccepted = TRUE
  StrictForward = TRUE
  StopAtGenesis = FALSE
  MaxFaults = 1
INVARIANTS SavedAreTrueAncestorsContiguous CompleteWhenDone
PROPERTIES Completes
CHECK_DEADLOCK FALSE
