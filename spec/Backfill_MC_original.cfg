SPECIFICATION MCSpec
CONSTANTS
  NC = 3
  WinC = 2
  StopAtGenesis = FALSE
  MaxFaults = 1
INVARIANTS SavedAreTrueAncestorsContiguous CompleteWhenDone
PROPERTIES Completes
CHECK_DEADLOCK FALSE
