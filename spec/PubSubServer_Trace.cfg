SPECIFICATION TraceSpec
CONSTANTS
  Conns <- TConns
  MaxMsg = 0
  Cap = 0
  Variant = "code"
CONSTRAINT HWM
INVARIANTS DiagEmpty
POSTCONDITION Accepted
CHECK_DEADLOCK FALSE
