-------------------------- MODULE TStateView_Trace --------------------------
(* Trace validation of executions recorded from the real state/tstate      *)
(* package against the abstract KV machine (C04, C05).  One ndjson line    *)
(* per public call, logged at the call's return together with the values   *)
(* GetValue reports for every readable key ("vis") and, at commit, the     *)
(* block-level ChangedKeys ("changed").  Scenarios are concatenated; a     *)
(* "reset" line re-initialises the machine.                                *)
EXTENDS KV, TLC, Json, IOUtils, SequencesExt

VARIABLE l                      \* next line of Trace to explain

Trace == ndJsonDeserialize(IOEnv.TRACE)
N     == Len(Trace)
tvars == <<kvvars, l>>

Set(seq)     == {seq[i] : i \in DOMAIN seq}
ScopeOf(rec) == [k \in Keys |-> Set(rec[k])]
MapOf(rec)   == [k \in Keys |-> rec[k]]

Ev(e)  == l <= N /\ Trace[l].ev = e /\ l' = l + 1
T      == Trace[l]

(* the logged observables must be what the abstract machine shows after the step *)
VisOK  == \A k \in DOMAIN T.vis : T.vis[k] = cur'[k]
ResOK  == T.res = res'

TraceInit ==
  /\ l = 2 /\ TLCSet(1, 1)
  /\ Trace[1].ev = "reset"
  /\ KVInitWith(MapOf(Trace[1].base), MapOf(Trace[1].blk), ScopeOf(Trace[1].scope))

TReset      == Ev("reset") /\ base' = MapOf(T.base) /\ blk' = MapOf(T.blk) /\ scope' = ScopeOf(T.scope)
               /\ cur' = [k \in Keys |-> IF T.blk[k] # Unset THEN T.blk[k] ELSE T.base[k]]
               /\ cps' = <<>> /\ res' = "init"
TGet        == Ev("get")        /\ KVGet(T.k)          /\ ResOK /\ VisOK
TInsert     == Ev("insert")     /\ KVInsert(T.k, T.v)  /\ ResOK /\ VisOK
TRemove     == Ev("remove")     /\ KVRemove(T.k)       /\ ResOK /\ VisOK
TCheckpoint == Ev("checkpoint") /\ KVCheckpoint        /\ VisOK
TRollback   == Ev("rollback")   /\ KVRollback(T.i)     /\ VisOK
TCommit     == Ev("commit")     /\ KVCommit(ScopeOf(T.scope)) /\ MapOf(T.changed) = blk' /\ VisOK
TDiscard    == Ev("discard")    /\ KVDiscard(ScopeOf(T.scope)) /\ MapOf(T.changed) = blk' /\ VisOK

TraceNext == TReset \/ TGet \/ TInsert \/ TRemove \/ TCheckpoint \/ TRollback \/ TCommit \/ TDiscard
TraceSpec == TraceInit /\ [][TraceNext]_tvars

(* high-water mark of explained lines: register 1 *)
HWM      == TLCSet(1, IF TLCGet(1) > l - 1 THEN TLCGet(1) ELSE l - 1)
Accepted == PrintT(<<"TRACE_HWM", TLCGet(1)>>) /\ TLCGet(1) = N
=============================================================================
