SPECIFICATION MCSpec
CONSTANTS
  Tree <- Tree6
  Root = "b0"
  InitReady = {TRUE}
  PCaps = {2}
  ACaps = {3}
  MaxBacklog = 2
  MaxFaults = 1
  MaxParses = 1
  WithSync = FALSE
  FixParentMissing = TRUE
VIEW View
CHECK_DEADLOCK FALSE
INVARIANTS
  TypeOK
  VerifyOnlyOnVerifiedOrAcceptedParent
  AcceptInHeightOrderAtMostOnce
  NeverAcceptRejected
  AcceptedNotificationsMatch
  RejectedNotificationsMatch
  VerifiedNotificationsMatch
  LookupReturnsAcceptedChain
  NoFatalAccept
  AcceptParentPopulated
  EndsAtExecutedState
