---------------------------- MODULE RulesAddress ----------------------------
(* C28 - address text encoding (codec/address.go), as a decision table over *)
(* the syntactic features of an input string:                               *)
(*   pfx   "0x" | "none"                                                    *)
(*   hex   "valid" | "odd" (odd number of digits) | "nonhex" (bad char)     *)
(*   total number of bytes the digits decode to (payload + 4-byte checksum; *)
(*         for hex # "valid": of the string before it was damaged)          *)
(*   sum   "right" | "wrong"  (last 4 bytes = checksum of the rest?)        *)
(*   case  "lower" | "upper" | "mixed" (of the hex letters)                 *)
(* The property (statement): parsing rejects every string that is not the   *)
(* checksummed encoding of exactly one full-length address - wrong length,  *)
(* bad checksum, invalid hex - and Format(a) parses back to a.  The         *)
(* statement does not say that a missing prefix or upper-case digits are    *)
(* malformed (the package's own tests require prefix-less input to parse),  *)
(* so those rows are "either"; whenever a string is accepted the parsed     *)
(* address must be its payload.                                             *)
EXTENDS Integers

AddressLen  == 33
ChecksumLen == 4
FullLen     == AddressLen + ChecksumLen

Prefixes == {"0x", "none"}
HexKinds == {"valid", "odd", "nonhex"}
Sums     == {"right", "wrong"}
Cases    == {"lower", "upper", "mixed"}

(* ---- the property ---- *)
WellFormed(r) == r.hex = "valid" /\ r.total = FullLen /\ r.sum = "right"
Canonical(r)  == WellFormed(r) /\ r.pfx = "0x" /\ r.case = "lower"
Verdict(r)    == IF Canonical(r) THEN "accept" ELSE IF WellFormed(r) THEN "either" ELSE "reject"

Malformation(r) == IF r.hex # "valid" THEN "invalid-hex"
                   ELSE IF r.total # FullLen THEN "wrong-length"
                   ELSE IF r.sum # "right" THEN "bad-checksum" ELSE "none"

(* what Address.String / MarshalText must produce for every address *)
FormatRow == [pfx |-> "0x", hex |-> "valid", total |-> FullLen, sum |-> "right", case |-> "lower"]

(* ---- the parser, step by step as codec/address.go:UnmarshalText/fromChecksum ---- *)
(* strip "0x"; hex.DecodeString (accepts both cases); len < checksumLen; checksum;   *)
(* payload length = AddressLen (added by fixes/C28-address-length.patch); copy       *)
ParseSteps(r, checkLength) ==
  IF r.hex # "valid" THEN "reject"                       \* hex.DecodeString error
  ELSE IF r.total < ChecksumLen THEN "reject"            \* ErrMissingChecksum
  ELSE IF r.sum # "right" THEN "reject"                  \* ErrBadChecksum
  ELSE IF checkLength /\ r.total - ChecksumLen # AddressLen THEN "reject"
  ELSE "accept"

Parse(r)                 == ParseSteps(r, TRUE)
ParseAsOriginallyCoded(r) == ParseSteps(r, FALSE)

Conforms(result, r) == (Verdict(r) = "accept" => result = "accept") /\ (Verdict(r) = "reject" => result = "reject")
=============================================================================
