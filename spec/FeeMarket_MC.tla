---------------------------- MODULE FeeMarket_MC ----------------------------
(* Design step for C13: the algebraic properties of the fee-market rule,     *)
(* proved exhaustively at a small word size.  The rule is a pure function,   *)
(* so the "state space" is its complete input table: every input tuple is an *)
(* initial state and the theorems are invariants evaluated on each of them.  *)
(*   PriceSpec  : all (prev, total, target, denom, min, since)               *)
(*   WindowSpec : all (window of W slots, last, since)                       *)
EXTENDS FeeMarket, TLC

CONSTANTS Denoms,     \* change denominators tried
          Mins,       \* minimum prices tried
          Sinces      \* elapsed seconds tried (must contain values < W, = W, > W, >= 2W, MAXU)

VARIABLES prev, total, target, denom, min, since, win, last
mcvars == <<prev, total, target, denom, min, since, win, last>>

U == 0..MAXU
ZeroWin == [i \in 1..W |-> 0]

PriceInit ==
  /\ prev \in U /\ total \in U /\ target \in 1..MAXU /\ denom \in Denoms /\ min \in Mins /\ since \in Sinces
  /\ win = ZeroWin /\ last = 0
WindowInit ==
  /\ win \in [1..W -> U] /\ last \in U /\ since \in Sinces
  /\ prev = 0 /\ total = 0 /\ target = 1 /\ denom = 1 /\ min = 0
Stutter    == UNCHANGED mcvars
PriceSpec  == PriceInit /\ [][Stutter]_mcvars
WindowSpec == WindowInit /\ [][Stutter]_mcvars
(* both tables in one run (every theorem also holds on the other table's default values) *)
AllSpec    == (PriceInit \/ WindowInit) /\ [][Stutter]_mcvars

N(t) == NextFromTotal(prev, t, target, denom, min, since)
nxt  == N(total)

(* never below the minimum price, never outside the word *)
FloorAtMin   == nxt >= min /\ nxt \in U
(* rises when usage exceeds the target, falls when it is below, by at least one unit,
   unless pinned by the word limit / zero / the minimum price *)
Direction    == /\ total > target => (nxt > prev \/ (prev = MAXU /\ nxt = MAXU))
                /\ total < target => (nxt < prev \/ nxt = min \/ prev = 0)
                /\ total = target => nxt = Max2(prev, min)
(* the amount is the proportional one, computed exactly *)
Proportional == LET f == IF since > W THEN since \div W ELSE 1 IN
                /\ total > target => nxt = Max2(min, Min2(MAXU, prev + Max2(1, (prev * (total - target)) \div (target * denom))))
                /\ total < target => nxt = Max2(min, Max2(0, prev - f * Max2(1, (prev * (target - total)) \div (target * denom))))
(* a product beyond the word saturates instead of wrapping *)
Saturates    == (total > target /\ prev + (prev * (total - target)) \div (target * denom) >= MAXU) => nxt = MAXU
(* a higher window usage never yields a lower next price *)
MonotoneInUsage == total < MAXU => N(total) <= N(total + 1)
(* what the pre-fix code computed is NOT monotone / exact: used only by the sensitivity configuration *)
OriginalAgrees  == NextFromTotalAsOriginallyCoded(prev, total, target, denom, min, since) = nxt

(* window theorems *)
nw == NextWindow(win, last, since)
WindowInWord     == \A i \in 1..W : nw[i] \in U
WindowShift      == /\ since >= W => nw = ZeroWin
                    /\ since < W  => /\ \A i \in 1..W : i # W - since =>
                                           nw[i] = IF i + since <= W THEN win[i + since] ELSE 0
                                     /\ nw[W - since] = Min2(MAXU, win[W] + last)   \* the parent's second
TotalIsCappedSum == Total(win, last, since) = Min2(MAXU, Sum(Roll(win, since)) + (IF since < W THEN last ELSE 0))
TotalMonotone    == /\ last < MAXU => Total(win, last, since) <= Total(win, last + 1, since)
                    /\ \A i \in 1..W : win[i] < MAXU =>
                         Total(win, last, since) <= Total([win EXCEPT ![i] = @ + 1], last, since)
=============================================================================
