SPECIFICATION GSpec
CONSTANTS
  Keys = {"k1", "k2"}
  Vals = {"v1", "v2"}
  Depth = 14
  GenScopes = 0
  ScopeSpace <- GenScopeSpace
INVARIANT Emit
CHECK_DEADLOCK FALSE
