------------------------------ MODULE ActionAPI ------------------------------
(* C30: the read-only action APIs of api/jsonrpc/server.go against on-chain   *)
(* execution, for the reference VM's Transfer action.                         *)
(*                                                                            *)
(* The PROPERTY is stated with Transfer.tla's ActionFold (numeric ledger):    *)
(*   ExecuteActions(actor, actions)  = outputs of ActionFold, failure flag    *)
(*   SimulateActions(actor, actions) = outputs of ActionFold when all run     *)
(*   a transaction with the same actions on the same state produces the same  *)
(*   outputs (RunTxA), also when it declares exactly the simulated keys.      *)
(*                                                                            *)
(* This module is the DESIGN: the three executions shaped like the code, on   *)
(* the abstract transaction view with permission scopes (KV.tla semantics:    *)
(* read needs r, overwrite/delete needs w, creating a record needs a):        *)
(*   ExecAPI   one view per action scoped to the action's StateKeys, each     *)
(*             committed before the next (server.go ExecuteActions)           *)
(*   SimAPI    one view under a recording scope (state.SimulatedKeys) that    *)
(*             grants everything and remembers the strongest permission       *)
(*             requested per key, reported and cleared after every action     *)
(*   ChainExec one view scoped to the union of the declared keys,             *)
(*             all-or-nothing (transaction.go Execute)                        *)
(* st : account -> balance record, Absent = no record (storage deletes the    *)
(* record at zero and creates it on credit).  ActionAPI_MC checks, for every  *)
(* small state and action list, that all of them agree with ActionFold and    *)
(* that the simulated keys are sufficient.                                    *)
EXTENDS Transfer, FiniteSets

Absent == -1
Val(v) == IF v = Absent THEN 0 ELSE v
LedgerOf(st) == [a \in DOMAIN st |-> Val(st[a])]

NoKeys(st) == [a \in DOMAIN st |-> {}]
Grant(used, k, p) == [used EXCEPT ![k] = @ \cup p]

(* scope = [rec |-> TRUE] (recording: everything allowed) or [rec |-> FALSE, keys |-> account -> SUBSET {r,a,w}] *)
RecordingScope == [rec |-> TRUE, keys |-> <<>>]
Declared(keys)  == [rec |-> FALSE, keys |-> keys]
Allowed(scope, k, need) == scope.rec \/ need \subseteq scope.keys[k]

(* Transfer.StateKeys(actor): actor read+write, recipient read+allocate+write (the same map entry when actor = to) *)
TransferKeys(st, actor, act) ==
  [a \in DOMAIN st |-> (IF a = act.to THEN {"r", "a", "w"} ELSE IF a = actor THEN {"r", "w"} ELSE {})]

(* Transfer.Execute on a view, call by call; used = permissions requested so far (what SimulatedKeys remembers) *)
TransferV(st, used, scope, actor, act, MAXU) ==
  LET fail(u) == [ok |-> FALSE, st |-> st, used |-> u, out |-> NoOut] IN
  IF act.value = 0 \/ act.memo > MaxMemo THEN fail(used)
  ELSE IF ~Allowed(scope, actor, {"r"}) THEN fail(used)                      \* SubBalance: GetValue(actor)
  ELSE LET u1 == Grant(used, actor, {"r"}) IN
       IF st[actor] = Absent \/ st[actor] < act.value THEN fail(u1)
       ELSE IF ~Allowed(scope, actor, {"r", "w"}) THEN fail(u1)              \* Remove at zero / Insert
       ELSE LET nb == st[actor] - act.value
                u2 == Grant(u1, actor, {"r", "w"})
                s1 == [st EXCEPT ![actor] = IF nb = 0 THEN Absent ELSE nb]
            IN
            IF ~Allowed(scope, act.to, {"r"}) THEN fail(u2)                  \* AddBalance: GetValue(to)
            ELSE LET u3 == Grant(u2, act.to, {"r"}) IN
                 IF Val(s1[act.to]) + act.value > MAXU THEN fail(u3)
                 ELSE IF ~Allowed(scope, act.to, {"r", "w"}) THEN fail(u3)   \* Insert: write ...
                 ELSE LET u4 == Grant(u3, act.to, {"r", "w"}) IN
                      IF s1[act.to] = Absent /\ ~Allowed(scope, act.to, {"r", "a"}) THEN fail(u4)   \* ... and allocate
                      ELSE [ok   |-> TRUE,
                            st   |-> [s1 EXCEPT ![act.to] = Val(@) + act.value],
                            used |-> IF s1[act.to] = Absent THEN Grant(u4, act.to, {"r", "a"}) ELSE u4,
                            out  |-> [sender |-> nb, receiver |-> Val(s1[act.to]) + act.value]]

(* server.go ExecuteActions: every action in its own view scoped to its own StateKeys, committed before the next;
   stops at the first error and returns the outputs so far *)
ExecAPI(st, actor, actions, MAXU) ==
  FoldSeqL(LAMBDA acc, act :
             IF ~acc.ok THEN acc
             ELSE LET r == TransferV(acc.st, NoKeys(st), Declared(TransferKeys(st, actor, act)), actor, act, MAXU) IN
                  IF r.ok THEN [ok |-> TRUE, st |-> r.st, outs |-> Append(acc.outs, r.out)]
                  ELSE [acc EXCEPT !.ok = FALSE],
           [ok |-> TRUE, st |-> st, outs |-> <<>>], actions)

(* server.go SimulateActions: one recording view; per action its output and the keys requested while it ran;
   any error fails the whole call *)
SimAPI(st, actor, actions, MAXU) ==
  FoldSeqL(LAMBDA acc, act :
             IF ~acc.ok THEN acc
             ELSE LET r == TransferV(acc.st, NoKeys(st), RecordingScope, actor, act, MAXU) IN
                  IF r.ok THEN [ok |-> TRUE, st |-> r.st, outs |-> Append(acc.outs, r.out), keys |-> Append(acc.keys, r.used)]
                  ELSE [acc EXCEPT !.ok = FALSE],
           [ok |-> TRUE, st |-> st, outs |-> <<>>, keys |-> <<>>], actions)

(* Transaction.StateKeys: union of the per-action declarations *)
UnionKeys(st, keyseq) == [a \in DOMAIN st |-> UNION {keyseq[i][a] : i \in DOMAIN keyseq}]

(* transaction.go Execute (actions part): one view scoped to the declared keys, all-or-nothing, outputs of the actions
   that ran *)
ChainExec(st, actor, actions, declared, MAXU) ==
  LET f == FoldSeqL(LAMBDA acc, act :
                      IF ~acc.ok THEN acc
                      ELSE LET r == TransferV(acc.st, NoKeys(st), Declared(declared), actor, act, MAXU) IN
                           IF r.ok THEN [ok |-> TRUE, st |-> r.st, outs |-> Append(acc.outs, r.out)]
                           ELSE [acc EXCEPT !.ok = FALSE],
                    [ok |-> TRUE, st |-> st, outs |-> <<>>], actions)
  IN [ok |-> f.ok, outs |-> f.outs, st |-> IF f.ok THEN f.st ELSE st]

(* ------------------------------ the property, per input ------------------------------ *)
Fold(st, actor, actions, MAXU) == ActionFold(LedgerOf(st), actor, actions, MAXU)

ExecAgrees(st, actor, actions, MAXU) ==
  LET e == ExecAPI(st, actor, actions, MAXU)  f == Fold(st, actor, actions, MAXU) IN
  e.ok = f.ok /\ e.outs = f.outs

SimAgrees(st, actor, actions, MAXU) ==
  LET s == SimAPI(st, actor, actions, MAXU)  f == Fold(st, actor, actions, MAXU) IN
  s.ok = f.ok /\ (s.ok => s.outs = f.outs)

(* a transaction with the action's own StateKeys *)
ChainAgrees(st, actor, actions, MAXU) ==
  LET decl == UnionKeys(st, [i \in DOMAIN actions |-> TransferKeys(st, actor, actions[i])])
      c == ChainExec(st, actor, actions, decl, MAXU)  f == Fold(st, actor, actions, MAXU) IN
  c.ok = f.ok /\ c.outs = f.outs /\ LedgerOf(c.st) = (IF f.ok THEN f.bal ELSE LedgerOf(st))

(* Sufficient: declaring exactly the simulated keys lets the same actions run with the same outputs *)
Sufficient(st, actor, actions, MAXU) ==
  LET s == SimAPI(st, actor, actions, MAXU) IN
  s.ok => LET c == ChainExec(st, actor, actions, UnionKeys(st, s.keys), MAXU) IN c.ok /\ c.outs = s.outs

(* sensitivity: the allocate permission in the simulated keys is needed (violated on purpose in ActionAPI_MC_weak.cfg) *)
SufficientWithoutAllocate(st, actor, actions, MAXU) ==
  LET s == SimAPI(st, actor, actions, MAXU) IN
  s.ok => LET weak == [a \in DOMAIN st |-> UnionKeys(st, s.keys)[a] \ {"a"}]
              c == ChainExec(st, actor, actions, weak, MAXU) IN c.ok /\ c.outs = s.outs
=============================================================================
