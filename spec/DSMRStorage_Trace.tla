------------------------- MODULE DSMRStorage_Trace -------------------------
(* Trace validation of histories recorded from the real x/dsmr ChunkStorage (C36).  One ndjson line per  *)
(* public call, logged at its return with the observables the statement names:                            *)
(*   pend  = ids in the pending map,  get = ids GetChunkBytes returns,  min = minimumExpiry,              *)
(*   w     = per-producer pending weight (read through CheckRateLimit),  certs = GatherChunkCerts.        *)
(* The reopen line must show the same pend/get/min/w as the line before it (ReopenInvisible, evaluated   *)
(* as an action property) and every line must be explained by the model's action.  A crash line (process   *)
(* death inside a call + reopen) must show the complete state before or after that call.                  *)
EXTENDS DSMRStorage, Json, IOUtils, Sequences, SequencesExt

VARIABLE l

Trace == ndJsonDeserialize(IOEnv.TRACE)
N     == Len(Trace)
tvars == <<svars, l>>
T     == Trace[l]
Set(s) == {s[i] : i \in DOMAIN s}

Ev(e) == l <= N /\ Trace[l].ev = e /\ l' = l + 1

ObsOK ==
  /\ Set(T.pend) = pend'
  /\ Set(T.get) = pend' \cup dAcc'
  /\ T.min = min'
  /\ \A p \in Producers : T.w[p] = w'[p]
  /\ Set(T.certs) = cert'
ResOK == T.res = res'

AttrOf(rec) == [c \in Chunks |-> rec[c]]

TraceInit ==
  /\ l = 2 /\ TLCSet(1, 1)
  /\ Trace[1].ev = "reset"
  /\ StorageInit(AttrOf(Trace[1].chunks))

TReset ==
  /\ Ev("reset")
  /\ attr' = AttrOf(T.chunks)
  /\ pend' = {} /\ cert' = {} /\ em' = {} /\ min' = 0 /\ w' = [p \in Producers |-> 0]
  /\ dPend' = {} /\ dAcc' = {} /\ dMin' = 0 /\ res' = "init"
  /\ ObsOK
TAddLocal == Ev("addlocal") /\ AddLocal(T.c) /\ ResOK /\ ObsOK
TRemote   == Ev("remote")   /\ VerifyRemote(T.c, T.ok) /\ ResOK /\ ObsOK
TSetCert  == Ev("setcert")  /\ SetCert(T.c, T.valid) /\ ResOK /\ ObsOK
TSetMin   == Ev("setmin")   /\ SetMin(T.t, Set(T.save)) /\ ResOK /\ ObsOK
(* which certificates survive a reopen is taken from the log: the statement does not constrain it *)
TReopen   == Ev("reopen")   /\ Reopen(Set(T.certs) \cap dPend) /\ ObsOK

(* crash point inside a call (the driver's database refused the (writes+1)-th durable write of the call, the        *)
(* storage was opened again): what is observed must be the image before the call or the image after the whole call *)
TCrash ==
  /\ Ev("crash")
  /\ CASE T.op = "setmin" -> /\ T.t >= min /\ Set(T.save) \subseteq pend
                              /\ CrashDuring(SetMinImage(T.t, Set(T.save), TRUE), Set(T.certs))
       [] T.op \in {"addlocal", "remote"} -> CrashDuring(PutImage(T.c), Set(T.certs))
       [] OTHER -> FALSE
  /\ ObsOK

TraceNext == TReset \/ TAddLocal \/ TRemote \/ TSetCert \/ TSetMin \/ TReopen \/ TCrash
TraceSpec == TraceInit /\ [][TraceNext]_tvars

HWM      == TLCSet(1, IF TLCGet(1) > l - 1 THEN TLCGet(1) ELSE l - 1)
Accepted == PrintT(<<"TRACE_HWM", TLCGet(1)>>) /\ TLCGet(1) = N
=============================================================================
