SPECIFICATION Spec
CONSTANTS
  Keys = {"k1", "k2"}
  Vals = {"v1", "v2"}
  MaxOps = 3
  MaxCps = 2
  ScopeSpace <- MCFull
CONSTRAINT Bound
VIEW View
INVARIANTS TypeOK Refines SameResult CommitExact NoRedundantPending
PROPERTIES Confined
