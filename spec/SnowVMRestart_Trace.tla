------------------------- MODULE SnowVMRestart_Trace -------------------------
(* Trace validation of crash/restart runs of the real hypersdk VM             *)
(* (drivers/vm/verif_crash_test.go) against SnowVMRestart (C18).              *)
(* Lines: reset | start (one per incarnation: Initialize result, LastAccepted *)
(* la, ConsensusIndex.GetLastAccepted lp with the heights whose reference     *)
(* state root / execution results it carries, notifications sent during       *)
(* start-up nn) | accept h | commit h (state of h committed, observer not yet *)
(* notified) | notify h | crash | final | stop.  Heights are those of the     *)
(* reference chain a never-crashed node executed (-1 = matches none).         *)
(* Modelling assumption checked by the snow-level family: the index update of  *)
(* one block (last-accepted pointer, block bytes, id<->height maps, pruning)   *)
(* is ONE atomic durable step.  The driver crashes after every individual      *)
(* database write inside it; the image must then be the specification's state  *)
(* before or after the step ("accept h" is logged iff the pointer names h) and *)
(* the restart from it must succeed like from any other crash point.           *)
(* A successful restart is bound to the property only (same last accepted     *)
(* block, state root and results as the never-crashed node at the indexed     *)
(* height; any start-up notifications), not to today's recovery algorithm.    *)
EXTENDS SnowVMRestart, Json, IOUtils, SequencesExt

VARIABLE l
Trace == ndJsonDeserialize(IOEnv.TRACE)
NL    == Len(Trace)
T     == Trace[l]
tvars == <<vars, l>>
Ev(e) == l <= NL /\ Trace[l].ev = e /\ l' = l + 1

Fresh == /\ idxLast = 0 /\ stateH = 0 /\ resH = 0 /\ subLog = <<>>
         /\ queue = <<>> /\ pc = "idle" /\ cur = 0 /\ lastAcc = 0 /\ lastProc = 0
         /\ up = FALSE /\ failed = FALSE /\ kf = {} /\ excused = {}
TraceInit == l = 2 /\ TLCSet(1, 1) /\ Trace[1].ev = "reset" /\ Fresh
TReset == /\ Ev("reset")
          /\ idxLast' = 0 /\ stateH' = 0 /\ resH' = 0 /\ subLog' = <<>>
          /\ queue' = <<>> /\ pc' = "idle" /\ cur' = 0 /\ lastAcc' = 0 /\ lastProc' = 0
          /\ up' = FALSE /\ failed' = FALSE /\ kf' = {} /\ excused' = {}

(* Initialize succeeded: what the node reports must be the never-crashed node at the indexed height.  The block at  *)
(* the committed state height whose notification was cut off and is not delivered at start-up is the recorded       *)
(* finding C18_committed_block_not_reannounced: it is excused (and marked), every other height is still demanded.    *)
TStartOK ==
  /\ Ev("start") /\ T.res = "ok" /\ ~up /\ ~failed
  /\ T.la = idxLast /\ T.lp = idxLast /\ T.root = idxLast /\ T.results = idxLast
  /\ up' = TRUE /\ lastAcc' = idxLast /\ lastProc' = idxLast /\ stateH' = idxLast /\ resH' = idxLast
  /\ subLog' = subLog \o T.nn
  /\ queue' = <<>> /\ pc' = "idle" /\ cur' = 0
  /\ IF KF_C18_committed_block_not_reannounced /\ stateH \notin Range(T.nn)
     THEN /\ kf' = kf \cup {"C18_committed_block_not_reannounced"} /\ excused' = excused \cup {stateH}
          /\ PrintT(<<"KF_HIT", "C18_committed_block_not_reannounced", l>>)
     ELSE UNCHANGED <<kf, excused>>
  /\ UNCHANGED <<idxLast, failed>>

(* Initialize failed: only explained inside the regions of the recorded findings *)
TStartKF ==
  /\ Ev("start") /\ T.res # "ok" /\ ~up /\ ~failed
  /\ T.fam = "vm"                      \* the two restart findings are findings of vm.VM's recovery
  /\ \/ KF_C18_restart_panics_one_uncommitted_block /\ T.res = "panic"
     \/ KF_C18_restart_refused_uncommitted_blocks /\ T.res = "err"
  /\ RestartFails
  /\ PrintT(<<"KF_HIT", IF T.res = "panic" THEN "C18_restart_panics_one_uncommitted_block"
                        ELSE "C18_restart_refused_uncommitted_blocks", l>>)

(* "accept h": the index write of h is durable (ConsensusAccept: index, then enqueue) *)
TAccept == Ev("accept") /\ ConsensusAccept /\ idxLast' = T.h
(* "commit h": the state of h is durable (Take;WriteResults;CommitState).  Bound to the durable effect only, so that a  *)
(* commit of a block whose index write has not landed shows up as a violation of IndexAheadOfState.                    *)
TCommit == /\ Ev("commit") /\ up /\ pc = "idle" /\ T.h = stateH + 1
           /\ resH' = T.h /\ stateH' = T.h /\ cur' = T.h /\ pc' = "committed"
           /\ queue' = (IF queue # <<>> /\ Head(queue) = T.h THEN Tail(queue) ELSE queue)
           /\ UNCHANGED <<idxLast, subLog, lastAcc, lastProc, up, failed, kf, excused>>
(* "notify h" after "commit h" (Notify;Finish) ... *)
TNotifyC == /\ Ev("notify") /\ up /\ pc = "committed" /\ cur = T.h
            /\ subLog' = Append(subLog, T.h) /\ lastProc' = T.h /\ pc' = "idle"
            /\ UNCHANGED <<idxLast, stateH, resH, queue, cur, lastAcc, up, failed, kf, excused>>
(* ... or "notify h" alone: the whole processAccept of h (Take;WriteResults;CommitState;Notify;Finish) *)
TNotify == /\ Ev("notify") /\ up /\ pc = "idle" /\ T.h = stateH + 1
           /\ resH' = T.h /\ stateH' = T.h /\ subLog' = Append(subLog, T.h) /\ lastProc' = T.h
           /\ queue' = (IF queue # <<>> /\ Head(queue) = T.h THEN Tail(queue) ELSE queue)
           /\ UNCHANGED <<idxLast, pc, cur, lastAcc, up, failed, kf, excused>>
(* the process dies; when the durable image was captured (idx >= 0) it must be the specification's *)
TCrash  == Ev("crash") /\ Crash /\ (T.idx < 0 \/ (T.idx = idxLast /\ T.state = stateH))
TFinal  == /\ Ev("final") /\ up /\ pc = "idle" /\ queue = <<>> /\ UNCHANGED vars
           /\ T.la = idxLast /\ T.lp = lastProc /\ T.root = stateH /\ T.results = resH
TStop   == Ev("stop") /\ up /\ pc = "idle" /\ queue = <<>> /\ Crash

TraceNext == TReset \/ TStartOK \/ TStartKF \/ TAccept \/ TCommit \/ TNotifyC \/ TNotify \/ TCrash \/ TFinal \/ TStop
TraceSpec == TraceInit /\ [][TraceNext]_tvars

HWM      == TLCSet(1, IF TLCGet(1) > l - 1 THEN TLCGet(1) ELSE l - 1)
Accepted == PrintT(<<"TRACE_HWM", TLCGet(1)>>) /\ TLCGet(1) = NL
=============================================================================
