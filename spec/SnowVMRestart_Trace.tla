------------------------- MODULE SnowVMRestart_Trace -------------------------
(* Trace validation of crash/restart runs of the real hypersdk VM             *)
(* (drivers/vm/verif_crash_test.go) against SnowVMRestart (C18).              *)
(* Lines: reset | start (one per incarnation: Initialize result, LastAccepted *)
(* la, ConsensusIndex.GetLastAccepted lp with the heights whose reference     *)
(* state root / execution results it carries, notifications sent during       *)
(* start-up nn) | accept h | commit h (state of h committed, observer not yet *)
(* notified) | notify h | crash | final | stop.  Heights are those of the     *)
(* reference chain a never-crashed node executed (-1 = matches none).         *)
(* A successful restart is bound to the property only (same last accepted     *)
(* block, state root and results as the never-crashed node at the indexed     *)
(* height; any start-up notifications), not to today's recovery algorithm.    *)
EXTENDS SnowVMRestart, Json, IOUtils, SequencesExt

VARIABLE l
Trace == ndJsonDeserialize(IOEnv.TRACE)
NL    == Len(Trace)
T     == Trace[l]
tvars == <<vars, l>>
Ev(e) == l <= NL /\ Trace[l].ev = e /\ l' = l + 1

Fresh == /\ idxLast = 0 /\ stateH = 0 /\ resH = 0 /\ subLog = <<>>
         /\ queue = <<>> /\ pc = "idle" /\ cur = 0 /\ lastAcc = 0 /\ lastProc = 0
         /\ up = FALSE /\ failed = FALSE /\ kf = {}
TraceInit == l = 2 /\ TLCSet(1, 1) /\ Trace[1].ev = "reset" /\ Fresh
TReset == /\ Ev("reset")
          /\ idxLast' = 0 /\ stateH' = 0 /\ resH' = 0 /\ subLog' = <<>>
          /\ queue' = <<>> /\ pc' = "idle" /\ cur' = 0 /\ lastAcc' = 0 /\ lastProc' = 0
          /\ up' = FALSE /\ failed' = FALSE /\ kf' = {}

(* Initialize succeeded: what the node reports must be the never-crashed node at the indexed height *)
TStartOK ==
  /\ Ev("start") /\ T.res = "ok" /\ ~up /\ ~failed
  /\ T.la = idxLast /\ T.lp = idxLast /\ T.root = idxLast /\ T.results = idxLast
  /\ up' = TRUE /\ lastAcc' = idxLast /\ lastProc' = idxLast /\ stateH' = idxLast /\ resH' = idxLast
  /\ subLog' = subLog \o T.nn
  /\ queue' = <<>> /\ pc' = "idle" /\ cur' = 0
  /\ UNCHANGED <<idxLast, failed, kf>>

(* Initialize failed: only explained inside the regions of the recorded findings *)
TStartKF ==
  /\ Ev("start") /\ T.res # "ok" /\ ~up /\ ~failed
  /\ \/ KF_C18_restart_panics_one_uncommitted_block /\ T.res = "panic"
     \/ KF_C18_restart_refused_uncommitted_blocks /\ T.res = "err"
  /\ RestartFails
  /\ PrintT(<<"KF_HIT", IF T.res = "panic" THEN "C18_restart_panics_one_uncommitted_block"
                        ELSE "C18_restart_refused_uncommitted_blocks", l>>)

TAccept == Ev("accept") /\ ConsensusAccept /\ idxLast' = T.h
(* the async accepter ran processAccept of the next queued block up to the state commit (Take;WriteResults;CommitState) *)
TCommit == /\ Ev("commit") /\ up /\ pc = "idle" /\ queue # <<>> /\ Head(queue) = T.h
           /\ resH' = T.h /\ stateH' = T.h /\ cur' = T.h /\ pc' = "committed" /\ queue' = Tail(queue)
           /\ UNCHANGED <<idxLast, subLog, lastAcc, lastProc, up, failed, kf>>
(* ... or completely (Take;WriteResults;CommitState;Notify;Finish) *)
TNotify == /\ Ev("notify") /\ up /\ pc = "idle" /\ queue # <<>> /\ Head(queue) = T.h
           /\ resH' = T.h /\ stateH' = T.h /\ subLog' = Append(subLog, T.h) /\ lastProc' = T.h /\ queue' = Tail(queue)
           /\ UNCHANGED <<idxLast, pc, cur, lastAcc, up, failed, kf>>
TCrash  == Ev("crash") /\ Crash
TFinal  == /\ Ev("final") /\ up /\ pc = "idle" /\ queue = <<>> /\ UNCHANGED vars
           /\ T.la = idxLast /\ T.lp = lastProc /\ T.root = stateH /\ T.results = resH
TStop   == Ev("stop") /\ up /\ pc = "idle" /\ queue = <<>> /\ Crash

TraceNext == TReset \/ TStartOK \/ TStartKF \/ TAccept \/ TCommit \/ TNotify \/ TCrash \/ TFinal \/ TStop
TraceSpec == TraceInit /\ [][TraceNext]_tvars

HWM      == TLCSet(1, IF TLCGet(1) > l - 1 THEN TLCGet(1) ELSE l - 1)
Accepted == PrintT(<<"TRACE_HWM", TLCGet(1)>>) /\ TLCGet(1) = NL
=============================================================================
