----------------------------- MODULE LoadTracker -----------------------------
(* load/prometheus_tracker.go (extra module X13): what the tracker counts.   *)
(* Implementation layer: the three counters, the outstanding map and the     *)
(* four prometheus collectors as Issue / ObserveConfirmed / ObserveFailed    *)
(* write them.  Monitor: the number of calls of each kind and the set of     *)
(* transactions issued and not observed since.                               *)
EXTENDS Integers, FiniteSets

CONSTANTS Txs, MaxCalls,
          Variant          \* "code" | "dedupe" (a transaction is counted once per id)

VARIABLES issued, confirmed, failed, out,        \* PrometheusTracker fields (out = keys of outstandingTxs)
          mI, mC, mF, mLat,                      \* collectors: three counters, number of latency samples
          calls, pending                         \* monitor
vars == <<issued, confirmed, failed, out, mI, mC, mF, mLat, calls, pending>>

Init == /\ issued = 0 /\ confirmed = 0 /\ failed = 0 /\ out = {}
        /\ mI = 0 /\ mC = 0 /\ mF = 0 /\ mLat = 0
        /\ calls = [issue |-> 0, confirm |-> 0, fail |-> 0] /\ pending = {}

Total == calls.issue + calls.confirm + calls.fail

Issue(tx) ==
  /\ Total < MaxCalls
  /\ LET count == Variant = "code" \/ tx \notin out
     IN /\ issued' = IF count THEN issued + 1 ELSE issued
        /\ mI' = IF count THEN mI + 1 ELSE mI
  /\ out' = out \cup {tx}
  /\ calls' = [calls EXCEPT !.issue = @ + 1] /\ pending' = pending \cup {tx}
  /\ UNCHANGED <<confirmed, failed, mC, mF, mLat>>

Confirm(tx) ==
  /\ Total < MaxCalls
  /\ confirmed' = confirmed + 1 /\ mC' = mC + 1 /\ mLat' = mLat + 1 /\ out' = out \ {tx}
  /\ calls' = [calls EXCEPT !.confirm = @ + 1] /\ pending' = pending \ {tx}
  /\ UNCHANGED <<issued, failed, mI, mF>>

Fail(tx) ==
  /\ Total < MaxCalls
  /\ failed' = failed + 1 /\ mF' = mF + 1 /\ mLat' = mLat + 1 /\ out' = out \ {tx}
  /\ calls' = [calls EXCEPT !.fail = @ + 1] /\ pending' = pending \ {tx}
  /\ UNCHANGED <<issued, confirmed, mI, mC>>

Next == \E tx \in Txs : Issue(tx) \/ Confirm(tx) \/ Fail(tx)
Spec == Init /\ [][Next]_vars

(* T1  each getter is the number of calls of its kind - whatever the transactions were (repeated, unknown) *)
CountsCalls == issued = calls.issue /\ confirmed = calls.confirm /\ failed = calls.fail
(* T2  the exported metrics agree with the getters; one latency sample per observed outcome *)
MetricsAgree == mI = issued /\ mC = confirmed /\ mF = failed /\ mLat = confirmed + failed
(* T3  the outstanding map holds exactly the transactions issued and not observed since *)
OutstandingExact == out = pending
(* counters never decrease *)
Monotone == [][issued' >= issued /\ confirmed' >= confirmed /\ failed' >= failed]_vars
=============================================================================
