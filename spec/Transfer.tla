------------------------------ MODULE Transfer ------------------------------
(* C06 / C30: the token ledger of the reference VM (examples/morpheusvm).   *)
(* This module is the PROPERTY: balances are plain numbers (what GetBalance *)
(* reports: 0 for an account without a record), a transfer moves value      *)
(* between two of them or does nothing at all, a transaction first burns    *)
(* its fee and then runs its transfers all-or-nothing.  How the code stores *)
(* a balance (record deleted at zero, re-created on credit, view rollback)  *)
(* is deliberately absent here; Transfer_MC.tla is the implementation-      *)
(* shaped design that must refine this ledger, Transfer_Trace.tla binds the *)
(* real chain.Processor + actions.Transfer + storage to it, and             *)
(* ActionAPI.tla states the read-only APIs against the same fold.           *)
(* Written with VFolds only (no RECURSIVE): TLC evaluates it with small      *)
(* numbers, Apalache evaluates the same text with 64-bit numbers.           *)
EXTENDS Integers, Sequences, VFolds

MaxMemo == 256          \* actions.MaxMemoSize

(* The type comments in front of the operators are Apalache annotations; TLC ignores them.
   bal : account -> Nat;  act = [to, value, memo (length in bytes)];  MAXU = largest representable balance *)
\* @typeAlias: ledger = Str -> Int;
\* @typeAlias: act = { to: Str, value: Int, memo: Int };
\* @typeAlias: out = { sender: Int, receiver: Int };
\* @typeAlias: tx = { sponsor: Str, actor: Str, fee: Int, actions: Seq($act) };
\* @typeAlias: fold = { ok: Bool, bal: $ledger, outs: Seq($out), n: Int };
\* @typeAlias: blk = { valid: Bool, bal: $ledger, oks: Seq(Bool), outs: Seq(Seq($out)), fees: Int };
TransferTypeAliases == TRUE

\* @type: ($ledger) => Int;
SumBal(bal) ==
  LET \* @type: (Int, Str) => Int;
      Plus(acc, a) == acc + bal[a]
  IN FoldSetL(Plus, 0, DOMAIN bal)

\* @type: $out;
NoOut == [sender |-> 0, receiver |-> 0]

(* one transfer: rejected when the value is zero, the memo too long, the sender short of funds, or the
   receiver's balance would exceed MAXU; a self-transfer of an affordable value changes nothing.
   out = sender balance after the debit, receiver balance after the credit (TransferResult) *)
\* @type: ($ledger, Str, $act, Int) => { ok: Bool, bal: $ledger, out: $out };
TransferA(bal, actor, act, MAXU) ==
  IF act.value = 0 \/ act.memo > MaxMemo \/ bal[actor] < act.value
    THEN [ok |-> FALSE, bal |-> bal, out |-> NoOut]
  ELSE LET debited == [bal EXCEPT ![actor] = @ - act.value] IN
       IF debited[act.to] + act.value > MAXU
         THEN [ok |-> FALSE, bal |-> bal, out |-> NoOut]
       ELSE [ok  |-> TRUE,
             bal |-> [debited EXCEPT ![act.to] = @ + act.value],
             out |-> [sender |-> debited[actor], receiver |-> debited[act.to] + act.value]]

(* ActionFold: the actions run in order on top of each other until the first one fails.
   ok = all ran; bal = ledger after the actions that ran; outs = their outputs; n = how many ran *)
\* @type: ($ledger, Str, Seq($act), Int) => $fold;
ActionFold(bal, actor, actions, MAXU) ==
  LET \* @type: ($fold, $act) => $fold;
      Step(acc, act) ==
        IF ~acc.ok THEN acc
        ELSE LET r == TransferA(acc.bal, actor, act, MAXU) IN
             IF r.ok THEN [ok |-> TRUE, bal |-> r.bal, outs |-> Append(acc.outs, r.out), n |-> acc.n + 1]
             ELSE [ok |-> FALSE, bal |-> acc.bal, outs |-> acc.outs, n |-> acc.n]
  IN FoldSeqL(Step, [ok |-> TRUE, bal |-> bal, outs |-> <<>>, n |-> 0], actions)

(* one transaction [sponsor, actor, fee, actions]: not includable when the sponsor cannot pay the fee; otherwise the
   fee is burned first and the actions are all-or-nothing (a failed transaction keeps the outputs of the actions
   that ran, as chain.Result does) *)
\* @type: ($ledger, $tx, Int) => { valid: Bool, ok: Bool, bal: $ledger, outs: Seq($out) };
RunTxA(bal, tx, MAXU) ==
  IF bal[tx.sponsor] < tx.fee THEN [valid |-> FALSE, ok |-> FALSE, bal |-> bal, outs |-> <<>>]
  ELSE LET paid == [bal EXCEPT ![tx.sponsor] = @ - tx.fee]
           r    == ActionFold(paid, tx.actor, tx.actions, MAXU)
       IN [valid |-> TRUE, ok |-> r.ok, bal |-> IF r.ok THEN r.bal ELSE paid, outs |-> r.outs]

(* a block: transactions in order; a transaction that cannot pay makes the whole block invalid (nothing changes) *)
\* @type: ($ledger, Seq($tx), Int) => $blk;
RunBlockA(bal, txs, MAXU) ==
  LET \* @type: ($blk, $tx) => $blk;
      Step(acc, tx) ==
        IF ~acc.valid THEN acc
        ELSE LET r == RunTxA(acc.bal, tx, MAXU) IN
             IF ~r.valid THEN [acc EXCEPT !.valid = FALSE]
             ELSE [valid |-> TRUE, bal |-> r.bal, oks |-> Append(acc.oks, r.ok),
                   outs |-> Append(acc.outs, r.outs), fees |-> acc.fees + tx.fee]
      f == FoldSeqL(Step, [valid |-> TRUE, bal |-> bal, oks |-> <<>>, outs |-> <<>>, fees |-> 0], txs)
  IN IF f.valid THEN f ELSE [f EXCEPT !.bal = bal]

(* C06 on the ledger itself (checked by TLC in Transfer_MC, by Apalache on recorded 64-bit blocks) *)
\* @type: ($ledger, Seq($tx), Int) => Bool;
Conserves(bal, txs, MAXU) ==
  LET r == RunBlockA(bal, txs, MAXU) IN
  /\ r.valid => SumBal(r.bal) = SumBal(bal) - r.fees
  /\ ~r.valid => r.bal = bal
=============================================================================
