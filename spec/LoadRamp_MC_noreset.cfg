SPECIFICATION Spec
CONSTANTS
  MinTPS = 2
  MaxTPS = 7
  StepTPS = 2
  MaxAttempts = 2
  Terminate = TRUE
  NAgents = 2
  MulP = 3
  MulQ = 2
  MaxRounds = 9
  Variant = "noreset"
INVARIANTS TypeOK RampShape AchievedRule GiveUpRule WindowIsOnePeriod IssueRateCoversTarget
PROPERTIES StepOK
CHECK_DEADLOCK FALSE
