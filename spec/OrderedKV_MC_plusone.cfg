SPECIFICATION LemmaSpec
CONSTANTS
  Keys <- MCKeys
  Vals = {1, 2}
  Top = 2
  MaxBatch = 2
  Variant = "plusone"
INVARIANTS Lemma
CHECK_DEADLOCK FALSE
