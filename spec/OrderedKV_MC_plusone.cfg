SPECIFICATION Spec
CONSTANTS
  Keys <- MCKeys
  Vals = {1, 2}
  Top = 2
  MaxBatch = 2
  Variant = "plusone"
INVARIANTS TypeOK Lemma
PROPERTIES BatchInvisible
CHECK_DEADLOCK FALSE
