SPECIFICATION MCSpec
CONSTANTS
  NC = 3
  NF = 1
  WinC = 2
  CursorFromAccepted = TRUE
  StrictForward = FALSE
  StopAtGenesis = TRUE
  MaxFaults = 2
INVARIANTS SavedAreTrueAncestorsContiguous CompleteWhenDone
CHECK_DEADLOCK FALSE
