SPECIFICATION Spec
CONSTANTS
  Keys = {"a"}
  Sponsors = {"s1", "s2"}
  Vals = {"v1"}
  MaxTxs = 2
  MaxOps = 2
  StrictConflicts = TRUE
INVARIANTS EqualsSequential NoConflictingOverlap
CHECK_DEADLOCK FALSE
