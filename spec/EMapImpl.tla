------------------------------ MODULE EMapImpl ------------------------------
(* Implementation-shaped model of internal/emap/emap.go: seen set, times map *)
(* (expiry -> bucket of ids in arrival order) and the bucket heap bh over    *)
(* internal/heap (GoHeap.tla; a heap entry carries the id of the bucket's    *)
(* first item and the bucket's timestamp).  Runs in lock step with the       *)
(* abstract ExpirySet with TrackZero = FALSE.                                *)
EXTENDS ExpirySet, GoHeap, TLC

VARIABLES seen,    \* SUBSET Ids                      e.seen
          times,   \* [SUBSET Exps -> Seq(Ids)]       e.times (bucket contents)
          bh,      \* Seq([id, val, index])           e.bh
          ires, last

ivars == <<seen, times, bh, ires, last>>
vars  == <<esvars, ivars>>

IInit == ESInit /\ seen = {} /\ times = <<>> /\ bh = <<>> /\ ires = R(TRUE, NoExp, {}) /\ last = "init"

St == [seen |-> seen, times |-> times, bh |-> bh]

(* EMap.add *)
Add1I(s, i, e) ==
  IF e = 0 THEN s
  ELSE IF i \in s.seen THEN s
  ELSE IF e \in DOMAIN s.times
       THEN [s EXCEPT !.seen = @ \cup {i}, !.times[e] = Append(@, i)]
       ELSE [seen  |-> s.seen \cup {i},
             times |-> (e :> <<i>>) @@ s.times,
             bh    |-> HPush(s.bh, [id |-> i, val |-> e, index |-> Len(s.bh)])]

RECURSIVE AddAllI(_, _)
AddAllI(s, items) == IF items = <<>> THEN s
                     ELSE AddAllI(Add1I(s, Head(items).i, Head(items).e), Tail(items))

IAdd(items) ==
  LET s == AddAllI(St, items) IN
  /\ seen' = s.seen /\ times' = s.times /\ bh' = s.bh
  /\ ires' = R(TRUE, NoExp, {}) /\ last' = "add"

(* EMap.SetMin: loop { b = bh.First(); if b == nil || b.Val >= t break; bh.Pop(); evict bucket; delete(times, b.Val) } *)
Drop(f, k) == [x \in DOMAIN f \ {k} |-> f[x]]
SeqSet(q)  == {q[k] : k \in DOMAIN q}

RECURSIVE SetMinLoop(_, _, _)
SetMinLoop(s, t, ev) ==
  IF Len(s.bh) = 0 \/ s.bh[1].val >= t THEN <<s, ev>>
  ELSE LET b == s.bh[1] IN
       SetMinLoop([seen  |-> s.seen \ SeqSet(s.times[b.val]),
                   times |-> Drop(s.times, b.val),
                   bh    |-> HPop(s.bh)[1]],
                  t, ev \o s.times[b.val])

ISetMin(t) ==
  LET r == SetMinLoop(St, t, <<>>) IN
  /\ seen' = r[1].seen /\ times' = r[1].times /\ bh' = r[1].bh
  /\ ires' = R(TRUE, IF Len(r[2]) = Cardinality(SeqSet(r[2])) THEN NoExp ELSE -2, SeqSet(r[2]))
  /\ last' = "setmin"

IHas(i) == ires' = R(i \in seen, NoExp, {}) /\ UNCHANGED <<seen, times, bh>> /\ last' = "has"

Next ==
  \/ \E i \in Ids, e \in Exps : ESAdd(<<[i |-> i, e |-> e]>>) /\ IAdd(<<[i |-> i, e |-> e]>>)
  \/ \E i, j \in Ids, e, f \in Exps :                                  \* a batch of two
        LET b == <<[i |-> i, e |-> e], [i |-> j, e |-> f]>> IN ESAdd(b) /\ IAdd(b)
  \/ \E i \in Ids : ESHas(i) /\ IHas(i)
  \/ \E t \in MinArgs : ESSetMin(t) /\ ISetMin(t)

Spec == IInit /\ [][Next]_vars

(* ---- refinement ---- *)
Refines ==
  /\ seen = Held
  /\ \A e \in DOMAIN times : /\ SeqSet(times[e]) = {i \in Held : held[i] = e}
                             /\ Len(times[e]) = Cardinality(SeqSet(times[e]))
                             /\ times[e] # <<>>
  /\ \A i \in Held : held[i] \in DOMAIN times
  /\ {bh[k].val : k \in DOMAIN bh} = DOMAIN times
  /\ Len(bh) = Cardinality(DOMAIN times)
SameResult == ires = res
HeapShape  == HeapOrdered(bh) /\ IndexOK(bh) /\ DistinctIds(bh)
=============================================================================
