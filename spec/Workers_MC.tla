----------------------------- MODULE Workers_MC -----------------------------
(* Exhaustive configurations of the fine-grained worker-pool model (C26).   *)
EXTENDS Workers
\* observation variables do not influence behaviour; jobOrder/ended/runs are kept in the state because the
\* invariants read them.
=============================================================================
