--------------------------- MODULE Genesis_Trace ---------------------------
(* Trace validation of the real chain.NewGenesisCommit (drivers/chain/      *)
(* verif_genesis_test.go) against Genesis.tla.  A scenario is a reset line   *)
(* carrying the word size of the scenario's scale (maxu) followed by one     *)
(* "genesis" line per call: the allocation list (address name, balance in    *)
(* scale units), the configured minimum prices (decimal strings), and what   *)
(* came back: error flag, EVERY key/value of the committed state, the        *)
(* decoded unit prices and whether root(state) = genesis block's StateRoot.  *)
(* Scales: "1" balances are the real values (all small, maxu = 2^31-1: no    *)
(* overflow possible); "2^61" every balance is an exact multiple of 2^61 and *)
(* is logged divided by 2^61, so the real word 2^64-1 = 8*2^61-1 is exactly  *)
(* maxu = 7 in scale units (sum of multiples > 2^64-1  <=>  sum of units > 7)*)
(* The action never blocks; every broken clause of the property is put into  *)
(* diag and DiagEmpty rejects the line.                                      *)
EXTENDS Genesis, TLC, Json, IOUtils

VARIABLES l, maxu, diag
tvars == <<l, maxu, diag>>

Trace == ndJsonDeserialize(IOEnv.TRACE)
N     == Len(Trace)
T     == Trace[l]
Ev(e) == l <= N /\ Trace[l].ev = e /\ l' = l + 1

TraceInit == l = 2 /\ TLCSet(1, 1) /\ Trace[1].ev = "reset" /\ maxu = Trace[1].maxu /\ diag = {}
TReset    == Ev("reset") /\ maxu' = T.maxu /\ diag' = {}

(* the committed state as a function: balances are Ints (-2 = value is not a uint64, -3 = not an exact multiple of
   the scale), the fee key maps to the decoded price vector *)
KeySet(out) == {out.keys[i].k : i \in DOMAIN out.keys}
StOf(out)   == [k \in KeySet(out) |-> IF k = "meta:fee" THEN out.prices
                                      ELSE out.keys[CHOOSE i \in DOMAIN out.keys : out.keys[i].k = k].v]

GenesisDiag(allocs, minp, out) ==
  LET st == StOf(out) IN
  IF Overflows(maxu, allocs) THEN (IF out.err THEN {} ELSE {"overflowing-total-accepted"})
  ELSE IF out.err THEN {"valid-genesis-rejected"}
  ELSE (IF ExactKeys(allocs, st) THEN {} ELSE {"key-not-configured"}) \cup
       (IF ExactBalances(allocs, st) THEN {} ELSE {"balance-differs-from-per-address-sum"}) \cup
       (IF HeightZero(st) THEN {} ELSE {"height-not-zero"}) \cup
       (IF TimestampZero(st) THEN {} ELSE {"timestamp-not-zero"}) \cup
       (IF PricesAreMinimum(st, minp) THEN {} ELSE {"unit-prices-not-minimum"}) \cup
       (IF out.rooteq /\ out.dbrooteq THEN {} ELSE {"state-root-differs-from-block"}) \cup
       (IF Cardinality(KeySet(out)) = Len(out.keys) THEN {} ELSE {"duplicate-key"})

TGenesis ==
  /\ Ev("genesis")
  /\ diag' = GenesisDiag(T.allocs, T.minp, T.out)
  /\ UNCHANGED maxu

TraceNext == TReset \/ TGenesis
TraceSpec == TraceInit /\ [][TraceNext]_tvars

DiagEmpty == diag = {}
(* the model of the code explains the line too (keeps Genesis.tla's coded operators honest: when the real code
   satisfies the property on a line, so must the model on the same input) *)
ModelSatisfiesProperty ==
  (l > 1 /\ l - 1 <= N /\ Trace[l - 1].ev = "genesis") =>
     GenesisOK(maxu, Trace[l - 1].allocs, Trace[l - 1].minp, GenesisCommit(maxu, TRUE, Trace[l - 1].allocs, Trace[l - 1].minp))
HWM      == TLCSet(1, IF TLCGet(1) > l - 1 THEN TLCGet(1) ELSE l - 1)
Accepted == PrintT(<<"TRACE_HWM", TLCGet(1)>>) /\ TLCGet(1) = N
=============================================================================
