--------------------------- MODULE LoadRamp_Trace ---------------------------
(* Trace validation of the real load.GradualOrchestrator (X13).              *)
(*   reset {min,max,step,att,term,n,mp,mq,freeze}   configuration            *)
(*   round {r,c,ent,ret,nxt,cancel,ierr}  one GetObservedConfirmed call of   *)
(*         the orchestrator (r = 0: the initial reading); c = cumulative     *)
(*         confirmed counter returned; ent/ret = instants (100 us ticks) at  *)
(*         which the stub was entered / returned; nxt = entry of the next    *)
(*         call (or Execute's return); cancel / ierr = the parent context    *)
(*         was cancelled / an issuer's error cancelled the issuers' context  *)
(*         while the orchestrator was inside this call                       *)
(*   end   {hang,isnil,failed,ierr,lerr,injI,injL,maxobs,live,agents[]}      *)
(* The orchestrator reads its clock right after each tracker call, so the    *)
(* duration of window (a, r] lies in [ret_r - nxt_a, nxt_r - ret_a]: the     *)
(* window's TPS is bounded by *measured* instants (no assumption on speed).  *)
(* A window whose bounds straddle the target may be judged either way, so    *)
(* the spec tracks the SET of orchestrator states that explain the trace     *)
(* (poss) and rejects a line when no state explains it.                      *)
EXTENDS LoadRamp, TLC, Json, IOUtils, Sequences

VARIABLES l, diag, cfg, poss, H
tvars == <<vars, l, diag, cfg, poss, H>>

Trace == ndJsonDeserialize(IOEnv.TRACE)
N     == Len(Trace)
T     == Trace[l]
Ev(e) == l <= N /\ Trace[l].ev = e /\ l' = l + 1

TPSEC == 10000          \* ticks per second
BIG   == 1073741824

Name(ok, n) == IF ok THEN {} ELSE {n}

(* bounds on the TPS the orchestrator computed for window (a, r], rounds indexed from 0 in hist h *)
Bounds(h, a, r) ==
  LET num == h[r + 1].c - h[a + 1].c
      elo == (h[r + 1].ret - h[a + 1].nxt) - 1
      ehi == (h[r + 1].nxt - h[a + 1].ret) + 1
  IN [lo |-> IF num <= 0 THEN 0 ELSE (num * TPSEC) \div ehi,
      hi |-> IF num <= 0 THEN 0 ELSE IF elo <= 0 THEN BIG ELSE ((num * TPSEC) \div elo) + 1]

P0(c) == [target |-> c.min, attempts |-> 1, achieved |-> FALSE, phase |-> "run", why |-> "", round |-> 0, win |-> 0,
          sLo |-> 0, sHi |-> 0, cLo |-> 0, cHi |-> 0, kf |-> FALSE]
Core(p) == [target |-> p.target, attempts |-> p.attempts, achieved |-> p.achieved, phase |-> p.phase, why |-> p.why,
            round |-> p.round, win |-> p.win]
Merge(q, p, sb, cb, stale) ==
  [target |-> q.target, attempts |-> q.attempts, achieved |-> q.achieved, phase |-> q.phase, why |-> q.why,
   round |-> q.round, win |-> q.win,
   sLo |-> Max2(p.sLo, sb.lo), sHi |-> Max2(p.sHi, sb.hi), cLo |-> Max2(p.cLo, cb.lo), cHi |-> Max2(p.cHi, cb.hi),
   kf |-> p.kf \/ stale]

(* KF_X13_stale_window: once MaxTPS was reached with Terminate = false the code stops advancing prevConfirmed /
   prevTime, so every later "window" is the average since the maximum was reached *)
KF_X13_stale_window(c, p, r) == SteadyC(c, p) /\ p.win < r - 1

StepPoss(c, p, h, r, stop) ==
  IF p.phase # "run" THEN {}
  ELSE LET sb == Bounds(h, r - 1, r)
           cb == Bounds(h, p.win, r)
           hits == IF SteadyC(c, p) THEN {FALSE}
                   ELSE IF sb.lo >= p.target THEN {TRUE}
                   ELSE IF sb.hi < p.target THEN {FALSE} ELSE BOOLEAN
       IN { LET q == RoundFn(c, Core(p), hit)
                q2 == IF stop THEN StopFn(q) ELSE q
            IN Merge(q2, p, sb, cb, KF_X13_stale_window(c, p, r)) : hit \in hits }

TraceInit ==
  /\ l = 1 /\ TLCSet(1, 0) /\ diag = {} /\ poss = {} /\ H = <<>>
  /\ cfg = [min |-> 1, max |-> 1, step |-> 1, att |-> 1, term |-> TRUE, n |-> 1, mp |-> 1, mq |-> 1, freeze |-> -1]
  /\ Init

TReset ==
  /\ Ev("reset")
  /\ cfg' = [min |-> T.min, max |-> T.max, step |-> T.step, att |-> T.att, term |-> T.term, n |-> T.n, mp |-> T.mp,
             mq |-> T.mq, freeze |-> T.freeze]
  /\ poss' = {P0(cfg')} /\ H' = <<>>
  /\ diag' = Name(T.ok, "constructor-refused-configuration")
  /\ UNCHANGED vars

Rec == [c |-> T.c, ent |-> T.ent, ret |-> T.ret, nxt |-> T.nxt]

TRound ==
  /\ Ev("round")
  /\ H' = Append(H, Rec)
  /\ IF T.r = 0
     THEN /\ poss' = IF T.cancel THEN {Merge(StopFn(Core(p)), p, [lo |-> 0, hi |-> 0], [lo |-> 0, hi |-> 0], FALSE) : p \in poss}
                     ELSE poss
          /\ diag' = Name(Len(H) = 0, "round-index")
     ELSE /\ poss' = UNION {StepPoss(cfg, p, H', T.r, T.cancel \/ T.ierr) : p \in poss}
          /\ diag' = Name(T.r = Len(H), "round-index") \cup
                     Name(poss' # {}, "window-evaluated-after-the-run-had-to-end")
  /\ UNCHANGED <<vars, cfg>>

AgentSet == {T.agents[i] : i \in DOMAIN T.agents}
BatchOK(a, p) ==
  LET b1 == Batch(cfg.min, cfg.n, cfg.mp, cfg.mq)
      bt == Batch(p.target, cfg.n, cfg.mp, cfg.mq)
  IN \E k \in 0..60 : a.calls = b1 + k * bt

TEnd ==
  /\ Ev("end")
  /\ LET F  == {p \in poss : p.phase = "done" \/ T.injI}
         G  == {p \in F : T.failed = Failed(p)}
         mS == \E p \in G : p.sLo <= T.maxobs /\ T.maxobs <= p.sHi
         mK == \E p \in G : p.kf /\ p.cLo <= T.maxobs /\ T.maxobs <= p.cHi
     IN /\ diag' = Name(~T.hang, "execute-did-not-return") \cup
                   Name(F # {}, "run-ended-without-cause") \cup
                   Name(F = {} \/ G # {}, "result-nil-iff-max-sustained") \cup
                   Name(T.ierr = T.injI, "result-carries-issuer-error") \cup
                   Name(T.lerr = T.injL, "result-carries-listener-error") \cup
                   Name(T.isnil = (~T.failed /\ ~T.ierr /\ ~T.lerr), "result-nil") \cup
                   Name(G = {} \/ mS \/ mK, "max-observed-tps") \cup
                   Name(T.live = 0, "execute-returned-before-issuers-and-listeners-stopped") \cup
                   Name(\A a \in AgentSet : a.inorder, "issued-transactions-not-registered-in-order") \cup
                   Name(\A a \in AgentSet : a.after = 0, "issuer-called-after-its-error") \cup
                   Name(\A a \in AgentSet : a.listens = 1, "listener-not-started-once") \cup
                   Name(cfg.freeze < 0 \/ G = {} \/ (\E p \in G : \A a \in AgentSet : BatchOK(a, p)), "batch-size")
        /\ ((G # {} /\ ~mS /\ mK) => PrintT(<<"KF_HIT", "stale-window-after-max-reached", l>>))
  /\ poss' = {} /\ H' = <<>>
  /\ UNCHANGED <<vars, cfg>>

TraceNext == TReset \/ TRound \/ TEnd
TraceSpec == TraceInit /\ [][TraceNext]_tvars

DiagEmpty == diag = {}
HWM      == TLCSet(1, IF TLCGet(1) > l - 1 THEN TLCGet(1) ELSE l - 1)
Accepted == PrintT(<<"TRACE_HWM", TLCGet(1)>>) /\ TLCGet(1) = N
=============================================================================
