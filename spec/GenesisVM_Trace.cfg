SPECIFICATION TraceSpec
CONSTRAINT HWM
INVARIANT DiagEmpty
POSTCONDITION Accepted
CHECK_DEADLOCK FALSE
