---------------------------- MODULE TStateView ----------------------------
(* Implementation-shaped model of state/tstate/tstate_view.go, statement   *)
(* by statement (pendingChangedKeys, allocates, writes, ops undo log,      *)
(* isUnchanged no-op detection, Rollback, Commit), run in lock step with   *)
(* the abstract KV machine.  Refinement invariants tie the two together.   *)
EXTENDS KV

VARIABLES pend,    \* [Keys -> Vals \cup {None, Unset}]   view.pendingChangedKeys
          allocs,  \* SUBSET Keys                          dom(view.allocates)
          writes,  \* SUBSET Keys                          dom(view.writes)  (chunk counts feed an unused metric)
          ops,     \* Seq([t, k, pastV, pastA, pastW])     undo log
          icps,    \* Seq(Nat)                             OpIndex() values handed out as checkpoints
          ires,    \* implementation's result of the last op
          last     \* label of the last action (output only)

ivars == <<pend, allocs, writes, ops, icps, ires, last>>
vars  == <<kvvars, ivars>>

(* getValue: pending, then block changes, then storage *)
Vis(k) == IF pend[k] # Unset THEN pend[k] ELSE Under(k)

IInit ==
  /\ KVInit
  /\ pend = [k \in Keys |-> Unset] /\ allocs = {} /\ writes = {} /\ ops = <<>> /\ icps = <<>>
  /\ ires = "init" /\ last = "init"

Op(t, k) == [t |-> t, k |-> k, pastV |-> Vis(k), pastA |-> (k \in allocs), pastW |-> (k \in writes)]

Forget(k) == /\ allocs' = allocs \ {k} /\ writes' = writes \ {k} /\ pend' = [pend EXCEPT ![k] = Unset]

IGet(k) ==
  /\ ires' = IF Has(k, NeedRead) THEN Vis(k) ELSE Denied
  /\ UNCHANGED <<pend, allocs, writes, ops, icps>>

IInsert(k, v) ==
  LET unch == (Under(k) = v)          \* isUnchanged(k, v, nexists=true)
      past == Vis(k)
  IN
  IF ~Has(k, NeedWrite) THEN ires' = Denied /\ UNCHANGED <<pend, allocs, writes, ops, icps>>
  ELSE IF past # None /\ past = v THEN ires' = "ok" /\ UNCHANGED <<pend, allocs, writes, ops, icps>>
  ELSE IF past = None /\ ~Has(k, NeedAlloc) THEN ires' = Denied /\ UNCHANGED <<pend, allocs, writes, ops, icps>>
  ELSE /\ ires' = "ok"
       /\ ops' = Append(ops, Op(IF past = None THEN "create" ELSE "insert", k))
       /\ IF unch THEN Forget(k)
          ELSE /\ pend' = [pend EXCEPT ![k] = v]
               /\ writes' = writes \cup {k}
               /\ allocs' = IF past = None THEN allocs \cup {k} ELSE allocs
       /\ UNCHANGED icps

IRemove(k) ==
  LET unch == (Under(k) = None)       \* isUnchanged(k, nil, nexists=false)
      past == Vis(k)
  IN
  IF ~Has(k, NeedWrite) THEN ires' = Denied /\ UNCHANGED <<pend, allocs, writes, ops, icps>>
  ELSE IF past = None THEN ires' = "ok" /\ UNCHANGED <<pend, allocs, writes, ops, icps>>
  ELSE /\ ires' = "ok"
       /\ ops' = Append(ops, Op("remove", k))
       /\ IF unch THEN Forget(k)
          ELSE \* the underlying value exists: record an explicit delete (also when k was re-created here)
               /\ allocs' = allocs \ {k}
               /\ writes' = writes \cup {k}
               /\ pend' = [pend EXCEPT ![k] = None]
       /\ UNCHANGED icps

(* the pre-fix Remove of the pinned commit: "delete after allocating in the same view is as if nothing happened" *)
IRemoveAsOriginallyCoded(k) ==
  LET unch == (Under(k) = None)
      past == Vis(k)
  IN
  IF ~Has(k, NeedWrite) THEN ires' = Denied /\ UNCHANGED <<pend, allocs, writes, ops, icps>>
  ELSE IF past = None THEN ires' = "ok" /\ UNCHANGED <<pend, allocs, writes, ops, icps>>
  ELSE /\ ires' = "ok"
       /\ ops' = Append(ops, Op("remove", k))
       /\ IF unch \/ k \in allocs THEN Forget(k)
          ELSE /\ allocs' = allocs
               /\ writes' = writes \cup {k}
               /\ pend' = [pend EXCEPT ![k] = None]
       /\ UNCHANGED icps

(* one step of Rollback's backwards loop *)
UndoOp(st, o) ==
  LET k == o.k IN
  CASE o.t = "create" ->
         [allocs |-> st.allocs \ {k},
          writes |-> IF o.pastW THEN st.writes \cup {k} ELSE st.writes \ {k},
          pend   |-> [st.pend EXCEPT ![k] = IF o.pastW THEN None ELSE Unset]]
    [] o.t = "insert" ->
         [allocs |-> st.allocs,
          writes |-> IF o.pastW THEN st.writes \cup {k} ELSE st.writes \ {k},
          pend   |-> [st.pend EXCEPT ![k] = IF o.pastW THEN o.pastV ELSE Unset]]
    [] o.t = "remove" ->
         [allocs |-> IF o.pastA THEN st.allocs \cup {k} ELSE st.allocs,
          writes |-> IF o.pastW THEN st.writes \cup {k} ELSE st.writes \ {k},
          pend   |-> [st.pend EXCEPT ![k] = IF o.pastW THEN o.pastV ELSE Unset]]

RECURSIVE UndoTo(_, _, _)
UndoTo(st, j, stop) == IF j <= stop THEN st ELSE UndoTo(UndoOp(st, ops[j]), j - 1, stop)

ICheckpoint ==
  /\ icps' = Append(icps, Len(ops))
  /\ ires' = "ok"
  /\ UNCHANGED <<pend, allocs, writes, ops>>

IRollback(i) ==
  LET rp == icps[i]
      st == UndoTo([allocs |-> allocs, writes |-> writes, pend |-> pend], Len(ops), rp)
  IN /\ pend' = st.pend /\ allocs' = st.allocs /\ writes' = st.writes
     /\ ops' = SubSeq(ops, 1, rp)
     /\ icps' = SubSeq(icps, 1, i)
     /\ ires' = "ok"

(* Commit copies every pending entry into the block map; the driver then opens a new view *)
ICommitted == [k \in Keys |-> IF pend[k] # Unset THEN pend[k] ELSE blk[k]]

IFresh == pend' = [k \in Keys |-> Unset] /\ allocs' = {} /\ writes' = {} /\ ops' = <<>> /\ icps' = <<>> /\ ires' = "ok"

Next ==
  \/ \E k \in Keys : /\ last' = "get"    /\ KVGet(k)    /\ IGet(k)
  \/ \E k \in Keys : /\ last' = "remove" /\ KVRemove(k) /\ IRemove(k)
  \/ \E k \in Keys, v \in Vals : last' = "insert" /\ KVInsert(k, v) /\ IInsert(k, v)
  \/ last' = "checkpoint" /\ KVCheckpoint /\ ICheckpoint
  \/ \E i \in 1..Len(cps) : last' = "rollback" /\ KVRollback(i) /\ IRollback(i)
  \/ \E s \in ScopeSpace : last' = "commit"  /\ KVCommit(s)  /\ IFresh
  \/ \E s \in ScopeSpace : last' = "discard" /\ KVDiscard(s) /\ IFresh

NextOriginal ==
  \/ \E k \in Keys : /\ last' = "get"    /\ KVGet(k)    /\ IGet(k)
  \/ \E k \in Keys : /\ last' = "remove" /\ KVRemove(k) /\ IRemoveAsOriginallyCoded(k)
  \/ \E k \in Keys, v \in Vals : last' = "insert" /\ KVInsert(k, v) /\ IInsert(k, v)
  \/ last' = "checkpoint" /\ KVCheckpoint /\ ICheckpoint
  \/ \E i \in 1..Len(cps) : last' = "rollback" /\ KVRollback(i) /\ IRollback(i)
  \/ \E s \in ScopeSpace : last' = "commit"  /\ KVCommit(s)  /\ IFresh
  \/ \E s \in ScopeSpace : last' = "discard" /\ KVDiscard(s) /\ IFresh

Spec         == IInit /\ [][Next]_vars
SpecOriginal == IInit /\ [][NextOriginal]_vars

(* ------------------------------ properties ------------------------------ *)
(* C04: every read returns the abstract value *)
Refines      == \A k \in Keys : Vis(k) = cur[k]
(* C04/C05: the implementation answers exactly what the abstract machine answers *)
SameResult   == ires = res
(* C04: commit publishes exactly the differing keys (what the code would copy = what the property demands) *)
CommitExact  == ICommitted = Published
(* C05: refused operations change nothing *)
Confined     == [][ires' = Denied => UNCHANGED <<pend, allocs, writes, ops, blk>>]_vars
(* bookkeeping sanity: a pending entry never equals the underlying value (needed for CommitExact) *)
NoRedundantPending == \A k \in Keys : pend[k] # Unset => pend[k] # Under(k)
TypeOK == KVTypeOK /\ pend \in [Keys -> Vals \cup {None, Unset}] /\ allocs \subseteq Keys /\ writes \subseteq Keys
=============================================================================
