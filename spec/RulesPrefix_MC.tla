--------------------------- MODULE RulesPrefix_MC ---------------------------
(* Design step for C39: every list of <= MaxN byte strings over Alphabet   *)
(* of length <= MaxLen (the empty string and duplicates included), built   *)
(* one entry at a time.                                                    *)
EXTENDS RulesPrefix, TLC

CONSTANTS MaxN, MaxLen, Alphabet
VARIABLE ps

Strings == UNION {[1..n -> Alphabet] : n \in 0..MaxLen}
Init == ps = <<>>
Next == Len(ps) < MaxN /\ \E s \in Strings : ps' = Append(ps, s)
Spec == Init /\ [][Next]_ps

Reverse(s) == [i \in 1..Len(s) |-> s[Len(s) + 1 - i]]

CodedIsExact        == ConflictAsCoded(ps) = Conflict(ps)
ForwardOnlyIsExact  == ConflictForwardOnly(ps) = Conflict(ps)      \* expected to fail (sensitivity)
OrderIrrelevant     == Conflict(Reverse(ps)) = Conflict(ps)
(* adding an entry never removes a conflict (checked on the step that appends) *)
Monotone            == [][Conflict(ps) => Conflict(ps')]_ps
DuplicatesConflict  == (\E i, j \in DOMAIN ps : i # j /\ ps[i] = ps[j]) => Conflict(ps)
EmptyConflictsAll   == (Len(ps) >= 2 /\ \E i \in DOMAIN ps : ps[i] = <<>>) => Conflict(ps)
NoFalsePositive     == (\A i, j \in DOMAIN ps : i # j =>
                          \E k \in 1..(IF Len(ps[i]) < Len(ps[j]) THEN Len(ps[i]) ELSE Len(ps[j])) : ps[i][k] # ps[j][k])
                       => ~Conflict(ps)
=============================================================================
