SPECIFICATION TraceSpec
CONSTANTS
  Ids <- TIds
  Decs <- TDecs
  Capacity = 256
  Variant = "code"
CONSTRAINT HWM
INVARIANTS DiagEmpty TUnique TBounded
POSTCONDITION Accepted
CHECK_DEADLOCK FALSE
