-------------------------- MODULE RulesBalance_Num --------------------------
(* C34 design step on the full 64-bit range, for Apalache (symbolic,       *)
(* --length=0): b, ip, fp, nd are chosen freely by Init; the invariants    *)
(* are the round-trip theorems of RulesBalance over all uint64 balances.   *)
(* Not loaded by TLC (the literal 2^64-1 exceeds its integers).            *)
EXTENDS RulesBalance

MaxU64 == 18446744073709551615

VARIABLES
  \* @type: Int;
  b,
  \* @type: Int;
  ip,
  \* @type: Int;
  fp,
  \* @type: Int;
  nd

Init == /\ b \in 0..MaxU64
        /\ nd \in 0..Decimals
        /\ ip \in 0..MaxU64
        /\ fp \in 0..(Unit - 1) /\ fp < Pow10(nd)
        /\ ParseVal(ip, fp, nd) <= MaxU64
Next == UNCHANGED <<b, ip, fp, nd>>

RoundTripAll64   == RoundTrip(b) /\ FormatInt(b) <= 18446744073
ParseFormatAll64 == LET v == ParseVal(ip, fp, nd) IN
                      FormatInt(v) = ip /\ FormatFrac(v) = fp * Pow10(Decimals - nd)
(* sensitivity / non-vacuity: expected to be VIOLATED (reading the nine digits as eight) *)
SensEightDigits  == ParseVal(FormatInt(b), FormatFrac(b), Decimals - 1) = b
=============================================================================
