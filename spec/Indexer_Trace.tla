--------------------------- MODULE Indexer_Trace ---------------------------
(* Trace validation of executions recorded from the real api/indexer       *)
(* Indexer (pebble on disk, restart = Close + NewIndexer on the same path) *)
(* against IndexerWindow (C31).  Lines:                                    *)
(*   reset    w, H (blocks of heights 1..H exist), ntx                     *)
(*   notify   h                                                            *)
(*   restart  clean Close + NewIndexer on the same directory               *)
(*   crash    the process dies without Close: the answers are those of an  *)
(*            indexer opened on a copy of the live directory               *)
(* notify / restart carry the answers of every query after the call:       *)
(*   byh[i]   GetBlockByHeight(i)     byid[i]  GetBlock(id of block i)     *)
(*   tx[i][j] GetTransaction(id of tx j of block i)   latest GetLatestBlock *)
(* each answer is the height of the block it identifies (block bytes, tx,  *)
(* result and timestamp all equal to what was delivered), -1 for "nothing",*)
(* -2 if something else came back.                                         *)
EXTENDS IndexerWindow, TLC, Json, IOUtils, Sequences, SequencesExt

VARIABLES l, H

Trace == ndJsonDeserialize(IOEnv.TRACE)
N     == Len(Trace)
tvars == <<wvars, l, H>>

T     == Trace[l]
Ev(e) == l <= N /\ Trace[l].ev = e /\ l' = l + 1

Want(h) == IF h \in delivered' /\ h > last' - w' /\ h <= last' THEN h ELSE -1

AnswersOK ==
  /\ Len(T.byh) = H' /\ Len(T.byid) = H' /\ Len(T.tx) = H'
  /\ \A i \in 1..H' : /\ T.byh[i] = Want(i)
                      /\ T.byid[i] = Want(i)
                      /\ \A j \in DOMAIN T.tx[i] : T.tx[i][j] = Want(i)
  /\ T.latest = last'
  /\ T.unknown = -1                       \* an id / height that never existed

TraceInit ==
  /\ l = 2 /\ TLCSet(1, 1)
  /\ Trace[1].ev = "reset"
  /\ WInit(Trace[1].w) /\ H = Trace[1].H

TReset   == Ev("reset") /\ w' = T.w /\ delivered' = {} /\ last' = -1 /\ H' = T.H
TNotify  == Ev("notify") /\ WNotify(T.h) /\ H' = H /\ AnswersOK
TRestart == Ev("restart") /\ WRestart /\ H' = H /\ AnswersOK
(* every Notify that returned is durable: what survives a kill answers like the window *)
TCrash   == Ev("crash") /\ WRestart /\ H' = H /\ AnswersOK

TraceNext == TReset \/ TNotify \/ TRestart \/ TCrash
TraceSpec == TraceInit /\ [][TraceNext]_tvars

WTypeOK == w >= 1 /\ last >= -1 /\ \A h \in delivered : h <= last

HWM      == TLCSet(1, IF TLCGet(1) > l - 1 THEN TLCGet(1) ELSE l - 1)
Accepted == PrintT(<<"TRACE_HWM", TLCGet(1)>>) /\ TLCGet(1) = N
=============================================================================
