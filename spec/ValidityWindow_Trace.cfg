SPECIFICATION TraceSpec
CONSTRAINT HWM
INVARIANTS DiagEmpty NoDoubleInclusionObserved
POSTCONDITION Accepted
CHECK_DEADLOCK FALSE
