SPECIFICATION Spec
CONSTANTS
  Keys = {"a"}
  Sponsors = {"s1"}
  Vals = {"v1"}
  MaxTxs = 3
  MaxOps = 1
  StrictConflicts = TRUE
INVARIANTS EqualsSequential NoConflictingOverlap
CHECK_DEADLOCK FALSE
