---------------------------- MODULE Block_Trace ----------------------------
(* Trace validation of the real chain.Processor (drivers/chain) against the *)
(* sequential semantics of Block.tla.  Every "block" line is one call of    *)
(* Processor.Execute: the block description, the execution configuration    *)
(* (cores, fetch concurrency, auth workers, forced schedule) and everything *)
(* the call returned.  The action never blocks: each comparison that fails  *)
(* is recorded in diag, and the invariant DiagEmpty rejects the line, so a  *)
(* rejection names the clause of the property that was broken.              *)
EXTENDS Block, TLC, Json, IOUtils

VARIABLES l, st, R, lastBid, lastRoot, diag
tvars == <<l, st, R, lastBid, lastRoot, diag>>

Trace == ndJsonDeserialize(IOEnv.TRACE)
N     == Len(Trace)
T     == Trace[l]
Ev(e) == l <= N /\ Trace[l].ev = e /\ l' = l + 1

StateOf(rec) == [kv |-> rec.kv, bal |-> rec.bal, height |-> rec.height, timestamp |-> rec.timestamp]

TraceInit ==
  /\ l = 2 /\ TLCSet(1, 1)
  /\ Trace[1].ev = "reset"
  /\ st = StateOf(Trace[1].state) /\ R = Trace[1].rules
  /\ lastBid = -1 /\ lastRoot = "" /\ diag = {}

TReset == Ev("reset") /\ st' = StateOf(T.state) /\ R' = T.rules /\ lastBid' = -1 /\ lastRoot' = "" /\ diag' = {}

SameMap(f, g) == DOMAIN f = DOMAIN g /\ \A k \in DOMAIN f : f[k] = g[k]

ResultsDiag(exp, out) ==
  IF Len(out.results) # Len(exp.results) THEN {"result-count"}
  ELSE UNION {
    (IF out.results[i].ok # exp.results[i].ok THEN {"success-flag"} ELSE {}) \cup
    (IF out.results[i].outputs # exp.results[i].outputs THEN {"outputs"} ELSE {}) \cup
    (IF out.results[i].units # exp.results[i].units THEN {"units"} ELSE {}) \cup
    (IF out.results[i].fee # exp.results[i].fee THEN {"fee"} ELSE {})
    : i \in DOMAIN exp.results }

(* C07: no included transaction is charged more than its signed maximum fee. *)
ExpOverMax(exp, txs) == {i \in DOMAIN exp.results : exp.results[i].fee > txs[i].maxfee}

BlockDiag(exp, out, txs, overmax, allowed) ==
  IF out.err # "" THEN
       (IF exp.valid /\ overmax = {} THEN {"valid-block-rejected"} ELSE {}) \cup
       (IF ~exp.valid /\ out.err \notin allowed THEN {"error-class"} ELSE {})
  ELSE (IF ~exp.valid THEN {"invalid-block-accepted"} ELSE
          ResultsDiag(exp, out) \cup
          (IF ~SameMap(out.post.kv, exp.st.kv) THEN {"post-state"} ELSE {}) \cup
          (IF ~SameMap(out.post.bal, exp.st.bal) THEN {"post-balances"} ELSE {}) \cup
          (IF out.consumed # exp.consumed THEN {"units-consumed"} ELSE {}) \cup
          (IF out.prices # T.prices THEN {"unit-prices"} ELSE {}) \cup
          (IF out.post.height # exp.st.height \/ out.post.timestamp # exp.st.timestamp THEN {"metadata"} ELSE {}) \cup
          (IF \E i \in Dims : exp.consumed[i] > R.maxunits[i] THEN {"over-block-max"} ELSE {}))

(* Known findings (see KNOWN_FINDINGS.jsonl).  Each predicate delimits exactly the deviating region; the line is
   then explained by what the code does and validation continues, so any other deviation is still rejected.
   KF_C11: a child of the genesis block is checked against the genesis STATE timestamp (0) instead of the genesis
           header timestamp, so only the two timestamp-gap verdicts may differ, and only when the parent is genesis.
   KF_C07: nothing on the verification path compares the charged fee with Base.MaxFee. *)
KF_C11_genesis(prop, coded, out) ==
  /\ T.hdr.pgenesis /\ out.err = ""
  /\ prop.classes # {} /\ prop.classes \subseteq {"block-too-early", "block-too-early-empty"}
  /\ coded.valid

(* C24: keys the block may request from the parent: chain metadata, and for every transaction its declared keys
   and its sponsor's balance key *)
AllowedReads(txs) == {"meta:height", "meta:timestamp", "meta:fee"} \cup
                     UNION {DOMAIN EffDecl(txs[i]) \ {"_"} : i \in DOMAIN txs}
ReadDiag(out, txs) ==
  (IF \E i \in DOMAIN out.reads : out.reads[i] \notin AllowedReads(txs) THEN {"read-outside-declared-keys"} ELSE {})
(* a failing parent read of a key the block needs fails the block (no hang, not treated as absence) *)
FailDiag(out, txs, fk) ==
  IF fk = "" \/ fk \notin AllowedReads(txs) THEN {}
  ELSE IF out.err = "" THEN {"failed-read-ignored"} ELSE {}

TBlock ==
  /\ Ev("block")
  /\ LET prop  == RunBlock(st, T.hdr, T.txs, T.prices, R)
         coded == RunBlockAsCoded(st, T.hdr, T.txs, T.prices, R)
         kf11  == KF_C11_genesis(prop, coded, T.out)
         exp   == IF kf11 THEN coded ELSE prop
         om    == IF exp.valid THEN ExpOverMax(exp, T.txs) ELSE {}
         d0    == BlockDiag(exp, T.out, T.txs, om, prop.allowed \cup coded.allowed)
         d1    == IF T.out.err = "" /\ T.bid = lastBid /\ T.out.root # lastRoot THEN {"root-differs-between-runs"} ELSE {}
         fk    == T.failkey
         needed == fk # "" /\ fk \in AllowedReads(T.txs)
         d2    == ReadDiag(T.out, T.txs) \cup FailDiag(T.out, T.txs, fk)
     IN /\ diag' = (IF needed THEN {} ELSE d0 \cup d1) \cup d2
        /\ (kf11 => PrintT(<<"KF_HIT", "C11-genesis-child-timestamp-below-genesis-header", l>>))
        /\ ((om # {} /\ T.out.err = "") => PrintT(<<"KF_HIT", "C07-fee-above-maxfee-at-verify", l>>))
        /\ st' = IF T.advance /\ T.out.err = "" THEN exp.st ELSE st
        /\ lastBid' = IF T.out.err = "" THEN T.bid ELSE lastBid
        /\ lastRoot' = IF T.out.err = "" THEN T.out.root ELSE lastRoot
  /\ UNCHANGED R

(* ------------------------------------------------------------------ builder and admission (C02, C07, C09, C10) *)
ResDiag(tag, exp, out) ==
  IF Len(out.results) # Len(exp.results) THEN {tag \o "result-count"}
  ELSE UNION { (IF out.results[i].ok # exp.results[i].ok THEN {tag \o "success-flag"} ELSE {}) \cup
               (IF out.results[i].outputs # exp.results[i].outputs THEN {tag \o "outputs"} ELSE {}) \cup
               (IF out.results[i].units # exp.results[i].units THEN {tag \o "units"} ELSE {}) \cup
               (IF out.results[i].fee # exp.results[i].fee THEN {tag \o "fee"} ELSE {}) : i \in DOMAIN exp.results }
PostDiag(tag, exp, out) ==
  (IF ~SameMap(out.post.kv, exp.st.kv) THEN {tag \o "post-state"} ELSE {}) \cup
  (IF ~SameMap(out.post.bal, exp.st.bal) THEN {tag \o "post-balances"} ELSE {}) \cup
  (IF out.consumed # exp.consumed THEN {tag \o "units-consumed"} ELSE {})
SeqSet(s) == {s[i] : i \in DOMAIN s}

TBuild ==
  /\ Ev("build")
  /\ IF T.builderr # ""
       THEN /\ diag' = (IF T.builderr \notin {"no-txs", "too-early"} /\ ~(T.fault /\ T.builderr = "read-error") THEN {"build-failed"} ELSE {})
            /\ UNCHANGED st
       ELSE LET exp == RunBlock(st, T.hdr, T.txs, T.prices, R)
                om  == IF exp.valid THEN ExpOverMax(exp, T.txs) ELSE {}
                \* structural faults of the built list reject the line on their own; the expected outcome of such a block
                \* is not computed (a block of several hundred transactions holding repeats is very slow to evaluate)
                struct == (IF ~(SeqSet(T.built) \subseteq SeqSet(T.poolids)) THEN {"built-tx-not-from-mempool"} ELSE {}) \cup
                          (IF Cardinality(SeqSet(T.built)) # Len(T.built) THEN {"tx-twice-in-built-block"} ELSE {}) \cup
                          (IF SeqSet(T.built) \cap SeqSet(T.ancestors) # {} THEN {"builder-included-replay"} ELSE {})
            IN IF struct # {} THEN diag' = struct /\ UNCHANGED st ELSE
               /\ diag' =
                    (IF ~exp.valid THEN {"built-block-is-invalid"} ELSE
                       ResDiag("build-", exp, T.bout) \cup PostDiag("build-", exp, T.bout) \cup
                       (IF T.vout.err # "" THEN {"verification-rejected-built-block"}
                        ELSE ResDiag("verify-", exp, T.vout) \cup PostDiag("verify-", exp, T.vout) \cup
                             (IF ~T.sameroot THEN {"post-state-root-differs"} ELSE {}) \cup
                             (IF T.vout.prices # T.bout.prices THEN {"unit-prices-differ"} ELSE {}))) \cup
                    (IF ~(SeqSet(T.built) \subseteq SeqSet(T.poolids)) THEN {"built-tx-not-from-mempool"} ELSE {}) \cup
                    (IF Cardinality(SeqSet(T.built)) # Len(T.built) THEN {"tx-twice-in-built-block"} ELSE {}) \cup
                    (IF SeqSet(T.built) \cap SeqSet(T.ancestors) # {} THEN {"builder-included-replay"} ELSE {})
               /\ (om # {} => PrintT(<<"KF_HIT", "C07-fee-above-maxfee-at-build", l>>))
               /\ st' = IF exp.valid /\ T.vout.err = "" THEN exp.st ELSE st
  /\ UNCHANGED <<R, lastBid, lastRoot>>

(* admission (PreExecutor.PreExecute reads the wall clock): the call happened between T.now and T.now + 1500 ms *)
Admissible(tx, t) == PreVerdict(tx, t, R) = ""
TAdmit ==
  /\ Ev("admit")
  /\ LET tx == T.tx
         okEarly == Admissible(tx, T.now)
         okLate  == Admissible(tx, T.now + 1500)
         reasons == (~okEarly \/ ~okLate) \/ T.repeat \/ T.fee > T.funds \/ T.fee > tx.maxfee \/ tx.badsig
     IN /\ diag' = (IF T.res = "" /\ ~okEarly /\ ~okLate THEN {"admitted-inadmissible-transaction"} ELSE {}) \cup
                   (IF T.res = "" /\ T.repeat THEN {"admitted-replay"} ELSE {}) \cup
                   (IF T.res = "" /\ T.fee > T.funds THEN {"admitted-underfunded"} ELSE {}) \cup
                   (IF T.res # "" /\ ~reasons THEN {"admissible-transaction-refused"} ELSE {})
        /\ ((T.res = "" /\ T.fee > tx.maxfee) => PrintT(<<"KF_HIT", "C07-fee-above-maxfee-at-submit", l>>))
  /\ UNCHANGED <<st, R, lastBid, lastRoot>>

(* C09 at the verification gate: a child repeating a transaction of its (accepted, in-window) parent *)
TReplay ==
  /\ Ev("replay")
  /\ diag' = (IF T.err = "" THEN {"block-repeating-ancestor-transaction-verified"} ELSE {}) \cup
              (IF T.err \notin {"", "duplicate"} /\ ~T.expired THEN {"replay-rejected-for-another-reason"} ELSE {})
  /\ UNCHANGED <<st, R, lastBid, lastRoot>>

(* C12, overflow: storage units in multiples of 2^60 (per-chunk costs T.cost, per-key costs T.keycost, paid by every
   declared key whatever its chunk suffix, 0 included); a dimension overflows uint64 exactly when its sum reaches 16
   such units; Units must then fail, otherwise report the exact sums *)
TUnitsRow ==
  /\ Ev("unitsrow")
  /\ LET tot == SumSeq(T.chunks)
         exp == [d \in 1..3 |-> tot * T.cost[d] + Len(T.chunks) * T.keycost[d]]
         over == \E d \in 1..3 : exp[d] >= 16
     IN diag' = (IF over /\ ~T.err THEN {"unit-overflow-not-rejected"} ELSE {}) \cup
                (IF ~over /\ T.err THEN {"units-rejected-without-overflow"} ELSE {}) \cup
                (IF ~over /\ ~T.err /\ \E d \in 1..3 : T.units[d] # exp[d] THEN {"units"} ELSE {})
  /\ UNCHANGED <<st, R, lastBid, lastRoot>>

TraceNext == TReset \/ TBlock \/ TBuild \/ TAdmit \/ TReplay \/ TUnitsRow
TraceSpec == TraceInit /\ [][TraceNext]_tvars

DiagEmpty == diag = {}
HWM      == TLCSet(1, IF TLCGet(1) > l - 1 THEN TLCGet(1) ELSE l - 1)
Accepted == PrintT(<<"TRACE_HWM", TLCGet(1)>>) /\ TLCGet(1) = N
=============================================================================
