SPECIFICATION TraceSpec
CONSTANTS
  KeyNames = {"ka", "kb", "kc", "kd", "ke", "EMPTY"}
  MaxCalls = 8
CONSTRAINT HWM
INVARIANTS ReadsSubsetOfDeclared
POSTCONDITION Accepted
CHECK_DEADLOCK FALSE
