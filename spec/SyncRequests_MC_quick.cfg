SPECIFICATION Spec
CONSTANTS
  Reqs = {1, 2, 4, 5}
  Send0 <- MCSend
  Variant = "code"
INVARIANTS OwnResponse SendRule
PROPERTIES Final Returns
CHECK_DEADLOCK FALSE
