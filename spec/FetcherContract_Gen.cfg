SPECIFICATION GSpec
CONSTANTS
  KeyNames = {"ka", "kb", "kc", "EMPTY"}
  MaxCalls = 3
  Depth = 20
INVARIANT Emit
CHECK_DEADLOCK FALSE
