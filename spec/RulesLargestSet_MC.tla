------------------------ MODULE RulesLargestSet_MC ------------------------
(* Design step for C33: every input of a boundary-focused domain is one    *)
(* initial state (<= MaxN vectors, two active dimensions with values       *)
(* 0..MaxV, the remaining three dimensions 0, limits 0..MaxL) and the      *)
(* postcondition is evaluated on the transcription for each of them.       *)
EXTENDS RulesLargestSet

CONSTANTS MaxN, MaxV, MaxL
VARIABLES dims, lim

Vec(a, b) == <<a, b, 0, 0, 0>>
Vecs == {Vec(a, b) : a \in 0..MaxV, b \in 0..MaxV}
Lims == {Vec(a, b) : a \in 0..MaxL, b \in 0..MaxL}

(* inputs are built one vector at a time so that TLC's workers share the enumeration *)
Init == dims = <<>> /\ lim \in Lims
Next == Len(dims) < MaxN /\ \E v \in Vecs : dims' = Append(dims, v) /\ UNCHANGED lim
Spec == Init /\ [][Next]_<<dims, lim>>

PostHolds == LET r == LargestSet(dims, lim) IN Post(dims, lim, r.idx, r.tot)
(* the pre-fix loop is wrong exactly in the delimited region, and there it breaks Post *)
OriginalDelimited ==
  LET r  == LargestSet(dims, lim)
      ro == LargestSetAsOriginallyCoded(dims, lim)
  IN  /\ (ro = r) <=> ~SkipBeforeSelected(dims, lim)
      /\ (ro # r) => ~Post(dims, lim, ro.idx, ro.tot)
OriginalPostHolds == LET ro == LargestSetAsOriginallyCoded(dims, lim) IN Post(dims, lim, ro.idx, ro.tot)
=============================================================================
