SPECIFICATION TraceSpec
CONSTANTS
  Txs <- TTxs
  Peers <- TPeers
  Self = "me"
  MaxSize <- TMaxSize
  CacheSize <- TCacheSize
  Sizes <- TSizes
  Strategy <- TStrategy
  Variant = "code"
CONSTRAINT HWM
INVARIANTS DiagEmpty NoRegossip NoEcho NeverToSelf Targeting
POSTCONDITION Accepted
CHECK_DEADLOCK FALSE
