SPECIFICATION Spec
CONSTANTS
  MaxActions = 255
  SizeClasses <- SC3
  Mode = "size"
  Original = FALSE
  MaxPerBigClass = 1
  ManyBases = FALSE
INVARIANTS EstimateCoversSize
CHECK_DEADLOCK FALSE
