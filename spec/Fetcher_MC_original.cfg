SPECIFICATION Spec
CONSTANTS
  Keys = {"a", "b"}
  NC = 2
  NW = 1
  TxCap = 2
  CallShapes <- ShapesDistinct
  Original = "flatten"
INVARIANTS TypeOK ReadsSubsetOfDeclared EachKeyReadAtMostOnce GetReturnsParentValues ErrorPropagates

CHECK_DEADLOCK TRUE
