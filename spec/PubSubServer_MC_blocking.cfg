SPECIFICATION Spec
CONSTANTS
  Conns = {"c1", "c2"}
  MaxMsg = 3
  Cap = 1
  Variant = "blocking"
INVARIANTS InOrderNoLoss Complete NeverBlocks
PROPERTIES ReportsInactive OnlySubscribers
CHECK_DEADLOCK FALSE
