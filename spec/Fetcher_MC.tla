------------------------------ MODULE Fetcher_MC ------------------------------
(* Exhaustive configurations of the fine-grained fetcher model (C24).        *)
EXTENDS Fetcher
\* every list of NC calls over transaction ids 1..NC with non-empty key sets, where a repeated id repeats the keys
ShapesAll == {f \in [Calls -> [tx : 1..NC, keys : (SUBSET Keys) \ {{}}]] :
                /\ \A a, b \in Calls : f[a].tx = f[b].tx => f[a].keys = f[b].keys
                /\ \A c \in Calls : f[c].tx <= c}
\* no repeated ids
ShapesDistinct == {f \in ShapesAll : \A a, b \in Calls : a # b => f[a].tx # f[b].tx}
=============================================================================
