--------------------------- MODULE DSMRNodeChain ---------------------------
(* x/dsmr/node.go BuildBlock / Verify / Accept over the chunk-certificate validity window                 *)
(* (internal/validitywindow/validitywindow.go) and the pending certificates of the chunk storage (C37).   *)
(*                                                                                                         *)
(* Blocks carry a sequence of certificate names; exp[c] is the expiry of certificate c, win the validity  *)
(* window.  blocks is the index of verified blocks (plus genesis "g"); seen / lah are the window's        *)
(* accepted-certificate set and lastAcceptedBlockHeight; stored / smin the storage's pending certificates *)
(* and minimum; delivered the chunks handed out by Accept.                                                 *)
(* VerifyResult(b, TRUE) models the repaired Verify (fixes/C37-*.patch: certificate expiry is checked     *)
(* against the block timestamp), VerifyResult(b, FALSE) what the code did before.                         *)
(* The property (MustReject / NoChunkTwice / NoExpiredRef / BuilderClean / DeliveredOnce) is stated       *)
(* separately from the actions.                                                                            *)
EXTENDS Integers, Sequences, FiniteSets, TLC

CONSTANTS Certs

VARIABLES exp, win,                 \* configuration, fixed within a scenario
          blocks, lastAcc, seen, lah, stored, smin, delivered, built, res

cvars == <<exp, win, blocks, lastAcc, seen, lah, stored, smin, delivered, built, res>>

Genesis == [parent |-> "none", h |-> 0, ts |-> 0, certs |-> <<>>]
NoBlock == [parent |-> "none", h |-> 0, ts |-> 0, certs |-> <<>>]

SeqSet(s) == {s[i] : i \in DOMAIN s}
HasDup(s) == \E i, j \in DOMAIN s : i < j /\ s[i] = s[j]

ChainInit(e, w) ==
  /\ exp = e /\ win = w
  /\ blocks = [x \in {"g"} |-> Genesis]
  /\ lastAcc = "g" /\ seen = {} /\ lah = 0
  /\ stored = {} /\ smin = 0 /\ delivered = <<>> /\ built = NoBlock /\ res = "init"

RECURSIVE Path(_)          \* ids from x down to genesis
Path(x) == IF x = "g" THEN {"g"} ELSE {x} \cup Path(blocks[x].parent)
RECURSIVE ChainCerts(_)    \* every certificate referenced by x or an ancestor
ChainCerts(x) == IF x = "g" THEN {} ELSE SeqSet(blocks[x].certs) \cup ChainCerts(blocks[x].parent)

-----------------------------------------------------------------------------
(* the statement: which blocks verification must reject / the builder must not produce *)
RefsTwice(b)    == HasDup(b.certs)
RefsAncestor(b) == SeqSet(b.certs) \cap ChainCerts(b.parent) # {}
RefsExpired(b)  == \E c \in SeqSet(b.certs) : exp[c] < b.ts
MustReject(b)   == RefsTwice(b) \/ RefsAncestor(b) \/ RefsExpired(b)

-----------------------------------------------------------------------------
(* validity window, as coded *)
Oldest(ts) == IF ts - win > 0 THEN ts - win ELSE 0

RECURSIVE Repeats(_, _, _)   \* isRepeat: walk from ancestor a, certificates of cs that were found
Repeats(a, oldest, cs) ==
  IF blocks[a].ts < oldest THEN {}
  ELSE IF blocks[a].h <= lah \/ blocks[a].h = 0 THEN cs \cap seen
  ELSE (cs \cap SeqSet(blocks[a].certs)) \cup Repeats(blocks[a].parent, oldest, cs)

VerifyResult(b, fixed) ==
  IF b.parent \notin DOMAIN blocks THEN "parent"
  ELSE LET p == blocks[b.parent] IN
    IF b.h # p.h + 1 THEN "height"
    ELSE IF b.ts <= p.ts THEN "timestamp"
    ELSE IF Len(b.certs) = 0 THEN "empty"
    ELSE IF b.h > lah /\ HasDup(b.certs) THEN "duplicate"
    ELSE IF b.h > lah /\ Repeats(b.parent, Oldest(b.ts), SeqSet(b.certs)) # {} THEN "duplicate"
    ELSE IF fixed /\ (\E c \in SeqSet(b.certs) : exp[c] < b.ts) THEN "expired"
    ELSE IF fixed /\ (\E c \in SeqSet(b.certs) : exp[c] > b.ts + win) THEN "future"
    ELSE "ok"

(* Node.Verify; a verified block enters the index under the name id *)
Verify(id, b, fixed) ==
  /\ id \notin DOMAIN blocks
  /\ res' = VerifyResult(b, fixed)
  /\ blocks' = IF res' = "ok" THEN [x \in DOMAIN blocks \cup {id} |-> IF x = id THEN b ELSE blocks[x]] ELSE blocks
  /\ UNCHANGED <<exp, win, lastAcc, seen, lah, stored, smin, delivered, built>>

(* Node.Accept of a verified child of the last accepted block; chunks = what the call returned.          *)
(* Consensus drops the siblings of an accepted block together with their descendants.                     *)
Accept(id, chunks) ==
  /\ id \in DOMAIN blocks /\ id # "g" /\ blocks[id].parent = lastAcc
  /\ LET b == blocks[id] IN
     /\ seen' = {c \in seen : exp[c] >= b.ts} \cup {c \in SeqSet(b.certs) : exp[c] # 0}
     /\ lah' = b.h /\ lastAcc' = id
     /\ stored' = {c \in stored \ SeqSet(b.certs) : exp[c] >= b.ts}
     /\ smin' = b.ts
     /\ delivered' = delivered \o chunks
     /\ blocks' = [x \in {y \in DOMAIN blocks : id \in Path(y) \/ y \in Path(id)} |-> blocks[x]]
  /\ built' = IF built.parent \in DOMAIN blocks' THEN built ELSE NoBlock      \* a block built on a dropped tip is void
  /\ res' = "ok"
  /\ UNCHANGED <<exp, win>>

(* Node.BuildBlock(parent, ts); order(S) = the order in which the certificates of S are listed *)
BuildAvail(parent, ts) == {c \in stored : exp[c] >= ts /\ c \notin Repeats(parent, Oldest(ts), stored)}
Build(parent, ts, order(_)) ==
  /\ parent \in DOMAIN blocks /\ ts > blocks[parent].ts
  /\ LET avail == BuildAvail(parent, ts) IN
       IF avail = {} THEN built' = NoBlock /\ res' = "nocerts"
       ELSE /\ built' = [parent |-> parent, h |-> blocks[parent].h + 1, ts |-> ts, certs |-> order(avail)]
            /\ res' = "ok"
  /\ UNCHANGED <<exp, win, blocks, lastAcc, seen, lah, stored, smin, delivered>>

(* a chunk with its certificate reaches the pending storage (BuildChunk, or signature request + gossip) *)
AddCert(c) ==
  /\ stored' = stored \cup {c} /\ res' = "ok"
  /\ UNCHANGED <<exp, win, blocks, lastAcc, seen, lah, smin, delivered, built>>

-----------------------------------------------------------------------------
(* C37 as state invariants *)
RECURSIVE CertSeq(_)
CertSeq(x) == IF x = "g" THEN <<>> ELSE CertSeq(blocks[x].parent) \o blocks[x].certs
NoChunkTwice  == \A x \in DOMAIN blocks : ~HasDup(CertSeq(x))
NoExpiredRef  == \A x \in DOMAIN blocks : \A c \in SeqSet(blocks[x].certs) : exp[c] >= blocks[x].ts
BuilderClean  == built = NoBlock \/ ~MustReject(built)
DeliveredOnce == ~HasDup(delivered)
ChainTypeOK ==
  /\ lastAcc \in DOMAIN blocks /\ seen \subseteq Certs /\ stored \subseteq Certs
  /\ \A x \in DOMAIN blocks : x = "g" \/ blocks[x].parent \in DOMAIN blocks
=============================================================================
