SPECIFICATION MCSpec
CONSTANTS
  Sponsors = {"s1", "s2"}
  Txs = {"t1", "t2", "t3"}
  SponsorOf <- Sp3
  SizeOf <- Sz3
  Rates = {0, 1}
  FailRates = {1}
  Maxes = {0, 2, 3}
  Stamps = {2, 4}
  ExpChoices <- OneExp
  MaxChunk = 2
  FixedCode = TRUE
  LateTrack = TRUE
  AtomicUnbond = TRUE
INVARIANTS TypeOK PendingIsSumOfUnsettled ZeroWhenSettled WithinMax RecordMatchesOpen OpenWillBeReleased
CHECK_DEADLOCK FALSE
