------------------------------ MODULE Bond_MC ------------------------------
(* bounded configurations for the design step of C38 *)
EXTENDS Bond
CONSTANTS Rates, FailRates, Maxes, Stamps, ExpChoices, MaxChunk, SponsorOf, SizeOf

Infos  == {[t \in Txs |-> [sp |-> SponsorOf[t], size |-> SizeOf[t], exp |-> e[t]]] : e \in ExpChoices}
Chunks == UNION {[1..n -> Txs] : n \in 1..MaxChunk}

MCInit == \E i \in Infos, m \in [Sponsors -> Maxes] : Init(i, m)
MCNext ==
  \/ \E txs \in Chunks, r \in Rates : BuildChunk(txs, r, Len(txs), FALSE, 0)
  \/ \E txs \in Chunks, r \in FailRates : BuildChunk(txs, r, Len(txs), TRUE, 0)              \* inner build fails
  \/ \E txs \in Chunks, r \in FailRates : \E cut \in 0..(Len(txs) - 1) : BuildChunk(txs, r, cut, FALSE, 0)  \* Bond errors
  \/ \E txs \in Chunks, r \in FailRates : \E c \in 1..Len(txs) : BuildChunk(txs, r, Len(txs), FALSE, c)   \* crash + retry in Bond
  \/ \E ts \in Stamps, incl \in SUBSET Txs : Accept(ts, incl, "none")
  \/ \E ts \in Stamps, c \in Txs : Accept(ts, {}, c) \/ Accept(ts, {c}, c)                     \* crash + retry in Unbond
  \/ \E s \in Sponsors, m \in Maxes : SetMax(s, m)
MCSpec == MCInit /\ [][MCNext]_vars

(* 3 txs: t1,t2 of sponsor s1 (sizes 1,2), t3 of s2 *)
Sp3 == [t \in {"t1", "t2", "t3"} |-> IF t = "t3" THEN "s2" ELSE "s1"]
Sz3 == [t \in {"t1", "t2", "t3"} |-> IF t = "t2" THEN 2 ELSE 1]
(* 4 txs: t1,t2,t4 of s1 (sizes 1,2,3), t3 of s2 *)
Sp4 == [t \in {"t1", "t2", "t3", "t4"} |-> IF t = "t3" THEN "s2" ELSE "s1"]
Sz4 == [t \in {"t1", "t2", "t3", "t4"} |-> CASE t = "t2" -> 2 [] t = "t4" -> 3 [] OTHER -> 1]
AllExp == [Txs -> {1, 3}]
OneExp == {[t \in Txs |-> IF t = "t2" THEN 3 ELSE 1]}
=============================================================================
