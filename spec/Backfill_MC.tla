---------------------------- MODULE Backfill_MC ----------------------------
(* design step for C22: every timestamp assignment of a chain of N+1 blocks, every starting point, every *)
(* interleaving of honest and (at most MaxFaults) faulty responses with the syncer goroutine.            *)
EXTENDS Backfill
CONSTANTS NC, NF, WinC, MaxFaults
Init == InitWith(NC, NF, WinC)
MCNext == ClientCheck \/ RoundStart \/ HonestRound \/ (faults < MaxFaults /\ FaultyRound) \/ Save \/ SignalDone \/ Forward
MCSpec == Init /\ [][MCNext]_vars
               /\ WF_vars(ClientCheck) /\ WF_vars(RoundStart) /\ WF_vars(HonestRound) /\ WF_vars(Save) /\ WF_vars(SignalDone)
(* backfill completes once the peers serve the real ancestry (faulty rounds are finite) *)
Completes == <>sdone
(* and it has completed as soon as nothing is left to fetch and the channel is drained *)
DoneWhenNothingLeft == (NothingLeftToFetch /\ Len(saved) = Len(delivered)) ~> sdone
=============================================================================
