SPECIFICATION Spec
CONSTANTS
  MaxT = 6
  Cap = 2
  Gaps = {0, 2}
  MinGap = 1
  Fine = FALSE
  Variant = "code"
INVARIANTS TypeOK NotEarly SingleFlight FlagBacked NoLostWakeup
PROPERTIES CoalescedIsNoOp ForceNotifies QuietAfterDone
CHECK_DEADLOCK FALSE
