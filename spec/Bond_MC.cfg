SPECIFICATION MCSpec
CONSTANTS
  Sponsors = {"s1", "s2"}
  Txs = {"t1", "t2", "t3", "t4"}
  SponsorOf <- Sp4
  SizeOf <- Sz4
  Rates = {0, 1, 2}
  Maxes = {0, 1, 2, 3, 4, 6}
  Stamps = {0, 2, 4}
  ExpChoices <- AllExp
  MaxChunk = 3
  FixedCode = TRUE
INVARIANTS TypeOK PendingIsSumOfUnsettled ZeroWhenSettled WithinMax RecordMatchesOpen OpenWillBeReleased
CHECK_DEADLOCK FALSE
