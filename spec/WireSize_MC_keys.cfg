SPECIFICATION Spec
CONSTANTS
  MaxActions = 3
  SizeClasses <- SC1
  Mode = "keys"
  Original = FALSE
  MaxPerBigClass = 0
  ManyBases = TRUE
INVARIANTS EstimateCoversStorage
CHECK_DEADLOCK FALSE
