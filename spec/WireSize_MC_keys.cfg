SPECIFICATION Spec
CONSTANTS
  MaxActions = 3
  SizeClasses <- SC1
  Mode = "keys"
  Original = FALSE
  MaxPerBigClass = 0
  ManyBases = FALSE
INVARIANTS EstimateCoversStorage
CHECK_DEADLOCK FALSE
