SPECIFICATION MCSpec
CONSTANTS
  Heights = {0, 1, 2, 3, 4, 5, 6, 7, 8, 9, 10, 11}
  Windows = {1, 2, 3, 4, 5}
  FixedCode = TRUE
  FlushEvery = 1
INVARIANTS TypeOK ServesExactlyWindow RestartStable CrashDurable ServedIsOnDisk
CHECK_DEADLOCK FALSE
