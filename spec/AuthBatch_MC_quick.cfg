SPECIFICATION Spec
CONSTANTS
  MaxTx = 4
  MaxCores = 2
  MinBatch = 2
  ItemCap = 1
  BlockingAdd = TRUE
  FlushRemainder = TRUE
INVARIANTS VerdictCorrect EverySigChecked NoSendAfterClose NotStuck
CHECK_DEADLOCK FALSE
