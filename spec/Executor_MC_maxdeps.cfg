SPECIFICATION Spec
CONSTANTS
  N = 3
  Keys = {k1}
  NW = 2
  MaxDeps = 1
  OriginalOffset = TRUE
  MaxFail = 0
  Shapes <- ShapesWriters
INVARIANTS TypeOK NoOverlap QueueOrder AtMostOnce WaitOK


CHECK_DEADLOCK TRUE
