SPECIFICATION Spec
CONSTANTS
  N = 2
  Keys = {k1}
  NW = 1
  MaxDeps = 1
  MaxFail = 0
  Shapes <- ShapesAll
INVARIANTS TypeOK NoOverlap QueueOrder AtMostOnce WaitOK


CHECK_DEADLOCK TRUE
