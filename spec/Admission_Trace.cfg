SPECIFICATION TraceSpec
CONSTANTS
  Txs = {}
  Sponsor0 = 0
  Defect0 = 0
  PoolMax0 = 0
  SponsorMax0 = 0
  Variant = "code"
CONSTRAINT HWM
INVARIANTS DiagEmpty PoolExecutable NoReplay
POSTCONDITION Accepted
CHECK_DEADLOCK FALSE
