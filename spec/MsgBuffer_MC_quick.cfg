SPECIFICATION MCSpec
CONSTANTS
  VB = 4
  Maxes = {7, 12}
  Caps = {1, 2}
  Sizes = {0, 1, 3, 4, 5, 9, 10, 12}
  MaxCalls = 3
VIEW View
INVARIANTS FIFOExactlyOnce QueueIsKept DroppedOnlyWhenFull ClosedFlushed BatchWithinMax PendingSizeExact QueueBounded
CHECK_DEADLOCK FALSE
