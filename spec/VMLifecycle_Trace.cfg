SPECIFICATION TraceSpec
CONSTANTS
  States = {"sync", "boot", "normal"}
  Names = {"a", "b", "c"}
  MaxHooks = 1000
  Variant = "code"
CONSTRAINT HWM
INVARIANTS DiagEmpty
POSTCONDITION Accepted
CHECK_DEADLOCK FALSE
