-------------------------- MODULE BuildTimer_Trace --------------------------
(* Trace validation of the real internal/builder.Time (X02) against the      *)
(* monitor of BuildTimer.tla (owed / owedLo / prev): what the engine may     *)
(* observe, not how the timer is implemented.  The code reads the wall clock,*)
(* so times are the driver's clock reads (ms since the scenario started) and *)
(* are used only as sound brackets:                                          *)
(*   - the value handed to the chain lookup lies between the reads before    *)
(*     and after the call (cbnow);  preferred = cbnow + dp exactly;          *)
(*   - a notification seen in the inbox at read t1 was sent at or before t1, *)
(*     so t1 < owedLo proves it was sent too early (never the converse);     *)
(*   - the previous notification was sent in [lqLo, lqHi].                   *)
(* Lines (every line has len0 / len1 = inbox length before / after):         *)
(*   reset {cap}                                                             *)
(*   queue {dp, gap, err, t0, t1, cb, cbnow}  Queue (or Start); cb = number  *)
(*                                            of chain lookups it made       *)
(*   force {t0, t1}     recv {got} (non-blocking engine read)                *)
(*   await {got, t0, t1} blocking engine read (30 s watchdog when owed)      *)
(*   blocked {call}     Queue / Force did not return within 30 s              *)
(*   sleep {ms}         done {t0, t1, pending} Done, then a wait past the    *)
(*                                            pending deadline               *)
(*   inner {cb}         a Queue call made from inside Mempool.Len, i.e.      *)
(*                      between the handler's send and its release of the    *)
(*                      flag (only in the re-entrancy scenarios)             *)
(* A failing clause is named in diag (INVARIANT DiagEmpty).                  *)
EXTENDS Integers, Sequences, TLC, Json, IOUtils

VARIABLES l, cap, owed, owedLo, lqLo, lqHi, swallowed, diag
tvars == <<l, cap, owed, owedLo, lqLo, lqHi, swallowed, diag>>

Trace == ndJsonDeserialize(IOEnv.TRACE)
N     == Len(Trace)
T     == Trace[l]
Ev(e) == l <= N /\ Trace[l].ev = e /\ l' = l + 1
Name(ok, n) == IF ok THEN {} ELSE {n}
Max(a, b) == IF a > b THEN a ELSE b
Min(a, b) == IF a < b THEN a ELSE b
MinGap == 25
Never  == 0 - 1000000

Fresh == owed' = FALSE /\ owedLo' = Never /\ lqLo' = Never /\ lqHi' = Never /\ swallowed' = FALSE /\ diag' = {}
TraceInit == l = 1 /\ TLCSet(1, 0) /\ cap = 1 /\ owed = FALSE /\ owedLo = Never /\ lqLo = Never /\ lqHi = Never
             /\ swallowed = FALSE /\ diag = {}
TReset == Ev("reset") /\ cap' = T.cap /\ Fresh

TQueue ==
  /\ Ev("queue") /\ UNCHANGED <<cap, swallowed>>
  /\ IF owed THEN        \* T2: a pending notification makes Queue a no-op
          /\ diag' = Name(T.cb = 0, "pending-queue-consulted-the-chain") \cup
                     Name(T.len1 = T.len0, "pending-queue-notified")
          /\ UNCHANGED <<owed, owedLo, lqLo, lqHi>>
     ELSE IF T.cb # 1 THEN   \* T3: nothing pending, so the call must be effective
          /\ diag' = {"queue-swallowed-with-nothing-pending"}
          /\ UNCHANGED <<owed, owedLo, lqLo, lqHi>>
     ELSE IF T.err THEN
          /\ diag' = Name(T.len1 = T.len0, "notified-despite-failed-lookup") \cup
                     Name(T.t0 <= T.cbnow /\ T.cbnow <= T.t1, "clock-handed-to-lookup")
          /\ UNCHANGED <<owed, owedLo, lqLo, lqHi>>
     ELSE LET target == T.cbnow + T.dp + T.gap
              lo     == Max(lqLo + MinGap, target)            \* earliest legal delivery
              dueHi  == Max(lqHi + MinGap, target) < T.cbnow  \* certainly due at the time of the call
              clock  == Name(T.t0 <= T.cbnow /\ T.cbnow <= T.t1, "clock-handed-to-lookup")
          IN IF T.len1 = T.len0 + 1 THEN                       \* delivered before the call returned
                  /\ diag' = clock \cup Name(T.t1 >= lo, "notified-too-early")
                  /\ owed' = FALSE /\ owedLo' = lo /\ lqLo' = Max(T.cbnow, lo) /\ lqHi' = T.t1
             ELSE IF T.len1 # T.len0 THEN
                  /\ diag' = {"inbox-count"} /\ UNCHANGED <<owed, owedLo, lqLo, lqHi>>
             ELSE IF T.len0 = cap THEN                         \* full inbox: a due notification is dropped (no block)
                  /\ diag' = clock \cup Name(dueHi, "harness-full-inbox-not-certainly-due")
                  /\ UNCHANGED <<owed, owedLo, lqLo, lqHi>>
             ELSE /\ diag' = clock
                  /\ owed' = TRUE /\ owedLo' = lo /\ UNCHANGED <<lqLo, lqHi>>

TAwait ==
  /\ Ev("await") /\ UNCHANGED <<cap, swallowed>>
  /\ IF owed THEN
          /\ diag' = Name(T.got, "owed-notification-never-arrived") \cup Name(T.len0 = 0, "harness-await-on-nonempty-inbox") \cup
                     Name(~T.got \/ T.t1 >= owedLo, "notified-too-early")
          /\ owed' = FALSE /\ lqLo' = owedLo /\ lqHi' = T.t1 /\ UNCHANGED owedLo
     ELSE /\ diag' = Name(~T.got \/ swallowed, "spurious-notification")
          /\ UNCHANGED <<owed, owedLo, lqLo, lqHi>>

TForce ==
  /\ Ev("force") /\ UNCHANGED <<cap, owed, owedLo, swallowed>>
  /\ diag' = Name(T.len1 = Min(T.len0 + 1, cap), "force-did-not-notify")
  /\ IF T.len0 < cap THEN lqLo' = T.t0 /\ lqHi' = T.t1 ELSE UNCHANGED <<lqLo, lqHi>>

TRecv ==
  /\ Ev("recv") /\ UNCHANGED <<cap, owed, owedLo, lqLo, lqHi, swallowed>>
  /\ diag' = Name(T.got = (T.len0 > 0) /\ T.len1 = T.len0 - (IF T.got THEN 1 ELSE 0), "inbox-count")

TSleep ==
  /\ Ev("sleep") /\ UNCHANGED <<cap, owed, owedLo, lqLo, lqHi, swallowed>>
  /\ diag' = Name(owed \/ T.len1 = T.len0, "spurious-notification")

TDone ==     \* T4: nothing is delivered after Done returned
  /\ Ev("done") /\ UNCHANGED <<cap, owedLo, lqLo, lqHi, swallowed>>
  /\ owed' = FALSE
  /\ diag' = Name(T.len1 = T.len0, "notified-after-done")

(* Queue / Force did not return within the watchdog although nobody reads the inbox: they must never block *)
TBlocked == Ev("blocked") /\ UNCHANGED <<cap, owed, owedLo, lqLo, lqHi, swallowed>> /\ diag' = {"call-blocked"}

(* re-entrancy scenarios: the inner call is made while the flag is still held although the notification has already
   been sent; the monitor says nothing is owed, so by T3 the call should be effective.  What the code does is recorded
   (KF_X02_swallowed) and validation continues. *)
KF_X02_swallowed == ~owed /\ T.cb = 0
TInner ==
  /\ Ev("inner") /\ UNCHANGED <<cap, owed, owedLo, lqLo, lqHi>>
  /\ swallowed' = KF_X02_swallowed
  /\ IF KF_X02_swallowed THEN PrintT(<<"KF_HIT", "queue-swallowed-between-send-and-flag-release", l>>) ELSE TRUE
  /\ diag' = {}

TraceNext == TBlocked \/ TReset \/ TQueue \/ TAwait \/ TForce \/ TRecv \/ TSleep \/ TDone \/ TInner
TraceSpec == TraceInit /\ [][TraceNext]_tvars

DiagEmpty == diag = {}
HWM      == TLCSet(1, IF TLCGet(1) > l - 1 THEN TLCGet(1) ELSE l - 1)
Accepted == PrintT(<<"TRACE_HWM", TLCGet(1)>>) /\ TLCGet(1) = N
=============================================================================
