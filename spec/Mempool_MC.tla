----------------------------- MODULE Mempool_MC -----------------------------
(* Bounded configuration of Mempool for the design step: every sequence of   *)
(* calls over 4 items (2 sponsors, sizes 1-2, expiries 1-3), item limits     *)
(* 1..3, sponsor limits 1..3 (includes sponsor limit = total limit).         *)
EXTENDS Mempool, TLC
CONSTANT MaxVisits    \* longest Top pass explored (1 or 2)

MCAttrs == {[i \in Items |->
              CASE i = "t1" -> [sp |-> "A", sz |-> 1, ex |-> 1]
                [] i = "t2" -> [sp |-> "A", sz |-> 2, ex |-> 2]
                [] i = "t3" -> [sp |-> "B", sz |-> 1, ex |-> 2]
                [] OTHER    -> [sp |-> "B", sz |-> 2, ex |-> 3]]}

Seqs12(S) == {<<a>> : a \in S} \cup {q \in {<<a, b>> : a \in S, b \in S} : q[1] # q[2]}
Handed    == streamed \ (nextR \cup SeqSet(nextF))      \* items actually given to the builder in this stream
Ks        == 1 .. 2
Visit     == [i : Items, restore : BOOLEAN]
VisitSeqs == {<<>>} \cup {<<a>> : a \in Visit}
             \cup (IF MaxVisits >= 2 THEN {q \in {<<a, b>> : a \in Visit, b \in Visit} : q[1].i # q[2].i} ELSE {})
Ts        == 0 .. 4

Next ==
  \/ \E q \in Seqs12(Items), S \in SUBSET Items : Add(q, S)
  \/ \E q \in Seqs12(Items) : Remove(q)
  \/ \E t \in Ts : SetMin(t)
  \/ \E RS \in SUBSET rest : PopNext(RS)
  \/ \E i \in Items : Has(i)
  \/ \E v \in VisitSeqs, stopped \in BOOLEAN : \E S \in SUBSET {v[k].i : k \in DOMAIN v} : Top(v, stopped, S)
  \/ StartStreaming
  \/ \E k \in Ks, RS \in SUBSET rest : PrepareStream(k, RS)
  \/ \E k \in Ks, RS \in (SUBSET rest) \cup {nextR} : Stream(k, RS)
  \/ \E q \in {<<>>} \cup Seqs12(Handed), S \in SUBSET Items : FinishStreaming(q, S)

Spec == Init /\ [][Next]_mvars

ExpiryProp  == [][\A t \in Ts : SetMin(t) => ExpiryExact(t)]_mvars
(* a hand-out never returns an item that is not in the pool, restored items go first, the rest in arrival order *)
HandOutProp == [][\A k \in Ks, RS \in SUBSET Items : (Stream(k, RS) /\ ~fetched) =>
                     /\ res'.R \subseteq rest /\ (res'.F # <<>> => res'.R = rest)
                     /\ res'.F = SubSeq(fifo, 1, Len(res'.F))]_mvars
=============================================================================
