------------------------------- MODULE Block -------------------------------
(* Sequential reference semantics of block execution (chain/processor.go,   *)
(* chain/transaction.go) over an abstract state:                            *)
(*   st = [kv : key -> value | "none", bal : account -> Int (-1 = absent),  *)
(*         height, timestamp]                                               *)
(* A transaction is [sponsor, decl (key -> permission letters), chunks,     *)
(* actions (each a script of get/put/del/fail), size, authunits, maxfee,    *)
(* expiry, badsig, wrongcid, authfrom, authto]; an action additionally has  *)
(* compute, start, end.  Properties C01 C03 C05 C07 C10 C11 C12 are stated  *)
(* against RunBlock / the verdict operators below; Block_Trace.tla binds    *)
(* the real chain.Processor to them, BlockPar.tla is the parallel design.   *)
EXTENDS Integers, Sequences, FiniteSets, TLC

Set(s)  == {s[i] : i \in DOMAIN s}
None    == "none"
Dims    == 1..5
Zero5   == <<0, 0, 0, 0, 0>>
Add5(a, b) == [i \in Dims |-> a[i] + b[i]]

RECURSIVE SumSeq(_)
SumSeq(s) == IF s = <<>> THEN 0 ELSE Head(s) + SumSeq(Tail(s))

(* ---------------------------------------------------------------- C05 / C04: one view op *)
(* decl maps a key to the SET of permission letters declared for it *)
Has(decl, k, need) == k \in DOMAIN decl /\ need \subseteq decl[k]

(* C05: a transaction's scope is the union of its actions' declarations and its sponsor's balance key (read+write) *)
EffDecl(tx) ==
  LET sk == "bal:" \o tx.sponsor IN
  [k \in DOMAIN tx.decl \cup {sk} |->
      (IF k \in DOMAIN tx.decl THEN Set(tx.decl[k]) ELSE {}) \cup (IF k = sk THEN {"r", "w"} ELSE {})]

ApplyOp(view, bal, decl, op) ==
  LET fail == [ok |-> FALSE, view |-> view, out |-> <<>>] IN
  CASE op.op = "getbal" -> \* read an account's balance key (declared as "bal:<account>"): shows the fee was debited first
                          IF Has(decl, "bal:" \o op.k, {"r"}) THEN [ok |-> TRUE, view |-> view, out |-> <<"b:" \o ToString(bal[op.k])>>] ELSE fail
    [] op.op = "get" -> IF Has(decl, op.k, {"r"}) THEN [ok |-> TRUE, view |-> view, out |-> <<view[op.k]>>] ELSE fail
    [] op.op = "put" -> IF Has(decl, op.k, {"r", "w"}) /\ (view[op.k] = None => Has(decl, op.k, {"r", "a"}))
                          THEN [ok |-> TRUE, view |-> [view EXCEPT ![op.k] = op.v], out |-> <<>>] ELSE fail
    [] op.op = "del" -> IF Has(decl, op.k, {"r", "w"})
                          THEN [ok |-> TRUE, view |-> [view EXCEPT ![op.k] = None], out |-> <<>>] ELSE fail
    [] OTHER -> fail          \* "fail": the action returns an error

RECURSIVE RunOps(_, _, _, _, _)
RunOps(view, bal, decl, ops, reads) ==
  IF ops = <<>> THEN [ok |-> TRUE, view |-> view, reads |-> reads]
  ELSE LET r == ApplyOp(view, bal, decl, Head(ops)) IN
       IF r.ok THEN RunOps(r.view, bal, decl, Tail(ops), reads \o r.out)
       ELSE [ok |-> FALSE, view |-> view, reads |-> reads]

(* C03: all-or-nothing fold of the actions; outputs of the actions that ran *)
RECURSIVE RunActions(_, _, _, _, _)
RunActions(view, bal, decl, actions, outs) ==
  IF actions = <<>> THEN [ok |-> TRUE, view |-> view, outs |-> outs]
  ELSE LET r == RunOps(view, bal, decl, Head(actions).ops, <<"|">>) IN
       IF r.ok THEN RunActions(r.view, bal, decl, Tail(actions), Append(outs, r.reads))
       ELSE [ok |-> FALSE, view |-> view, outs |-> outs]

(* ---------------------------------------------------------------- C12: units *)
RECURSIVE SumOver(_, _)
SumOver(S, f) == IF S = {} THEN 0 ELSE LET x == CHOOSE y \in S : TRUE IN f[x] + SumOver(S \ {x}, f)

(* declared keys (without the placeholder "_") plus the sponsor's balance key (1 chunk) *)
DeclKeys(tx) == (DOMAIN tx.decl \ {"_"}) \cup {"bal:" \o tx.sponsor}
ChunksOf(tx, k) == IF k \in DOMAIN tx.chunks THEN tx.chunks[k] ELSE 1
KeyCost(tx, perKey, perChunk) ==
  SumOver(DeclKeys(tx), [k \in DeclKeys(tx) |-> perKey + ChunksOf(tx, k) * perChunk])

ComputeUnits(tx, R) == R.basecompute + SumSeq([i \in DOMAIN tx.actions |-> tx.actions[i].compute]) + tx.authunits

Units(tx, R) == <<tx.size, ComputeUnits(tx, R),
                  KeyCost(tx, R.keyread, R.valread), KeyCost(tx, R.keyalloc, R.valalloc),
                  KeyCost(tx, R.keywrite, R.valwrite)>>

Fee(units, prices) == SumSeq([i \in Dims |-> units[i] * prices[i]])

Fits(consumed, units, max) == \A i \in Dims : consumed[i] + units[i] <= max[i]

(* ---------------------------------------------------------------- C10: pre-execution verdict *)
(* first failing check of Base.Execute + Transaction.PreExecute, "" when executable at block time ts *)
PreVerdict(tx, ts, R) ==
  IF tx.wrongcid THEN "chainid"
  ELSE IF tx.expiry % 1000 # 0 THEN "expiry-misaligned"
  ELSE IF tx.expiry < ts THEN "expired"
  ELSE IF tx.expiry > ts + R.window THEN "expiry-future"
  ELSE IF Len(tx.actions) > R.maxactions THEN "too-many-actions"
  ELSE IF \E i \in DOMAIN tx.actions :
            \/ (tx.actions[i].start >= 0 /\ ts < tx.actions[i].start)
            \/ (tx.actions[i].end >= 0 /\ ts > tx.actions[i].end) THEN "action-not-activated"
  ELSE IF (tx.authfrom >= 0 /\ ts < tx.authfrom) \/ (tx.authto >= 0 /\ ts > tx.authto) THEN "auth-not-activated"
  ELSE ""

(* every reason for which tx is not executable at ts: the statement fixes WHETHER a transaction is executable, not which
   of several applicable reasons an implementation reports first (the order of independent checks is free) *)
PreVerdictSet(tx, ts, R) ==
     (IF tx.wrongcid THEN {"chainid"} ELSE {})
  \cup (IF tx.expiry % 1000 # 0 THEN {"expiry-misaligned"} ELSE {})
  \cup (IF tx.expiry < ts THEN {"expired"} ELSE {})
  \cup (IF tx.expiry > ts + R.window THEN {"expiry-future"} ELSE {})
  \cup (IF Len(tx.actions) > R.maxactions THEN {"too-many-actions"} ELSE {})
  \cup (IF \E i \in DOMAIN tx.actions :
            \/ (tx.actions[i].start >= 0 /\ ts < tx.actions[i].start)
            \/ (tx.actions[i].end >= 0 /\ ts > tx.actions[i].end) THEN {"action-not-activated"} ELSE {})
  \cup (IF (tx.authfrom >= 0 /\ ts < tx.authfrom) \/ (tx.authto >= 0 /\ ts > tx.authto) THEN {"auth-not-activated"} ELSE {})

(* ---------------------------------------------------------------- C03: one transaction *)
RunTx(st, tx, prices, R, ts) ==
  LET units == Units(tx, R)
      fee   == Fee(units, prices)
      pre   == PreVerdict(tx, ts, R)
  IN
  IF pre # "" THEN [err |-> pre, st |-> st]
  ELSE IF st.bal[tx.sponsor] < fee THEN [err |-> "insufficient", st |-> st]
  ELSE LET paid == [st EXCEPT !.bal[tx.sponsor] = @ - fee]
           r    == RunActions(st.kv, paid.bal, EffDecl(tx), tx.actions, <<>>)
       IN [err |-> "",
           st  |-> IF r.ok THEN [paid EXCEPT !.kv = r.view] ELSE paid,
           res |-> [ok |-> r.ok, outputs |-> r.outs, units |-> units, fee |-> fee]]

(* ---------------------------------------------------------------- C11: header verdicts *)
(* pd = block timestamp minus the parent's timestamp.  The property speaks about the parent BLOCK's timestamp
   (hdr.pdelta); the code reads the parent timestamp from parent STATE (hdr.ts - st.timestamp).  The two differ
   only for children of the genesis block, whose header carries 2023-01-01 while its state records 0. *)
HeaderVerdicts(st, hdr, ntxs, R, pd) ==
     (IF hdr.height # st.height + 1 THEN {"height"} ELSE {})
  \cup (IF pd < R.mingap THEN {"block-too-early"} ELSE {})
  \cup (IF ntxs = 0 /\ pd < R.minemptygap THEN {"block-too-early-empty"} ELSE {})
  \cup (IF hdr.toolate THEN {"block-too-late"} ELSE {})
  \cup (IF ~hdr.rootok THEN {"root"} ELSE {})

(* ---------------------------------------------------------------- the block fold *)
RECURSIVE Fold(_, _, _, _, _, _, _, _)
Fold(st, txs, i, prices, R, ts, results, consumed) ==
  IF i > Len(txs) THEN [err |-> "", st |-> st, results |-> results, consumed |-> consumed]
  ELSE LET r == RunTx(st, txs[i], prices, R, ts) IN
       IF r.err # "" THEN [err |-> r.err, st |-> st, results |-> results, consumed |-> consumed]
       ELSE Fold(r.st, txs, i + 1, prices, R, ts, Append(results, r.res), Add5(consumed, r.res.units))

(* does the running sum of units exceed the block maximum at some transaction? (checked before execution) *)
RECURSIVE UnitsOverflow(_, _, _, _, _)
UnitsOverflow(txs, i, R, max, consumed) ==
  IF i > Len(txs) THEN FALSE
  ELSE LET u == Units(txs[i], R) IN
       IF ~Fits(consumed, u, max) THEN TRUE ELSE UnitsOverflow(txs, i + 1, R, max, Add5(consumed, u))

(* Expected outcome of verifying block [hdr, txs] on state st with the block's unit prices *)
RunBlockWith(st, hdr, txs, prices, R, pd) ==
  LET hv   == HeaderVerdicts(st, hdr, Len(txs), R, pd)
      over == UnitsOverflow(txs, 1, R, R.maxunits, Zero5)
      f    == Fold(st, txs, 1, prices, R, hdr.ts, <<>>, Zero5)
      sig  == \E i \in DOMAIN txs : txs[i].badsig
      static == UNION {PreVerdictSet(txs[i], hdr.ts, R) : i \in DOMAIN txs}
      classes == hv \cup (IF over THEN {"units"} ELSE {}) \cup (IF f.err # "" THEN {f.err} ELSE {})
                    \cup (IF sig THEN {"signature"} ELSE {})
  IN [valid   |-> classes = {},
      classes |-> classes,
      allowed |-> classes \cup static \cup (IF classes # {} THEN {"insufficient"} ELSE {}),
      st      |-> [f.st EXCEPT !.height = hdr.height, !.timestamp = hdr.ts],
      results |-> f.results,
      consumed |-> f.consumed]

RunBlock(st, hdr, txs, prices, R)       == RunBlockWith(st, hdr, txs, prices, R, hdr.pdelta)          \* the property
RunBlockAsCoded(st, hdr, txs, prices, R) == RunBlockWith(st, hdr, txs, prices, R, hdr.ts - st.timestamp) \* parent ts from state
=============================================================================
