------------------------------ MODULE OrderedKV -----------------------------
(* internal/pebble/pebble.go + storage/storage.go (extra module X12): the    *)
(* avalanchego database.Database wrapper around pebble, against an ordered   *)
(* map.  Keys are byte strings = sequences over 0..Top (Top stands for 0xff).*)
(*  - wrapper-shaped part: the iterator bounds the wrapper hands to pebble   *)
(*    (bytesPrefix, the start-versus-prefix rule) and Compact's limit rule,  *)
(*    as coded, with pebble's half-open [lower, upper) range semantics;      *)
(*  - abstraction: db (key -> value), a batch as a sequence of operations,   *)
(*    iterators as snapshots.                                                *)
EXTENDS Integers, Sequences, FiniteSets

CONSTANTS Keys, Vals, Top, MaxBatch,
          Variant       \* "code" | "plusone" (upper bound = prefix with its last byte + 1, no carry over Top)

NoBound == <<-1>>       \* nil

(* ---------------- byte-string order ---------------- *)
RECURSIVE Less(_, _)
Less(a, b) == IF b = <<>> THEN FALSE ELSE IF a = <<>> THEN TRUE
              ELSE IF Head(a) # Head(b) THEN Head(a) < Head(b) ELSE Less(Tail(a), Tail(b))
Leq(a, b) == a = b \/ Less(a, b)
HasPrefix(k, p) == Len(p) <= Len(k) /\ SubSeq(k, 1, Len(p)) = p

(* bytesPrefix: drop trailing Top bytes, increment the last remaining byte; nil when there is none *)
RECURSIVE PrefixLimit(_)
PrefixLimit(p) ==
  IF p = <<>> THEN NoBound
  ELSE IF Variant = "plusone" THEN [p EXCEPT ![Len(p)] = (@ + 1) % (Top + 1)]      \* a byte wraps around
  ELSE IF p[Len(p)] < Top THEN [p EXCEPT ![Len(p)] = @ + 1]
  ELSE PrefixLimit(SubSeq(p, 1, Len(p) - 1))
(* pebble: lower <= k < upper, nil = unbounded *)
InBounds(k, lower, upper) == (lower = NoBound \/ Leq(lower, k)) /\ (upper = NoBound \/ Less(k, upper))
(* the four constructors, as coded *)
ItAll(k)               == InBounds(k, NoBound, NoBound)
ItStart(k, s)          == InBounds(k, s, NoBound)
ItPrefix(k, p)         == InBounds(k, p, PrefixLimit(p))
ItStartPrefix(k, s, p) == InBounds(k, IF Less(p, s) THEN s ELSE p, PrefixLimit(p))

(* B1  the bounds select exactly the keys the constructor's name promises *)
BoundsLemma(AllKeys) ==
  \A k \in AllKeys : \A p \in AllKeys \cup {<<>>} :
    /\ ItPrefix(k, p) <=> HasPrefix(k, p)
    /\ \A s \in AllKeys \cup {<<>>} : /\ ItStartPrefix(k, s, p) <=> (HasPrefix(k, p) /\ Leq(s, k))
                                      /\ ItStart(k, s) <=> Leq(s, k)

(* ---------------- the map with batches ---------------- *)
VARIABLES db, batch, res
vars == <<db, batch, res>>

Init == db = <<>> /\ batch = <<>> /\ res = "init"
Without(f, S) == [k \in DOMAIN f \ S |-> f[k]]
With(f, k, v) == [x \in DOMAIN f \cup {k} |-> IF x = k THEN v ELSE f[x]]
ApplyOp(f, op) == IF op.kind = "put" THEN With(f, op.k, op.v) ELSE Without(f, {op.k})
RECURSIVE ApplyAll(_, _)
ApplyAll(f, ops) == IF ops = <<>> THEN f ELSE ApplyAll(ApplyOp(f, Head(ops)), Tail(ops))

Put(k, v)  == db' = With(db, k, v) /\ res' = "ok" /\ UNCHANGED batch
Delete(k)  == db' = Without(db, {k}) /\ res' = "ok" /\ UNCHANGED batch
DeleteRange(s, e) == db' = Without(db, {k \in DOMAIN db : Leq(s, k) /\ Less(k, e)}) /\ res' = "ok" /\ UNCHANGED batch
BPut(k, v) == Len(batch) < MaxBatch /\ batch' = Append(batch, [kind |-> "put", k |-> k, v |-> v]) /\ res' = "ok" /\ UNCHANGED db
BDelete(k) == Len(batch) < MaxBatch /\ batch' = Append(batch, [kind |-> "del", k |-> k, v |-> 0]) /\ res' = "ok" /\ UNCHANGED db
BWrite     == db' = ApplyAll(db, batch) /\ res' = "ok" /\ UNCHANGED batch
BReset     == batch' = <<>> /\ res' = "ok" /\ UNCHANGED db
(* Compact(start, limit): limit nil = last key; start >= limit: nothing to do; never changes the contents *)
Compact(s, e) == UNCHANGED <<db, batch>> /\ res' = "ok"

Next == \/ \E k \in Keys, v \in Vals : Put(k, v) \/ BPut(k, v)
        \/ \E k \in Keys : Delete(k) \/ BDelete(k)
        \/ \E s, e \in Keys : DeleteRange(s, e) \/ Compact(s, e)
        \/ BWrite \/ BReset
Spec == Init /\ [][Next]_vars

(* K3  a batch is invisible until written and then applies all its operations in order *)
BatchInvisible == [][(\E k \in Keys, v \in Vals : BPut(k, v)) \/ (\E k \in Keys : BDelete(k)) \/ BReset => db' = db]_vars
TypeOK == DOMAIN db \subseteq Keys /\ \A k \in DOMAIN db : db[k] \in Vals
=============================================================================
