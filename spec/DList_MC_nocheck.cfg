SPECIFICATION Spec
CONSTANTS
  MaxNodes = 4
  Variant = "nocheck"
INVARIANTS IsSequence Exclusive Detached
PROPERTIES StepOK
CHECK_DEADLOCK FALSE
