------------------------------ MODULE SnowVM_MC ------------------------------
(* Design step for C20 / C21: exhaustive exploration of SnowVM over a small   *)
(* forking block tree with small caches, every snowman-consistent engine      *)
(* schedule, asynchronous accept processing at every interleaving, and (C21)  *)
(* dynamic state sync started/finished at every admissible point.             *)
EXTENDS SnowVM

CONSTANTS Tree,          \* block tree
          Root,
          InitReady,     \* set of BOOLEAN: start in normal operation and/or mid state sync
          PCaps, ACaps,  \* cache sizes to sweep
          MaxBacklog,    \* engine never runs further ahead of the async accepter than this
          MaxParses,     \* bound on redundant re-parsing (parsing a block the VM already knows)
          MaxFaults,     \* bound on failed index writes (UpdateLastAccepted errors)
          WithSync       \* enable StartSync / FinishSync

VARIABLES reparses, faults
mcvars == <<vars, reparses, faults>>

(*   b0 -- b1 -- b3 -- b6          b4 and b2 are invalid blocks; b5 is a valid child of an invalid block *)
(*     \     \-- b4(inv)                                                                               *)
(*      \- b2(inv) -- b5                                                                               *)
Tree7 == [b0 |-> [p |-> "none", h |-> 0, inv |-> FALSE],
          b1 |-> [p |-> "b0", h |-> 1, inv |-> FALSE],
          b2 |-> [p |-> "b0", h |-> 1, inv |-> TRUE],
          b3 |-> [p |-> "b1", h |-> 2, inv |-> FALSE],
          b4 |-> [p |-> "b1", h |-> 2, inv |-> TRUE],
          b5 |-> [p |-> "b2", h |-> 2, inv |-> FALSE],
          b6 |-> [p |-> "b3", h |-> 3, inv |-> FALSE]]
(*   b0 -- b1 -- b3 -- b5      two valid forks                                                         *)
(*     \- b2 -- b4                                                                                      *)
Tree6 == [b0 |-> [p |-> "none", h |-> 0, inv |-> FALSE],
          b1 |-> [p |-> "b0", h |-> 1, inv |-> FALSE],
          b2 |-> [p |-> "b0", h |-> 1, inv |-> FALSE],
          b3 |-> [p |-> "b1", h |-> 2, inv |-> FALSE],
          b4 |-> [p |-> "b2", h |-> 2, inv |-> FALSE],
          b5 |-> [p |-> "b3", h |-> 3, inv |-> FALSE]]
Tree5 == [b0 |-> [p |-> "none", h |-> 0, inv |-> FALSE],
          b1 |-> [p |-> "b0", h |-> 1, inv |-> FALSE],
          b2 |-> [p |-> "b0", h |-> 1, inv |-> TRUE],
          b3 |-> [p |-> "b1", h |-> 2, inv |-> FALSE],
          b4 |-> [p |-> "b2", h |-> 2, inv |-> FALSE]]

MCInit == /\ \E rdy \in InitReady, pc \in PCaps, ac \in ACaps : InitWith(Tree, Root, rdy, pc, ac)
          /\ reparses = 0 /\ faults = 0

MCNext ==
  \/ /\ UNCHANGED <<reparses, faults>>
     /\ \/ \E b \in IDs : est[b] = "new" /\ Parse(b)
        \/ \E b \in IDs : Build(b) \/ Verify(b) \/ Reject(b) \/ SetPref(b)
        \/ \E b \in IDs : Backlog < MaxBacklog /\ Accept(b)
        \/ Dequeue \/ Process
        \/ WithSync /\ \E t \in IDs : StartSync(t) \/ FinishSyncWith(t, HeightOrder(vblocks), FixParentMissing)
  \/ (* parsing an already known block again (cache hit or re-parse after eviction) *)
     /\ reparses < MaxParses /\ reparses' = reparses + 1 /\ UNCHANGED faults
     /\ \E b \in IDs : est[b] # "new" /\ Parse(b)

MCNextF == MCNext \/ (/\ faults < MaxFaults /\ faults' = faults + 1 /\ UNCHANGED reparses
                      /\ \E b \in IDs : AcceptIndexFails(b))
MCSpec == MCInit /\ [][MCNextF]_mcvars

(* the step outputs and the re-parse budget do not influence the future *)
View == <<static, engine, wrap, caches, ptrs, async, chainG, notif, sync>>
=============================================================================
