SPECIFICATION Spec
CONSTANTS
  Mode = "c11-coded"
  MinGap = 1
  EmptyGap = 2
  MaxTs = 12
  Window = 2000
  MaxActions = 2
  GenesisHeaderTs = 4
CONSTRAINT Bound
INVARIANTS HeaderOKorKF

CHECK_DEADLOCK FALSE
