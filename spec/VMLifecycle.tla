----------------------------- MODULE VMLifecycle ----------------------------
(* snow/vm.go + snow/health.go (extra module X11): the lifecycle hooks of    *)
(* the consensus wrapper that SnowVM.tla (C18/C20/C21) does not model - the  *)
(* state starters run by SetState, the closers run by Shutdown and the       *)
(* registry of health checkers behind HealthCheck.  (Readiness and the       *)
(* unresolved-blocks checker are SnowVM.tla's Health.)                       *)
(* A hook is [id, fails].                                                    *)
(*  starters[s]  hooks registered for engine state s, in order               *)
(*  closers      hooks registered with AddCloser, in order                   *)
(*  checkers     name -> [id, fails] of the registered health checkers       *)
(*  ran          hooks run by the last call, in order;  res its result:      *)
(*               "ok" or the set of ids whose error the result contains      *)
EXTENDS Integers, Sequences, FiniteSets

CONSTANTS States, Names, MaxHooks,
          Variant      \* "code" | "closerstop" (Shutdown stops at the first failing closer)

VARIABLES starters, closers, checkers, shut, shutRes, ran, res, next
vars == <<starters, closers, checkers, shut, shutRes, ran, res, next>>

Init == /\ starters = [s \in States |-> <<>>] /\ closers = <<>> /\ checkers = <<>> /\ shut = FALSE /\ shutRes = {}
        /\ ran = <<>> /\ res = {} /\ next = 1

Hook(f) == [id |-> next, fails |-> f]
AddStarter(s, f) == /\ next <= MaxHooks /\ starters' = [starters EXCEPT ![s] = Append(@, Hook(f))] /\ next' = next + 1
                    /\ ran' = <<>> /\ res' = {} /\ UNCHANGED <<closers, checkers, shut, shutRes>>
AddCloser(f)     == /\ next <= MaxHooks /\ closers' = Append(closers, Hook(f)) /\ next' = next + 1
                    /\ ran' = <<>> /\ res' = {} /\ UNCHANGED <<starters, checkers, shut, shutRes>>
(* RegisterHealthChecker: LoadOrStore - a duplicate name is refused, the first registration stays *)
Register(n, f)   == /\ next <= MaxHooks /\ next' = next + 1 /\ ran' = <<>>
                    /\ IF n \in DOMAIN checkers THEN res' = {-1} /\ UNCHANGED checkers
                       ELSE res' = {} /\ checkers' = [x \in DOMAIN checkers \cup {n} |-> IF x = n THEN Hook(f) ELSE checkers[x]]
                    /\ UNCHANGED <<starters, closers, shut, shutRes>>

(* SetState: the hooks of that state in order, stop at the first failure and return it *)
RECURSIVE RunUntilFail(_, _)
RunUntilFail(hs, acc) == IF hs = <<>> THEN acc
                         ELSE IF Head(hs).fails THEN [ran |-> Append(acc.ran, Head(hs).id), errs |-> {Head(hs).id}]
                         ELSE RunUntilFail(Tail(hs), [acc EXCEPT !.ran = Append(@, Head(hs).id)])
SetState(s) == /\ LET o == RunUntilFail(starters[s], [ran |-> <<>>, errs |-> {}]) IN ran' = o.ran /\ res' = o.errs
               /\ UNCHANGED <<starters, closers, checkers, shut, shutRes, next>>

(* Shutdown: once; every closer in order whatever fails; errors joined; later calls return the first result *)
RECURSIVE RunAll(_, _)
RunAll(hs, acc) == IF hs = <<>> THEN acc
                   ELSE LET a == [ran |-> Append(acc.ran, Head(hs).id), errs |-> acc.errs \cup (IF Head(hs).fails THEN {Head(hs).id} ELSE {})]
                        IN IF Variant = "closerstop" /\ Head(hs).fails THEN a ELSE RunAll(Tail(hs), a)
Shutdown == /\ IF shut THEN ran' = <<>> /\ res' = shutRes /\ UNCHANGED <<shut, shutRes>>
               ELSE LET o == RunAll(closers, [ran |-> <<>>, errs |-> {}]) IN
                    ran' = o.ran /\ res' = o.errs /\ shut' = TRUE /\ shutRes' = o.errs
            /\ UNCHANGED <<starters, closers, checkers, next>>

(* HealthCheck: every registered checker once (in no particular order), errors joined *)
Health == /\ res' = {checkers[n].id : n \in {x \in DOMAIN checkers : checkers[x].fails}}
          /\ ran' = <<>> /\ UNCHANGED <<starters, closers, checkers, shut, shutRes, next>>

Next == \/ \E s \in States, f \in BOOLEAN : AddStarter(s, f)
        \/ \E f \in BOOLEAN : AddCloser(f) \/ \E n \in Names : Register(n, f)
        \/ \E s \in States : SetState(s)
        \/ Shutdown \/ Health
Spec == Init /\ [][Next]_vars

(* ---------------- properties ---------------- *)
Ids(hs) == [i \in DOMAIN hs |-> hs[i].id]
IsPrefix(a, b) == Len(a) <= Len(b) /\ SubSeq(b, 1, Len(a)) = a
FirstFail(hs) == IF \E i \in DOMAIN hs : hs[i].fails THEN CHOOSE i \in DOMAIN hs : hs[i].fails /\ \A j \in 1..(i - 1) : ~hs[j].fails ELSE 0
(* L1  SetState runs that state's starters in registration order up to and including the first failing one, returns
       its error, and runs nothing of the other states *)
SetStateOK == [][\A s \in States : SetState(s) =>
                   LET k == FirstFail(starters[s]) IN
                   IF k = 0 THEN ran' = Ids(starters[s]) /\ res' = {}
                   ELSE ran' = SubSeq(Ids(starters[s]), 1, k) /\ res' = {starters[s][k].id}]_vars
(* L2  the first Shutdown runs every closer once, in registration order, whatever fails, and reports exactly the
       failing ones; any later Shutdown runs nothing and reports the same *)
ShutdownOK == [][Shutdown =>
                   IF shut THEN ran' = <<>> /\ res' = shutRes
                   ELSE ran' = Ids(closers) /\ res' = {closers[i].id : i \in {j \in DOMAIN closers : closers[j].fails}}]_vars
(* L3  a health checker name is registered once (the first one stays), and HealthCheck reports exactly the failing
       registered checkers *)
HealthOK == [][Health => res' = {checkers[n].id : n \in {x \in DOMAIN checkers : checkers[x].fails}}]_vars
FirstRegistrationStays == [][\A n \in DOMAIN checkers : n \in DOMAIN checkers' /\ checkers'[n] = checkers[n]]_vars
=============================================================================
