----------------------------- MODULE BuildTimer -----------------------------
(* internal/builder/time.go (extra module X02): the time-based trigger that  *)
(* tells the consensus engine when to call BuildBlock.  Time is the explicit *)
(* variable now (ms scaled to small integers), advanced by Tick; timers may  *)
(* fire late but never early.                                                *)
(*  - implementation: waiting (atomic flag), lastQ (lastQueue), deadline     *)
(*    (armed avalanchego timer, -1 = none), ch (engine inbox, capacity Cap), *)
(*    stopped; Queue / Force / Done and the timer handler as coded.  With    *)
(*    Fine = TRUE the two places that send and then clear the flag (timer    *)
(*    handler, immediate path of Queue) take two steps, as in the code.      *)
(*  - monitor: owed / owedLo (a notification is owed to the engine, and the  *)
(*    earliest instant at which it may be delivered), prev (time of the      *)
(*    previous notification), missed (a Queue call was swallowed although no *)
(*    notification will follow it).                                          *)
EXTENDS Integers

CONSTANTS MaxT, Cap, Gaps, MinGap,
          Fine,        \* model the send / clear-flag window
          Variant      \* "code" | "errkeeps" (flag not cleared when the chain lookup fails) | "nogap" (ignores preferred+gap)

VARIABLES now, waiting, lastQ, deadline, ch, stopped, clearing,
          owed, owedLo, prev, early, missed, res

impl == <<waiting, lastQ, deadline, ch, stopped, clearing>>
mon  == <<owed, owedLo, prev, early, missed>>
vars == <<now, waiting, lastQ, deadline, ch, stopped, clearing, owed, owedLo, prev, early, missed, res>>

Max(a, b) == IF a > b THEN a ELSE b
Never == 0 - 1000

Init ==
  /\ now = 0 /\ waiting = FALSE /\ lastQ = Never /\ deadline = -1 /\ ch = 0 /\ stopped = FALSE /\ clearing = FALSE
  /\ owed = FALSE /\ owedLo = Never /\ prev = Never /\ early = FALSE /\ missed = FALSE /\ res = "init"

(* Force's body: non-blocking send, lastQueue only moves when the message went out *)
Sent == ch < Cap
SendImpl == /\ ch' = IF Sent THEN ch + 1 ELSE ch
            /\ lastQ' = IF Sent THEN now ELSE lastQ
(* the owed notification goes out (or is dropped on a full inbox) now *)
Deliver == /\ owed' = FALSE
           /\ early' = (early \/ (owed /\ now < owedLo))
           /\ prev' = IF Sent THEN now ELSE prev
           /\ UNCHANGED <<owedLo, missed>>

Queue(p, g, err) ==
  IF waiting THEN
       /\ res' = "coalesced"
       /\ missed' = (missed \/ ~owed)              \* swallowed, and nothing is owed any more
       /\ UNCHANGED <<impl, owed, owedLo, prev, early>>
  ELSE IF err THEN
       /\ res' = "error"
       /\ waiting' = (Variant = "errkeeps")
       /\ UNCHANGED <<lastQ, deadline, ch, stopped, clearing, mon>>
  ELSE LET next == IF Variant = "nogap" THEN lastQ + MinGap ELSE Max(lastQ + MinGap, p + g) IN
       IF next < now THEN                           \* notify without waiting
            /\ res' = "now"
            /\ SendImpl
            /\ owedLo' = Max(prev + MinGap, p + g) /\ owed' = FALSE
            /\ early' = (early \/ now < Max(prev + MinGap, p + g))
            /\ prev' = IF Sent THEN now ELSE prev
            /\ IF Fine THEN waiting' = TRUE /\ clearing' = TRUE ELSE waiting' = FALSE /\ clearing' = clearing
            /\ UNCHANGED <<deadline, stopped, missed>>
       ELSE /\ res' = "armed"
            /\ waiting' = TRUE /\ deadline' = next
            /\ owed' = TRUE /\ owedLo' = Max(prev + MinGap, p + g)
            /\ UNCHANGED <<lastQ, ch, stopped, clearing, prev, early, missed>>

(* timer handler: Force, then waiting.Store(false) *)
Fire ==
  /\ deadline # -1 /\ now >= deadline /\ ~stopped
  /\ deadline' = -1 /\ SendImpl /\ Deliver
  /\ IF Fine THEN waiting' = waiting /\ clearing' = TRUE ELSE waiting' = FALSE /\ clearing' = clearing
  /\ res' = "fired" /\ UNCHANGED stopped
Clear ==
  /\ clearing /\ clearing' = FALSE /\ waiting' = FALSE /\ res' = "cleared"
  /\ UNCHANGED <<lastQ, deadline, ch, stopped, mon>>

Force == /\ SendImpl /\ res' = "forced"
         /\ prev' = IF Sent THEN now ELSE prev
         /\ UNCHANGED <<waiting, deadline, stopped, clearing, owed, owedLo, early, missed>>
Recv  == ch > 0 /\ ch' = ch - 1 /\ res' = "recv" /\ UNCHANGED <<waiting, lastQ, deadline, stopped, clearing, mon>>
Done  == /\ ~stopped /\ stopped' = TRUE /\ deadline' = -1 /\ owed' = FALSE /\ res' = "done"
         /\ UNCHANGED <<waiting, lastQ, ch, clearing, owedLo, prev, early, missed>>
Tick  == now < MaxT /\ now' = now + 1 /\ res' = "tick" /\ UNCHANGED <<impl, mon>>

Step == \/ \E p \in 0..MaxT, g \in Gaps, e \in BOOLEAN : ~stopped /\ Queue(p, g, e)
        \/ Fire \/ Clear \/ Force \/ Recv \/ Done
Next == (Step /\ now' = now) \/ Tick
Spec == Init /\ [][Next]_vars

(* ---------------- properties ---------------- *)
TypeOK == ch \in 0..Cap /\ now \in 0..MaxT /\ deadline \in -1..(2 * MaxT + MinGap)

(* T1  a notification asked for by Queue is never delivered before preferred + gap (as read by that Queue) nor less
       than MinGap after the previous notification *)
NotEarly == ~early

(* T2  single flight: a pending notification is backed by exactly one armed timer, and Queue cannot arm a second *)
SingleFlight == /\ owed <=> (deadline # -1)
                /\ (deadline # -1) => waiting
CoalescedIsNoOp == [][res' = "coalesced" => UNCHANGED <<impl, owed, owedLo>>]_vars

(* T3  no lost wake-up: the flag is only held while a notification is owed (or is being cleared), so every Queue
       call is either effective or followed by the notification that was already owed *)
FlagBacked    == (waiting /\ ~stopped) => (owed \/ clearing)
NoLostWakeup  == ~missed

(* T4  Force always notifies when the inbox has room, whatever is pending; nothing is delivered after Done *)
ForceNotifies == [][res' = "forced" => ch' = (IF ch < Cap THEN ch + 1 ELSE ch)]_vars
QuietAfterDone == [][stopped /\ res' \notin {"forced", "recv"} => ch' = ch]_vars
=============================================================================
