SPECIFICATION SpecTwoBatches
CONSTANTS
  Heights = {0, 1, 2, 3, 4, 5, 6, 7, 8}
  Windows = {0, 1, 2, 3}
INVARIANTS TypeOK AcceptSucceeds WindowRetrievable Consistent Bounded
CHECK_DEADLOCK FALSE
