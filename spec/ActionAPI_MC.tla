---------------------------- MODULE ActionAPI_MC ----------------------------
(* C30 design step: every state over Accts with balance records Absent/0..MAXU, every actor and every action list of *)
(* up to MaxActs transfers (any recipient, value 0..MAXU, one over-long memo) - the list grows one action per step,  *)
(* so the invariants are evaluated on every prefix.                                                                  *)
EXTENDS ActionAPI, TLC
CONSTANTS Accts, MAXU, MaxActs
VARIABLES st, actor, actions
mcvars == <<st, actor, actions>>

Acts == {[to |-> t, value |-> v, memo |-> 0] : t \in Accts, v \in 0..MAXU} \cup {[to |-> t, value |-> 1, memo |-> MaxMemo + 1] : t \in Accts}

Init == st \in [Accts -> {Absent} \cup 0..MAXU] /\ actor \in Accts /\ actions = <<>>
Next == Len(actions) < MaxActs /\ \E a \in Acts : actions' = Append(actions, a) /\ UNCHANGED <<st, actor>>
Spec == Init /\ [][Next]_mcvars

Sym == Permutations(Accts)     \* accounts are interchangeable (model values in the cfg)

InvExec       == ExecAgrees(st, actor, actions, MAXU)
InvSim        == SimAgrees(st, actor, actions, MAXU)
InvChain      == ChainAgrees(st, actor, actions, MAXU)
InvSufficient == Sufficient(st, actor, actions, MAXU)
InvWeak       == SufficientWithoutAllocate(st, actor, actions, MAXU)
=============================================================================
