------------------------- MODULE ConflictOrder_Trace -------------------------
(* Trace validation of executions recorded from the real internal/executor  *)
(* against ConflictOrder (C08).                                              *)
EXTENDS ConflictOrder, TLC, Json, IOUtils, Sequences

VARIABLE l
Trace == ndJsonDeserialize(IOEnv.TRACE)
NL    == Len(Trace)
tvars == <<evars, l>>
Ev(e) == l <= NL /\ Trace[l].ev = e /\ l' = l + 1
R     == Trace[l]

\* reset line: "n": number of tasks, "keys": array (one object per task) mapping key id -> "r" | "w"
PermStr(rec) ==
  [t \in TaskIds |-> [k \in KeyIds |->
     IF t <= rec.n /\ k \in DOMAIN rec.keys[t] THEN rec.keys[t][k] ELSE "n"]]

TraceInit == l = 2 /\ TLCSet(1, 1) /\ Trace[1].ev = "reset" /\ EInit(PermStr(Trace[1]), Trace[1].n)
TReset == /\ Ev("reset")
          /\ perm' = PermStr(R) /\ ntasks' = R.n
          /\ queued' = {} /\ started' = {} /\ ended' = {} /\ failed' = {} /\ lateQ' = {}
          /\ stop' = "idle" /\ wait' = "no" /\ stopFirst' = FALSE
          /\ recs' = <<>> /\ recDone' = {} /\ stopAtFirstRec' = "idle" /\ firstDoneAtStop' = FALSE
TRun      == Ev("run")       /\ RunCall(R.i)
TStart    == Ev("start")     /\ Start(R.i)
TEnd      == Ev("end")       /\ End(R.i, R.res)
TStopCall == Ev("stop_call") /\ StopCall
TStopRet  == Ev("stop_ret")  /\ StopRet
TWaitCall == Ev("wait_call") /\ WaitCall
TWaitRet  == Ev("wait_ret")  /\ WaitRet(R.res, R.ei)
TRecBegin == Ev("rec_begin") /\ RecBegin(R.i)
TRecEnd   == Ev("rec_end")   /\ RecEnd(R.i)
TFin      == Ev("fin")       /\ Fin

TraceNext == TReset \/ TRun \/ TStart \/ TEnd \/ TStopCall \/ TStopRet \/ TWaitCall \/ TWaitRet \/ TRecBegin \/ TRecEnd \/ TFin
TraceSpec == TraceInit /\ [][TraceNext]_tvars
HWM      == TLCSet(1, IF TLCGet(1) > l - 1 THEN TLCGet(1) ELSE l - 1)
Accepted == PrintT(<<"TRACE_HWM", TLCGet(1)>>) /\ TLCGet(1) = NL
=============================================================================
