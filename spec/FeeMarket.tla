----------------------------- MODULE FeeMarket -----------------------------
(* C13 - the per-dimension fee market rule of internal/fees/manager.go       *)
(* (computeNextPriceWindow, called once per dimension by Manager.ComputeNext)*)
(* over the rolling window of internal/window/window.go (Roll/Update/Sum),   *)
(* in exact integer arithmetic with saturation at MAXU.                      *)
(*                                                                           *)
(* One text for both engines: TLC proves the algebraic properties            *)
(* exhaustively at a small word size (MAXU = 7/15, W = 3, FeeMarket_MC) and  *)
(* validates small-valued recorded rows (FeeMarket_Trace); Apalache          *)
(* evaluates the very same operators on recorded 64-bit rows                 *)
(* (MAXU = 2^64-1, W = 10).  The type annotations are comments for TLC.      *)
EXTENDS Integers

CONSTANTS
  \* @type: Int;
  MAXU,      \* largest value of the machine word
  \* @type: Int;
  W          \* window length in seconds (slots); the explicit sum below needs W <= 10

ASSUME W \in 1..10 /\ MAXU >= 1

\* @type: (Int, Int) => Int;
Min2(a, b) == IF a < b THEN a ELSE b
\* @type: (Int, Int) => Int;
Max2(a, b) == IF a > b THEN a ELSE b
\* @type: (Int, Int) => Int;
SatAdd(a, b) == Min2(a + b, MAXU)

(* ---- window.go: a window is W slots, slot W is the most recent second ---- *)

(* Roll: shift left by `since` slots, zero fill; everything is gone once since >= W *)
\* @type: (Int -> Int, Int) => (Int -> Int);
Roll(w, since) == [i \in 1..W |-> IF since <= W /\ i + since <= W THEN w[i + since] ELSE 0]

(* Update: saturating add into one slot *)
\* @type: (Int -> Int, Int, Int) => (Int -> Int);
Update(w, slot, units) == [i \in 1..W |-> IF i = slot THEN SatAdd(w[i], units) ELSE w[i]]

\* @type: (Int -> Int, Int) => Int;
At(w, i) == IF i <= W THEN w[i] ELSE 0
(* Sum: the code adds slot by slot and returns MAXU on the first overflow; for non-negative slots
   that is the exact sum capped at MAXU *)
\* @type: (Int -> Int) => Int;
Sum(w) == Min2(At(w, 1) + At(w, 2) + At(w, 3) + At(w, 4) + At(w, 5)
             + At(w, 6) + At(w, 7) + At(w, 8) + At(w, 9) + At(w, 10), MAXU)

(* the window the next block starts from: rolled by the elapsed seconds, with the parent's consumption
   added into the slot of the parent's second if that second is still inside the window *)
\* @type: (Int -> Int, Int, Int) => (Int -> Int);
NextWindow(w, last, since) ==
  IF since < W THEN Update(Roll(w, since), W - since, last) ELSE Roll(w, since)

\* @type: (Int -> Int, Int, Int) => Int;
Total(w, last, since) == Sum(NextWindow(w, last, since))

(* ---- manager.go: the price rule on the window total ---- *)

(* proportional change floor(prev * delta / target / denom), at least one unit *)
\* @type: (Int, Int, Int, Int) => Int;
BaseDelta(prev, delta, target, denom) == Max2(1, ((prev * delta) \div target) \div denom)

\* @type: (Int, Int, Int, Int, Int, Int) => Int;
NextFromTotal(prev, total, target, denom, min, since) ==
  LET up   == BaseDelta(prev, total - target, target, denom)
      down == BaseDelta(prev, target - total, target, denom)
             * (IF since > W THEN since \div W ELSE 1)       \* one decrease per elapsed window
      raw  == IF total > target THEN Min2(prev + up, MAXU)    \* saturates at the word limit
              ELSE IF total < target THEN Max2(prev - down, 0)
              ELSE prev
  IN Max2(raw, min)

\* @type: (Int, Int -> Int, Int, Int, Int, Int, Int) => Int;
NextPrice(prev, w, last, target, denom, min, since) ==
  NextFromTotal(prev, Total(w, last, since), target, denom, min, since)

(* ---- Manager.ComputeNext: elapsed whole seconds as the code computes them ---- *)
(* lastSec is the stored (unsigned) second, nowMs the block time in milliseconds (>= 0);               *)
(* since = uint64(int64(nowMs / 1000) - int64(lastSec)) : a time that goes backwards becomes enormous *)
\* @type: (Int, Int) => Int;
Since(lastSec, nowMs) ==
  LET signedLast == IF lastSec > MAXU \div 2 THEN lastSec - (MAXU + 1) ELSE lastSec
  IN ((nowMs \div 1000) - signedLast + (MAXU + 1)) % (MAXU + 1)

(* ---- what the code did before the fix (kept for the sensitivity check) ---- *)
\* @type: (Int, Int, Int, Int, Int, Int) => Int;
NextFromTotalAsOriginallyCoded(prev, total, target, denom, min, since) ==
  LET Wrap(x) == x % (MAXU + 1)
      up   == Max2(1, (Wrap(prev * (total - target)) \div target) \div denom)
      dn0  == Max2(1, (Wrap(prev * (target - total)) \div target) \div denom)
      down == IF since > W THEN Wrap(dn0 * (since \div W)) ELSE dn0
      raw  == IF total > target THEN Min2(prev + up, MAXU)
              ELSE IF total < target THEN Max2(prev - down, 0)
              ELSE prev
  IN Max2(raw, min)
=============================================================================
