----------------------------- MODULE FeeMarket -----------------------------
(* C13 - the per-dimension fee market rule of internal/fees/manager.go       *)
(* (computeNextPriceWindow, called once per dimension by Manager.ComputeNext)*)
(* over the rolling window of internal/window/window.go (Roll/Update/Sum),   *)
(* in exact integer arithmetic with saturation at MAXU.                      *)
(*                                                                           *)
(* One text for both engines: TLC proves the algebraic properties            *)
(* exhaustively at a small word size (MAXU = 7/15, W = 3, FeeMarket_MC) and  *)
(* validates small-valued recorded rows (FeeMarket_Trace); Apalache          *)
(* evaluates the very same operators on recorded 64-bit rows                 *)
(* (MAXU = 2^64-1, W = 10).  The type annotations are comments for TLC.      *)
EXTENDS Integers

CONSTANTS
  \* @type: Int;
  MAXU,      \* largest value of the machine word
  \* @type: Int;
  W          \* window length in seconds (slots); the explicit sum below needs W <= 10

ASSUME W \in 1..10 /\ MAXU >= 1

\* @type: (Int, Int) => Int;
Min2(a, b) == IF a < b THEN a ELSE b
\* @type: (Int, Int) => Int;
Max2(a, b) == IF a > b THEN a ELSE b
\* @type: (Int, Int) => Int;
SatAdd(a, b) == Min2(a + b, MAXU)

(* ---- window.go: a window is W slots, slot W is the most recent second ---- *)
(* The window operators are written slot by slot over a reader Get(j) of the old window, so that Apalache can
   fold them to constants on recorded rows (no functions, no quantifiers); the function-valued operators used
   by TLC below are defined from the very same slot operators. *)

(* Roll: shift left by `since` slots, zero fill; everything is gone once since >= W *)
\* @type: (Int => Int, Int, Int) => Int;
RollAt(Get(_), i, since) == IF since <= W /\ i + since <= W THEN Get(i + since) ELSE 0

(* slot i of the window the next block starts from: rolled by the elapsed seconds, with the parent's
   consumption added (Update: saturating) into the slot of the parent's second if it is still inside *)
\* @type: (Int => Int, Int, Int, Int) => Int;
NextSlot(Get(_), i, last, since) ==
  IF since < W /\ i = W - since THEN SatAdd(RollAt(Get, i, since), last) ELSE RollAt(Get, i, since)

\* @type: (Int => Int, Int, Int, Int) => Int;
SlotOrZero(Get(_), i, last, since) == IF i <= W THEN NextSlot(Get, i, last, since) ELSE 0
(* Sum: the code adds slot by slot and returns MAXU on the first overflow; for non-negative slots that is the
   exact sum capped at MAXU *)
\* @type: (Int => Int, Int, Int) => Int;
TotalOf(Get(_), last, since) ==
  Min2(  SlotOrZero(Get, 1, last, since) + SlotOrZero(Get, 2, last, since) + SlotOrZero(Get, 3, last, since)
       + SlotOrZero(Get, 4, last, since) + SlotOrZero(Get, 5, last, since) + SlotOrZero(Get, 6, last, since)
       + SlotOrZero(Get, 7, last, since) + SlotOrZero(Get, 8, last, since) + SlotOrZero(Get, 9, last, since)
       + SlotOrZero(Get, 10, last, since), MAXU)

(* function-valued forms (window = function 1..W -> word) *)
\* @type: (Int -> Int, Int) => (Int -> Int);
Roll(w, since) == [i \in 1..W |-> RollAt(LAMBDA j : w[j], i, since)]
\* @type: (Int -> Int, Int, Int) => (Int -> Int);
NextWindow(w, last, since) == [i \in 1..W |-> NextSlot(LAMBDA j : w[j], i, last, since)]
\* @type: (Int -> Int, Int, Int) => Int;
Total(w, last, since) == TotalOf(LAMBDA j : w[j], last, since)
\* @type: (Int -> Int) => Int;
Sum(w) == TotalOf(LAMBDA j : w[j], 0, 0)

(* ---- manager.go: the price rule on the window total ---- *)

(* proportional change floor(prev * delta / target / denom), at least one unit *)
\* @type: (Int, Int, Int, Int) => Int;
BaseDelta(prev, delta, target, denom) == Max2(1, ((prev * delta) \div target) \div denom)

\* @type: (Int, Int, Int, Int, Int, Int) => Int;
NextFromTotal(prev, total, target, denom, min, since) ==
  LET up   == BaseDelta(prev, total - target, target, denom)
      down == BaseDelta(prev, target - total, target, denom)
             * (IF since > W THEN since \div W ELSE 1)       \* one decrease per elapsed window
      raw  == IF total > target THEN Min2(prev + up, MAXU)    \* saturates at the word limit
              ELSE IF total < target THEN Max2(prev - down, 0)
              ELSE prev
  IN Max2(raw, min)

\* @type: (Int, Int -> Int, Int, Int, Int, Int, Int) => Int;
NextPrice(prev, w, last, target, denom, min, since) ==
  NextFromTotal(prev, Total(w, last, since), target, denom, min, since)
\* @type: (Int, Int => Int, Int, Int, Int, Int, Int) => Int;
NextPriceOf(prev, Get(_), last, target, denom, min, since) ==
  NextFromTotal(prev, TotalOf(Get, last, since), target, denom, min, since)

(* ---- Manager.ComputeNext: elapsed whole seconds as the code computes them ---- *)
(* lastSec is the stored (unsigned) second, nowMs the block time in milliseconds (>= 0);               *)
(* since = uint64(int64(nowMs / 1000) - int64(lastSec)) : a time that goes backwards becomes enormous *)
\* @type: (Int, Int) => Int;
Since(lastSec, nowMs) ==
  LET signedLast == IF lastSec > MAXU \div 2 THEN lastSec - (MAXU + 1) ELSE lastSec
  IN ((nowMs \div 1000) - signedLast + (MAXU + 1)) % (MAXU + 1)

(* ---- what the code did before the fix (kept for the sensitivity check) ---- *)
\* @type: (Int, Int, Int, Int, Int, Int) => Int;
NextFromTotalAsOriginallyCoded(prev, total, target, denom, min, since) ==
  LET Wrap(x) == x % (MAXU + 1)
      up   == Max2(1, (Wrap(prev * (total - target)) \div target) \div denom)
      dn0  == Max2(1, (Wrap(prev * (target - total)) \div target) \div denom)
      down == IF since > W THEN Wrap(dn0 * (since \div W)) ELSE dn0
      raw  == IF total > target THEN Min2(prev + up, MAXU)
              ELSE IF total < target THEN Max2(prev - down, 0)
              ELSE prev
  IN Max2(raw, min)
=============================================================================
