--------------------------- MODULE ValidityWindow ---------------------------
(* Replay protection (internal/validitywindow/validitywindow.go) shaped     *)
(* like the code: a tree of verified blocks reachable through the chain      *)
(* index, the expiry-indexed set `seen` of the accepted prefix, the window's *)
(* own lastAcceptedHeight (which lags consensus while blocks wait in the     *)
(* async accept queue), VerifyExpiryReplayProtection = in-block duplicate    *)
(* check + isRepeat walk (its three tests in the order of the code),         *)
(* Accept = SetMin + Add, IsRepeat for the builder, Restart = populate.      *)
(* Property C09: no transaction occurs twice along any verified chain.       *)
EXTENDS Integers, Sequences, FiniteSets

CONSTANTS Txs,        \* transaction ids
          W,          \* validity window (time units)
          MaxTs, MaxBlocks

VARIABLES expiry,     \* [Txs -> Nat]                       signed expiry of each transaction
          blocks,     \* Seq([parent, h, ts, txs])          block i has id i; block 1 is genesis
          verified,   \* SUBSET DOMAIN blocks               blocks that passed verification (in the chain index)
          lastAcc,    \* id of the last block the window accepted
          seen        \* SUBSET Txs                          emap of the accepted prefix (entries with expiry >= min)
vars == <<expiry, blocks, verified, lastAcc, seen>>

Genesis == [parent |-> 0, h |-> 0, ts |-> 0, txs |-> {}]

Init == /\ expiry \in [Txs -> 0..(MaxTs + W)]
        /\ blocks = <<Genesis>> /\ verified = {1} /\ lastAcc = 1 /\ seen = {}

OldestAllowed(t) == IF t - W > 0 THEN t - W ELSE 0

(* proper ancestors of block id b, nearest first, as the walk visits them *)
RECURSIVE Ancestors(_)
Ancestors(b) == IF blocks[b].parent = 0 THEN <<>> ELSE <<blocks[b].parent>> \o Ancestors(blocks[b].parent)

(* isRepeat as coded: walk from `anc`; stop when the ancestor is older than the window; switch to `seen` at the
   accepted prefix (height <= window's last accepted height, or genesis); otherwise test the ancestor's own txs *)
RECURSIVE IsRepeatFrom(_, _, _)
IsRepeatFrom(anc, oldest, txs) ==
  IF blocks[anc].ts < oldest THEN {}
  ELSE IF blocks[anc].h <= blocks[lastAcc].h \/ blocks[anc].h = 0 THEN txs \cap seen
  ELSE (txs \cap blocks[anc].txs) \cup IsRepeatFrom(blocks[anc].parent, oldest, txs)

(* the transactions a block may carry: not expired at its timestamp, not further ahead than the window (C10) *)
Admissible(ts) == {t \in Txs : expiry[t] >= ts /\ expiry[t] <= ts + W}

(* a new child of a verified block above the accepted height is proposed and verified *)
Verify ==
  /\ Len(blocks) < MaxBlocks
  /\ \E p \in verified, ts \in 0..MaxTs, txs \in SUBSET Txs :
       /\ blocks[p].h >= blocks[lastAcc].h           \* children of rejected forks below the tip are never offered
       /\ ts >= blocks[p].ts
       /\ txs \subseteq Admissible(ts)
       /\ LET b == [parent |-> p, h |-> blocks[p].h + 1, ts |-> ts, txs |-> txs]
              dup == IsRepeatFrom(p, OldestAllowed(ts), txs)
          IN /\ blocks' = Append(blocks, b)
             /\ verified' = IF dup = {} THEN verified \cup {Len(blocks) + 1} ELSE verified
  /\ UNCHANGED <<expiry, lastAcc, seen>>

(* the window accepts the next block of the chain: SetMin(ts) evicts entries with expiry < ts, then Add *)
Accept ==
  \E b \in verified :
    /\ blocks[b].parent = lastAcc
    /\ seen' = {t \in seen : expiry[t] >= blocks[b].ts} \cup blocks[b].txs
    /\ lastAcc' = b
    /\ UNCHANGED <<expiry, blocks, verified>>

(* restart: a fresh window is populated from the last accepted block backwards while ancestors are inside the
   window of the head, oldest first *)
RECURSIVE PopulateSet(_, _)
PopulateSet(b, oldest) ==
  IF blocks[b].h = 0 THEN {b}
  ELSE IF blocks[blocks[b].parent].ts < oldest THEN {b, blocks[b].parent}
  ELSE {b} \cup PopulateSet(blocks[b].parent, oldest)

Restart ==
  LET ps == PopulateSet(lastAcc, OldestAllowed(blocks[lastAcc].ts))
      all == UNION {blocks[b].txs : b \in ps}
  IN /\ seen' = {t \in all : expiry[t] >= blocks[lastAcc].ts}   \* successive SetMin/Add end with min = head timestamp
     /\ UNCHANGED <<expiry, blocks, verified, lastAcc>>

Next == Verify \/ Accept \/ Restart
Spec == Init /\ [][Next]_vars

(* ---------------------------------------------------------------- C09 *)
OnAcceptedChainOrAbove(b) == TRUE
RECURSIVE AncSet(_)
AncSet(b) == IF blocks[b].parent = 0 THEN {} ELSE {blocks[b].parent} \cup AncSet(blocks[b].parent)
(* only blocks that can still be extended matter: descendants of (or equal to) the last accepted block, and the
   accepted chain itself *)
Live(b) == b = lastAcc \/ lastAcc \in AncSet(b) \/ b \in AncSet(lastAcc)
NoDoubleInclusion ==
  \A b \in verified : Live(b) => \A a \in AncSet(b) : blocks[a].txs \cap blocks[b].txs = {}
=============================================================================
