SPECIFICATION Spec
CONSTANTS
  Totals = {0, 1, 3, 4, 5, 9, 36, 37, 38, 44, 70}
INVARIANT OriginalMeetsProperty
CHECK_DEADLOCK FALSE
