----------------------------- MODULE GenesisNum -----------------------------
(* C27, arithmetic part in integer-only form (no sequences, no recursion) so *)
(* that Apalache can evaluate it at MAXU = 2^64-1 over rows recorded from    *)
(* the real chain.NewGenesisCommit.  A row is a genesis with n <= 4          *)
(* allocations over the address indices 1..3 (slot i is <<a_i, b_i>>, unused *)
(* slots are <<0, 0>>).  Genesis_MC checks with TLC (lemma NumAgrees) that    *)
(* these unrolled operators equal the sequence fold of Genesis.tla.          *)
EXTENDS Integers
CONSTANT MAXU

(* running supply after the first j allocations *)
Pre(j, b1, b2, b3, b4) ==
  (IF j >= 1 THEN b1 ELSE 0) + (IF j >= 2 THEN b2 ELSE 0) + (IF j >= 3 THEN b3 ELSE 0) + (IF j >= 4 THEN b4 ELSE 0)

(* the genesis is rejected iff some running total exceeds the word *)
Rejected(n, b1, b2, b3, b4) ==
  \/ (1 <= n /\ Pre(1, b1, b2, b3, b4) > MAXU) \/ (2 <= n /\ Pre(2, b1, b2, b3, b4) > MAXU)
  \/ (3 <= n /\ Pre(3, b1, b2, b3, b4) > MAXU) \/ (4 <= n /\ Pre(4, b1, b2, b3, b4) > MAXU)

Configured(k, n, a1, a2, a3, a4) ==
  (1 <= n /\ a1 = k) \/ (2 <= n /\ a2 = k) \/ (3 <= n /\ a3 = k) \/ (4 <= n /\ a4 = k)

SumOf(k, n, a1, b1, a2, b2, a3, b3, a4, b4) ==
  (IF 1 <= n /\ a1 = k THEN b1 ELSE 0) + (IF 2 <= n /\ a2 = k THEN b2 ELSE 0) +
  (IF 3 <= n /\ a3 = k THEN b3 ELSE 0) + (IF 4 <= n /\ a4 = k THEN b4 ELSE 0)

(* s = balance stored for address k in the genesis state, -1 when the state has no balance key for k *)
BalOK(k, s, n, a1, b1, a2, b2, a3, b3, a4, b4) ==
  IF Configured(k, n, a1, a2, a3, a4)
    THEN (IF s = -1 THEN 0 ELSE s) = SumOf(k, n, a1, b1, a2, b2, a3, b3, a4, b4)
    ELSE s = -1

(* one recorded row.  err = 1 iff NewGenesisCommit returned an error; s1..s3 balances found in the committed
   state; nother = number of keys that are neither metadata nor a balance key of address 1..3; nmeta = number of
   metadata keys present (height, timestamp, fee); h, ts decoded height / timestamp; p_i decoded unit price and
   m_i configured minimum price of dimension i; rooteq = 1 iff root(state) = genesis block's StateRoot *)
RowOK(n, a1, b1, a2, b2, a3, b3, a4, b4, err, s1, s2, s3, nother, nmeta, h, ts,
      p1, p2, p3, p4, p5, m1, m2, m3, m4, m5, rooteq) ==
  IF Rejected(n, b1, b2, b3, b4) THEN err = 1
  ELSE /\ err = 0
       /\ BalOK(1, s1, n, a1, b1, a2, b2, a3, b3, a4, b4)
       /\ BalOK(2, s2, n, a1, b1, a2, b2, a3, b3, a4, b4)
       /\ BalOK(3, s3, n, a1, b1, a2, b2, a3, b3, a4, b4)
       /\ nother = 0 /\ nmeta = 3 /\ h = 0 /\ ts = 0
       /\ p1 = m1 /\ p2 = m2 /\ p3 = m3 /\ p4 = m4 /\ p5 = m5
       /\ rooteq = 1
=============================================================================
