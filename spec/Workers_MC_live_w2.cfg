SPECIFICATION Spec
CONSTANTS
  NW = 2
  NJ = 2
  NT = 2
  MaxJobs = 2
  Original = FALSE
  SubmitDuringStop = FALSE
INVARIANTS TypeOK AtMostOnce JobResultOK ShutdownRanNothing JobsSequential StopShutsDown NoPanic
PROPERTIES JobCompletes StopReturns
CHECK_DEADLOCK TRUE
