SPECIFICATION TraceSpec
CONSTANTS
  MaxN = 12
  KeyIds = {"1", "2", "3", "4", "5"}
CONSTRAINT HWM
INVARIANTS NoOverlap EContractOK
POSTCONDITION Accepted
CHECK_DEADLOCK FALSE
