SPECIFICATION TraceSpec
CONSTANTS
  MaxN = 16
  KeyIds = {"1", "2", "3", "4", "5", "6", "7", "8"}
CONSTRAINT HWM
INVARIANTS NoOverlap EContractOK
POSTCONDITION Accepted
CHECK_DEADLOCK FALSE
