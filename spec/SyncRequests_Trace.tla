-------------------------- MODULE SyncRequests_Trace ------------------------
(* Trace validation of the real SyncTypedClient (X10) against                *)
(* SyncRequests.tla.  Lines:                                                 *)
(*   reset   {send}                  the scripted fate of every request      *)
(*   started {reached, returned}     all calls were started concurrently;    *)
(*                                   reached = the network stub saw exactly  *)
(*                                   the sendable requests; returned = calls *)
(*                                   that returned at once [r, kind, value]  *)
(*   deliver {r, kind, returned} / cancel {r, returned} / deliver-unsent     *)
(* The module's Start / Deliver / Cancel actions are taken with the logged   *)
(* arguments; the calls that returned during the event and what they         *)
(* returned must be exactly what the action produced.                        *)
EXTENDS SyncRequests, TLC, Json, IOUtils

VARIABLES l, diag
tvars == <<vars, l, diag>>

Trace == ndJsonDeserialize(IOEnv.TRACE)
N     == Len(Trace)
T     == Trace[l]
Ev(e) == l <= N /\ Trace[l].ev = e /\ l' = l + 1
Name(ok, nm) == IF ok THEN {} ELSE {nm}
TReqs == 1..8
Obs == {<<T.returned[i][1], IF T.returned[i][2] = "resp" THEN <<"resp", T.returned[i][3]>> ELSE <<"err", T.returned[i][2]>>>> : i \in DOMAIN T.returned}
NewlyReturned == {<<r, result'[r]>> : r \in {q \in Reqs : state[q] # "returned" /\ state'[q] = "returned"}}
Check == Name(Obs = NewlyReturned, "calls-returned-and-their-results") \cup Name(Len(T.returned) = Cardinality(Obs), "call-returned-twice")

TraceInit == /\ l = 1 /\ TLCSet(1, 0) /\ sendv = [r \in Reqs |-> "absent"] /\ state = [r \in Reqs |-> "returned"]
             /\ result = [r \in Reqs |-> None] /\ sent = {} /\ order = <<>> /\ diag = {}
TReset == /\ Ev("reset")
          /\ sendv' = [r \in Reqs |-> IF r \in DOMAIN T.send THEN T.send[r] ELSE "absent"]
          /\ state' = [r \in Reqs |-> IF r \in DOMAIN T.send THEN "new" ELSE "returned"]
          /\ result' = [r \in Reqs |-> None] /\ sent' = {} /\ order' = <<>> /\ diag' = {}

(* all Start(r) at once (they are independent of each other; order = request number) *)
TStarted ==
  /\ Ev("started") /\ UNCHANGED sendv
  /\ LET live == {r \in Reqs : state[r] = "new"} IN
     /\ state' = [r \in Reqs |-> IF r \in live THEN (IF sendv[r] = "ok" THEN "waiting" ELSE "returned") ELSE state[r]]
     /\ result' = [r \in Reqs |-> IF r \in live /\ sendv[r] # "ok" THEN <<"err", sendv[r]>> ELSE result[r]]
     /\ sent' = {r \in live : sendv[r] = "ok"}
     /\ order' = [i \in 1..Cardinality({r \in live : sendv[r] = "ok"}) |->
                    CHOOSE r \in live : sendv[r] = "ok" /\ Cardinality({q \in live : sendv[q] = "ok" /\ q < r}) = i - 1]
  /\ diag' = Check \cup Name(T.reached, "request-not-handed-to-the-network")

TDeliver == Ev("deliver") /\ Deliver(T.r, T.kind) /\ diag' = Check
TCancel  == Ev("cancel") /\ Cancel(T.r) /\ diag' = Check
TUnsent  == Ev("deliver-unsent") /\ UNCHANGED vars /\ diag' = Check \cup Name(T.r \notin sent, "harness-unsent")

TraceNext == TReset \/ TStarted \/ TDeliver \/ TCancel \/ TUnsent
TraceSpec == TraceInit /\ [][TraceNext]_tvars

DiagEmpty == diag = {}
HWM      == TLCSet(1, IF TLCGet(1) > l - 1 THEN TLCGet(1) ELSE l - 1)
Accepted == PrintT(<<"TRACE_HWM", TLCGet(1)>>) /\ TLCGet(1) = N
=============================================================================
