SPECIFICATION TraceSpec
CONSTANTS
  Certs = {"x1", "x2", "x3", "x4", "x5"}
CONSTRAINT HWM
INVARIANTS ChainTypeOK NoChunkTwice NoExpiredRef BuilderClean DeliveredOnce
POSTCONDITION Accepted
CHECK_DEADLOCK FALSE
