-------------------------- MODULE RulesAddress_Trace --------------------------
(* Binding step (tv) for C28.  Rows recorded from the real codec package:   *)
(*  kind "parse":  a string built for a feature row (real checksum          *)
(*                 function), acc/acc2 = StringToAddress / UnmarshalText    *)
(*                 succeeded, same = parsed address equals the payload      *)
(*  kind "parse-x": like "parse", but the string carries checksum / hash    *)
(*                 material of a full address in the wrong place and its    *)
(*                 features were lexed from the string itself               *)
(*  kind "format": a seeded address a; the features are lexed from          *)
(*                 a.String(); pay = the digits decode to a + checksum,     *)
(*                 mt = MarshalText gives the same text, acc/same = the     *)
(*                 text parses back to a                                    *)
(* Bad rows are reported and skipped (see checks/_purerules.py).            *)
EXTENDS RulesAddress, TLC, Json, IOUtils, Sequences

VARIABLE l
Trace == ndJsonDeserialize(IOEnv.TRACE)
T     == Trace[l]

Feat(t) == [pfx |-> t.pfx, hex |-> t.hex, total |-> t.total, sum |-> t.sum, case |-> t.case]

ParseReason(t) ==
  LET r == Feat(t) IN
  IF t.acc # t.acc2 THEN "StringToAddress-and-UnmarshalText-disagree"
  ELSE IF Verdict(r) = "reject" /\ t.acc = 1 THEN "accepted-" \o Malformation(r)
  ELSE IF Verdict(r) = "accept" /\ t.acc = 0 THEN "rejected-canonical-encoding"
  ELSE IF t.acc = 1 /\ t.same # 1 THEN "parsed-address-differs-from-payload"
  ELSE "ok"

FormatReason(t) ==
  IF Feat(t) # FormatRow THEN "format-not-canonical"
  ELSE IF t.pay # 1 THEN "format-encodes-other-bytes"
  ELSE IF t.mt # 1 THEN "MarshalText-differs-from-String"
  ELSE IF t.acc # 1 \/ t.acc2 # 1 THEN "formatted-address-does-not-parse"
  ELSE IF t.same # 1 THEN "round-trip-changes-address"
  ELSE "ok"

TraceInit == l = 2 /\ TLCSet(1, 1) /\ Trace[1].ev = "reset"
TRow == /\ l <= Len(Trace) /\ T.ev = "row" /\ l' = l + 1
        /\ LET c == IF T.kind = "format" THEN FormatReason(T) ELSE ParseReason(T)
           IN  IF c = "ok" THEN TRUE ELSE PrintT(<<"ROW_REJECTED", l, c>>)
TReset == l <= Len(Trace) /\ T.ev = "reset" /\ l' = l + 1
TraceSpec == TraceInit /\ [][TRow \/ TReset]_l

HWM      == TLCSet(1, IF TLCGet(1) > l - 1 THEN TLCGet(1) ELSE l - 1)
Accepted == PrintT(<<"TRACE_HWM", TLCGet(1)>>) /\ TLCGet(1) = Len(Trace)
=============================================================================
