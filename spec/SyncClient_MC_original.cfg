SPECIFICATION Spec
CONSTANTS
  NSyncers0 = 2
  Heights = {0, 1, 2, 3, 4}
  MinBlocks0 = 2
  Fixed = FALSE
INVARIANTS SkipRule MarkerCovers CleanFinish MustNeverSkips Order SuccessMeansComplete
CHECK_DEADLOCK FALSE
