------------------------- MODULE WorkersContract_Gen -------------------------
(* Behaviour generator (mbt direction of C26): random walks of the abstract   *)
(* contract.  The controllable part of each walk (NewJob / Go / Done / Wait / *)
(* Stop calls and the order in which task closures are allowed to return) is  *)
(* printed as a JSON script and forced on the real pool by the driver; the    *)
(* run recorded from the real pool is then validated against the contract.    *)
EXTENDS WorkersContract, TLC, Json, Sequences

CONSTANT Depth
VARIABLE hist
gvars == <<cvars, hist>>

Rec(op, j, t, res) == [op |-> op, j |-> j, t |-> t, res |-> res]
H(op, j, t, res)  == hist' = Append(hist, Rec(op, j, t, res))

GInit == CInit("parallel") /\ hist = <<>>
GNext ==
  /\ Len(hist) < Depth
  /\ \/ \E j \in J : (\A i \in J : i < j => jst[i] # "none") /\ NewJobCall(j) /\ H("newjob", j, 0, "")
     \/ \E j \in J : NewJobRet(j, "ok") /\ UNCHANGED hist
     \/ \E j \in J : NewJobRet(j, "shutdown") /\ UNCHANGED hist
     \/ \E j \in J : \E t \in T : t = Cardinality(gone[j]) + 1 /\ Go(j, t) /\ H("go", j, t, "")
     \/ \E j \in J : Done(j) /\ H("done", j, 0, "")
     \/ \E j \in J : \E t \in T : Start(j, t) /\ UNCHANGED hist
     \/ \E j \in J : \E t \in T : \E r \in {"ok", "ok", "fail"} : End(j, t, r) /\ H("gate", j, t, r)
     \/ \E j \in J : \E r \in {"nil", "err", "shutdown"} : \E t \in T : WaitRet(j, r, j, t) /\ H("wait", j, 0, "")
     \/ Len(hist) >= 6 /\ StopCall /\ H("stop", 0, 0, "")
     \/ StopRet /\ UNCHANGED hist
GSpec == GInit /\ [][GNext]_gvars
\* a walk is printed when it cannot be extended (depth reached or nothing enabled)
Emit  == (ENABLED GNext) \/ Len(hist) < 4 \/ PrintT("BEHAVIOUR " \o ToJson(hist))
=============================================================================
