---- MODULE Executor_MC_TTrace_1790057476 ----
EXTENDS Executor_MC, Sequences, TLCExt, Executor_MC_TEConstants, Toolbox, Naturals, TLC

_expression ==
    LET Executor_MC_TEExpression == INSTANCE Executor_MC_TEExpression
    IN Executor_MC_TEExpression!expression
----

_trace ==
    LET Executor_MC_TETrace == INSTANCE Executor_MC_TETrace
    IN Executor_MC_TETrace!trace
----

_inv ==
    ~(
        TLCGet("level") = Len(_TETrace)
        /\
        wait = ("no")
        /\
        rt = (2)
        /\
        rdeps = ({1})
        /\
        rtodo = ({})
        /\
        executed = (<<FALSE, FALSE>>)
        /\
        failedT = ({})
        /\
        pushes = (<<1, 2>>)
        /\
        blocked = (<<{2}, {}>>)
        /\
        rkey = ({k1})
        /\
        lock = (<<1, 0>>)
        /\
        wt = (<<1>>)
        /\
        outstanding = (2)
        /\
        rpc = ("idle")
        /\
        err = (-1)
        /\
        stopCalled = (TRUE)
        /\
        execQ = (<<2, 2>>)
        /\
        reading = (<<{}, {}>>)
        /\
        deps = (<<0, 0>>)
        /\
        nxt = (3)
        /\
        wpc = (<<"notifying">>)
        /\
        nodes = ((k1 :> 2))
        /\
        readers = (<<{}, {}>>)
        /\
        keysOf = (<<(k1 :> "w"), (k1 :> "w")>>)
        /\
        rreaders = ({})
        /\
        ended = ({})
        /\
        waitErr = (0)
        /\
        closed = (FALSE)
        /\
        rlt = (1)
        /\
        wset = (<<{}>>)
        /\
        runs = (<<0, 0>>)
    )
----

_init ==
    /\ outstanding = _TETrace[1].outstanding
    /\ nxt = _TETrace[1].nxt
    /\ stopCalled = _TETrace[1].stopCalled
    /\ runs = _TETrace[1].runs
    /\ rlt = _TETrace[1].rlt
    /\ blocked = _TETrace[1].blocked
    /\ deps = _TETrace[1].deps
    /\ execQ = _TETrace[1].execQ
    /\ readers = _TETrace[1].readers
    /\ wset = _TETrace[1].wset
    /\ failedT = _TETrace[1].failedT
    /\ rdeps = _TETrace[1].rdeps
    /\ rkey = _TETrace[1].rkey
    /\ executed = _TETrace[1].executed
    /\ nodes = _TETrace[1].nodes
    /\ rpc = _TETrace[1].rpc
    /\ wait = _TETrace[1].wait
    /\ lock = _TETrace[1].lock
    /\ rt = _TETrace[1].rt
    /\ pushes = _TETrace[1].pushes
    /\ waitErr = _TETrace[1].waitErr
    /\ reading = _TETrace[1].reading
    /\ closed = _TETrace[1].closed
    /\ keysOf = _TETrace[1].keysOf
    /\ rtodo = _TETrace[1].rtodo
    /\ wpc = _TETrace[1].wpc
    /\ rreaders = _TETrace[1].rreaders
    /\ wt = _TETrace[1].wt
    /\ err = _TETrace[1].err
    /\ ended = _TETrace[1].ended
----

_next ==
    /\ \E i,j \in DOMAIN _TETrace:
        /\ \/ /\ j = i + 1
              /\ i = TLCGet("level")
        /\ outstanding  = _TETrace[i].outstanding
        /\ outstanding' = _TETrace[j].outstanding
        /\ nxt  = _TETrace[i].nxt
        /\ nxt' = _TETrace[j].nxt
        /\ stopCalled  = _TETrace[i].stopCalled
        /\ stopCalled' = _TETrace[j].stopCalled
        /\ runs  = _TETrace[i].runs
        /\ runs' = _TETrace[j].runs
        /\ rlt  = _TETrace[i].rlt
        /\ rlt' = _TETrace[j].rlt
        /\ blocked  = _TETrace[i].blocked
        /\ blocked' = _TETrace[j].blocked
        /\ deps  = _TETrace[i].deps
        /\ deps' = _TETrace[j].deps
        /\ execQ  = _TETrace[i].execQ
        /\ execQ' = _TETrace[j].execQ
        /\ readers  = _TETrace[i].readers
        /\ readers' = _TETrace[j].readers
        /\ wset  = _TETrace[i].wset
        /\ wset' = _TETrace[j].wset
        /\ failedT  = _TETrace[i].failedT
        /\ failedT' = _TETrace[j].failedT
        /\ rdeps  = _TETrace[i].rdeps
        /\ rdeps' = _TETrace[j].rdeps
        /\ rkey  = _TETrace[i].rkey
        /\ rkey' = _TETrace[j].rkey
        /\ executed  = _TETrace[i].executed
        /\ executed' = _TETrace[j].executed
        /\ nodes  = _TETrace[i].nodes
        /\ nodes' = _TETrace[j].nodes
        /\ rpc  = _TETrace[i].rpc
        /\ rpc' = _TETrace[j].rpc
        /\ wait  = _TETrace[i].wait
        /\ wait' = _TETrace[j].wait
        /\ lock  = _TETrace[i].lock
        /\ lock' = _TETrace[j].lock
        /\ rt  = _TETrace[i].rt
        /\ rt' = _TETrace[j].rt
        /\ pushes  = _TETrace[i].pushes
        /\ pushes' = _TETrace[j].pushes
        /\ waitErr  = _TETrace[i].waitErr
        /\ waitErr' = _TETrace[j].waitErr
        /\ reading  = _TETrace[i].reading
        /\ reading' = _TETrace[j].reading
        /\ closed  = _TETrace[i].closed
        /\ closed' = _TETrace[j].closed
        /\ keysOf  = _TETrace[i].keysOf
        /\ keysOf' = _TETrace[j].keysOf
        /\ rtodo  = _TETrace[i].rtodo
        /\ rtodo' = _TETrace[j].rtodo
        /\ wpc  = _TETrace[i].wpc
        /\ wpc' = _TETrace[j].wpc
        /\ rreaders  = _TETrace[i].rreaders
        /\ rreaders' = _TETrace[j].rreaders
        /\ wt  = _TETrace[i].wt
        /\ wt' = _TETrace[j].wt
        /\ err  = _TETrace[i].err
        /\ err' = _TETrace[j].err
        /\ ended  = _TETrace[i].ended
        /\ ended' = _TETrace[j].ended

\* Uncomment the ASSUME below to write the states of the error trace
\* to the given file in Json format. Note that you can pass any tuple
\* to `JsonSerialize`. For example, a sub-sequence of _TETrace.
    \* ASSUME
    \*     LET J == INSTANCE Json
    \*         IN J!JsonSerialize("Executor_MC_TTrace_1790057476.json", _TETrace)

=============================================================================

 Note that you can extract this module `Executor_MC_TEExpression`
  to a dedicated file to reuse `expression` (the module in the 
  dedicated `Executor_MC_TEExpression.tla` file takes precedence 
  over the module `Executor_MC_TEExpression` below).

---- MODULE Executor_MC_TEExpression ----
EXTENDS Executor_MC, Sequences, TLCExt, Executor_MC_TEConstants, Toolbox, Naturals, TLC

expression == 
    [
        \* To hide variables of the `Executor_MC` spec from the error trace,
        \* remove the variables below.  The trace will be written in the order
        \* of the fields of this record.
        outstanding |-> outstanding
        ,nxt |-> nxt
        ,stopCalled |-> stopCalled
        ,runs |-> runs
        ,rlt |-> rlt
        ,blocked |-> blocked
        ,deps |-> deps
        ,execQ |-> execQ
        ,readers |-> readers
        ,wset |-> wset
        ,failedT |-> failedT
        ,rdeps |-> rdeps
        ,rkey |-> rkey
        ,executed |-> executed
        ,nodes |-> nodes
        ,rpc |-> rpc
        ,wait |-> wait
        ,lock |-> lock
        ,rt |-> rt
        ,pushes |-> pushes
        ,waitErr |-> waitErr
        ,reading |-> reading
        ,closed |-> closed
        ,keysOf |-> keysOf
        ,rtodo |-> rtodo
        ,wpc |-> wpc
        ,rreaders |-> rreaders
        ,wt |-> wt
        ,err |-> err
        ,ended |-> ended
        
        \* Put additional constant-, state-, and action-level expressions here:
        \* ,_stateNumber |-> _TEPosition
        \* ,_outstandingUnchanged |-> outstanding = outstanding'
        
        \* Format the `outstanding` variable as Json value.
        \* ,_outstandingJson |->
        \*     LET J == INSTANCE Json
        \*     IN J!ToJson(outstanding)
        
        \* Lastly, you may build expressions over arbitrary sets of states by
        \* leveraging the _TETrace operator.  For example, this is how to
        \* count the number of times a spec variable changed up to the current
        \* state in the trace.
        \* ,_outstandingModCount |->
        \*     LET F[s \in DOMAIN _TETrace] ==
        \*         IF s = 1 THEN 0
        \*         ELSE IF _TETrace[s].outstanding # _TETrace[s-1].outstanding
        \*             THEN 1 + F[s-1] ELSE F[s-1]
        \*     IN F[_TEPosition - 1]
    ]

=============================================================================



Parsing and semantic processing can take forever if the trace below is long.
 In this case, it is advised to uncomment the module below to deserialize the
 trace from a generated binary file.

\*
\*---- MODULE Executor_MC_TETrace ----
\*EXTENDS Executor_MC, IOUtils, Executor_MC_TEConstants, TLC
\*
\*trace == IODeserialize("Executor_MC_TTrace_1790057476.bin", TRUE)
\*
\*=============================================================================
\*

---- MODULE Executor_MC_TETrace ----
EXTENDS Executor_MC, Executor_MC_TEConstants, TLC

trace == 
    <<
    ([wait |-> "no",rt |-> 0,rdeps |-> {},rtodo |-> {},executed |-> <<FALSE, FALSE>>,failedT |-> {},pushes |-> <<0, 0>>,blocked |-> <<{}, {}>>,rkey |-> {},lock |-> <<0, 0>>,wt |-> <<0>>,outstanding |-> 0,rpc |-> "idle",err |-> 0,stopCalled |-> FALSE,execQ |-> <<>>,reading |-> <<{}, {}>>,deps |-> <<0, 0>>,nxt |-> 1,wpc |-> <<"take">>,nodes |-> (k1 :> 0),readers |-> <<{}, {}>>,keysOf |-> <<(k1 :> "w"), (k1 :> "w")>>,rreaders |-> {},ended |-> {},waitErr |-> 0,closed |-> FALSE,rlt |-> 0,wset |-> <<{}>>,runs |-> <<0, 0>>]),
    ([wait |-> "no",rt |-> 1,rdeps |-> {},rtodo |-> {k1},executed |-> <<FALSE, FALSE>>,failedT |-> {},pushes |-> <<0, 0>>,blocked |-> <<{}, {}>>,rkey |-> {},lock |-> <<0, 0>>,wt |-> <<0>>,outstanding |-> 1,rpc |-> "keys",err |-> 0,stopCalled |-> FALSE,execQ |-> <<>>,reading |-> <<{}, {}>>,deps |-> <<1, 0>>,nxt |-> 1,wpc |-> <<"take">>,nodes |-> (k1 :> 0),readers |-> <<{}, {}>>,keysOf |-> <<(k1 :> "w"), (k1 :> "w")>>,rreaders |-> {},ended |-> {},waitErr |-> 0,closed |-> FALSE,rlt |-> 0,wset |-> <<{}>>,runs |-> <<0, 0>>]),
    ([wait |-> "no",rt |-> 1,rdeps |-> {},rtodo |-> {},executed |-> <<FALSE, FALSE>>,failedT |-> {},pushes |-> <<0, 0>>,blocked |-> <<{}, {}>>,rkey |-> {},lock |-> <<0, 0>>,wt |-> <<0>>,outstanding |-> 1,rpc |-> "keys",err |-> 0,stopCalled |-> FALSE,execQ |-> <<>>,reading |-> <<{}, {}>>,deps |-> <<1, 0>>,nxt |-> 1,wpc |-> <<"take">>,nodes |-> (k1 :> 1),readers |-> <<{}, {}>>,keysOf |-> <<(k1 :> "w"), (k1 :> "w")>>,rreaders |-> {},ended |-> {},waitErr |-> 0,closed |-> FALSE,rlt |-> 0,wset |-> <<{}>>,runs |-> <<0, 0>>]),
    ([wait |-> "no",rt |-> 1,rdeps |-> {},rtodo |-> {},executed |-> <<FALSE, FALSE>>,failedT |-> {},pushes |-> <<1, 0>>,blocked |-> <<{}, {}>>,rkey |-> {},lock |-> <<0, 0>>,wt |-> <<0>>,outstanding |-> 1,rpc |-> "idle",err |-> 0,stopCalled |-> FALSE,execQ |-> <<1>>,reading |-> <<{}, {}>>,deps |-> <<0, 0>>,nxt |-> 2,wpc |-> <<"take">>,nodes |-> (k1 :> 1),readers |-> <<{}, {}>>,keysOf |-> <<(k1 :> "w"), (k1 :> "w")>>,rreaders |-> {},ended |-> {},waitErr |-> 0,closed |-> FALSE,rlt |-> 0,wset |-> <<{}>>,runs |-> <<0, 0>>]),
    ([wait |-> "no",rt |-> 2,rdeps |-> {},rtodo |-> {k1},executed |-> <<FALSE, FALSE>>,failedT |-> {},pushes |-> <<1, 0>>,blocked |-> <<{}, {}>>,rkey |-> {},lock |-> <<0, 0>>,wt |-> <<0>>,outstanding |-> 2,rpc |-> "keys",err |-> 0,stopCalled |-> FALSE,execQ |-> <<1>>,reading |-> <<{}, {}>>,deps |-> <<0, 1>>,nxt |-> 2,wpc |-> <<"take">>,nodes |-> (k1 :> 1),readers |-> <<{}, {}>>,keysOf |-> <<(k1 :> "w"), (k1 :> "w")>>,rreaders |-> {},ended |-> {},waitErr |-> 0,closed |-> FALSE,rlt |-> 0,wset |-> <<{}>>,runs |-> <<0, 0>>]),
    ([wait |-> "no",rt |-> 2,rdeps |-> {},rtodo |-> {k1},executed |-> <<FALSE, FALSE>>,failedT |-> {},pushes |-> <<1, 0>>,blocked |-> <<{}, {}>>,rkey |-> {},lock |-> <<0, 0>>,wt |-> <<1>>,outstanding |-> 2,rpc |-> "keys",err |-> 0,stopCalled |-> FALSE,execQ |-> <<>>,reading |-> <<{}, {}>>,deps |-> <<0, 1>>,nxt |-> 2,wpc |-> <<"check">>,nodes |-> (k1 :> 1),readers |-> <<{}, {}>>,keysOf |-> <<(k1 :> "w"), (k1 :> "w")>>,rreaders |-> {},ended |-> {},waitErr |-> 0,closed |-> FALSE,rlt |-> 0,wset |-> <<{}>>,runs |-> <<0, 0>>]),
    ([wait |-> "no",rt |-> 2,rdeps |-> {},rtodo |-> {k1},executed |-> <<FALSE, FALSE>>,failedT |-> {},pushes |-> <<1, 0>>,blocked |-> <<{}, {}>>,rkey |-> {k1},lock |-> <<-1, 0>>,wt |-> <<1>>,outstanding |-> 2,rpc |-> "locked",err |-> 0,stopCalled |-> FALSE,execQ |-> <<>>,reading |-> <<{}, {}>>,deps |-> <<0, 1>>,nxt |-> 2,wpc |-> <<"check">>,nodes |-> (k1 :> 1),readers |-> <<{}, {}>>,keysOf |-> <<(k1 :> "w"), (k1 :> "w")>>,rreaders |-> {},ended |-> {},waitErr |-> 0,closed |-> FALSE,rlt |-> 1,wset |-> <<{}>>,runs |-> <<0, 0>>]),
    ([wait |-> "no",rt |-> 2,rdeps |-> {1},rtodo |-> {},executed |-> <<FALSE, FALSE>>,failedT |-> {},pushes |-> <<1, 0>>,blocked |-> <<{2}, {}>>,rkey |-> {k1},lock |-> <<0, 0>>,wt |-> <<1>>,outstanding |-> 2,rpc |-> "keys",err |-> 0,stopCalled |-> FALSE,execQ |-> <<>>,reading |-> <<{}, {}>>,deps |-> <<0, 1>>,nxt |-> 2,wpc |-> <<"check">>,nodes |-> (k1 :> 2),readers |-> <<{}, {}>>,keysOf |-> <<(k1 :> "w"), (k1 :> "w")>>,rreaders |-> {},ended |-> {},waitErr |-> 0,closed |-> FALSE,rlt |-> 1,wset |-> <<{}>>,runs |-> <<0, 0>>]),
    ([wait |-> "no",rt |-> 2,rdeps |-> {1},rtodo |-> {},executed |-> <<FALSE, FALSE>>,failedT |-> {},pushes |-> <<1, 0>>,blocked |-> <<{2}, {}>>,rkey |-> {k1},lock |-> <<0, 0>>,wt |-> <<1>>,outstanding |-> 2,rpc |-> "keys",err |-> -1,stopCalled |-> TRUE,execQ |-> <<>>,reading |-> <<{}, {}>>,deps |-> <<0, 1>>,nxt |-> 2,wpc |-> <<"check">>,nodes |-> (k1 :> 2),readers |-> <<{}, {}>>,keysOf |-> <<(k1 :> "w"), (k1 :> "w")>>,rreaders |-> {},ended |-> {},waitErr |-> 0,closed |-> FALSE,rlt |-> 1,wset |-> <<{}>>,runs |-> <<0, 0>>]),
    ([wait |-> "no",rt |-> 2,rdeps |-> {1},rtodo |-> {},executed |-> <<FALSE, FALSE>>,failedT |-> {},pushes |-> <<1, 0>>,blocked |-> <<{2}, {}>>,rkey |-> {k1},lock |-> <<0, 0>>,wt |-> <<1>>,outstanding |-> 2,rpc |-> "keys",err |-> -1,stopCalled |-> TRUE,execQ |-> <<>>,reading |-> <<{}, {}>>,deps |-> <<0, 1>>,nxt |-> 2,wpc |-> <<"release">>,nodes |-> (k1 :> 2),readers |-> <<{}, {}>>,keysOf |-> <<(k1 :> "w"), (k1 :> "w")>>,rreaders |-> {},ended |-> {},waitErr |-> 0,closed |-> FALSE,rlt |-> 1,wset |-> <<{}>>,runs |-> <<0, 0>>]),
    ([wait |-> "no",rt |-> 2,rdeps |-> {1},rtodo |-> {},executed |-> <<FALSE, FALSE>>,failedT |-> {},pushes |-> <<1, 0>>,blocked |-> <<{2}, {}>>,rkey |-> {k1},lock |-> <<1, 0>>,wt |-> <<1>>,outstanding |-> 2,rpc |-> "keys",err |-> -1,stopCalled |-> TRUE,execQ |-> <<>>,reading |-> <<{}, {}>>,deps |-> <<0, 1>>,nxt |-> 2,wpc |-> <<"notifying">>,nodes |-> (k1 :> 2),readers |-> <<{}, {}>>,keysOf |-> <<(k1 :> "w"), (k1 :> "w")>>,rreaders |-> {},ended |-> {},waitErr |-> 0,closed |-> FALSE,rlt |-> 1,wset |-> <<{2}>>,runs |-> <<0, 0>>]),
    ([wait |-> "no",rt |-> 2,rdeps |-> {1},rtodo |-> {},executed |-> <<FALSE, FALSE>>,failedT |-> {},pushes |-> <<1, 1>>,blocked |-> <<{2}, {}>>,rkey |-> {k1},lock |-> <<1, 0>>,wt |-> <<1>>,outstanding |-> 2,rpc |-> "keys",err |-> -1,stopCalled |-> TRUE,execQ |-> <<2>>,reading |-> <<{}, {}>>,deps |-> <<0, 0>>,nxt |-> 2,wpc |-> <<"notifying">>,nodes |-> (k1 :> 2),readers |-> <<{}, {}>>,keysOf |-> <<(k1 :> "w"), (k1 :> "w")>>,rreaders |-> {},ended |-> {},waitErr |-> 0,closed |-> FALSE,rlt |-> 1,wset |-> <<{}>>,runs |-> <<0, 0>>]),
    ([wait |-> "no",rt |-> 2,rdeps |-> {1},rtodo |-> {},executed |-> <<FALSE, FALSE>>,failedT |-> {},pushes |-> <<1, 2>>,blocked |-> <<{2}, {}>>,rkey |-> {k1},lock |-> <<1, 0>>,wt |-> <<1>>,outstanding |-> 2,rpc |-> "idle",err |-> -1,stopCalled |-> TRUE,execQ |-> <<2, 2>>,reading |-> <<{}, {}>>,deps |-> <<0, 0>>,nxt |-> 3,wpc |-> <<"notifying">>,nodes |-> (k1 :> 2),readers |-> <<{}, {}>>,keysOf |-> <<(k1 :> "w"), (k1 :> "w")>>,rreaders |-> {},ended |-> {},waitErr |-> 0,closed |-> FALSE,rlt |-> 1,wset |-> <<{}>>,runs |-> <<0, 0>>])
    >>
----


=============================================================================

---- MODULE Executor_MC_TEConstants ----
EXTENDS Executor_MC

CONSTANTS k1

=============================================================================

---- CONFIG Executor_MC_TTrace_1790057476 ----
CONSTANTS
    N = 2
    Keys = { k1 }
    NW = 1
    MaxDeps = 1
    OriginalOffset = TRUE
    MaxFail = 0
    Shapes <- ShapesAll
    k1 = k1

INVARIANT
    _inv

CHECK_DEADLOCK
    \* CHECK_DEADLOCK off because of PROPERTY or INVARIANT above.
    FALSE

INIT
    _init

NEXT
    _next

CONSTANT
    _TETrace <- _trace

ALIAS
    _expression
=============================================================================
\* Generated on Tue Sep 22 06:11:24 UTC 2026