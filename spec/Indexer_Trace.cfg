SPECIFICATION TraceSpec
CONSTRAINT HWM
INVARIANT WTypeOK
POSTCONDITION Accepted
CHECK_DEADLOCK FALSE
