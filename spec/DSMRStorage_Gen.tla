-------------------------- MODULE DSMRStorage_Gen --------------------------
(* Behaviour generator (mbt) for C36: random walks of the DSMRStorage model with a history of             *)
(* [operation, arguments, expected result, expected projection]; replayed on the real ChunkStorage by     *)
(* drivers/x/dsmr TestVerifStorageReplay.  Chunk sizes are in transactions (1, 2, 4).                     *)
EXTENDS DSMRStorage_MC, Json, Sequences, SequencesExt

CONSTANTS Depth
VARIABLE hist
gvars == <<mvars, hist>>

Rec(op, c, flag, t, save) ==
  [op |-> op, c |-> c, flag |-> flag, t |-> t, save |-> SetToSeq(save), res |-> res',
   pend |-> SetToSeq(pend'), get |-> SetToSeq(pend' \cup dAcc'), min |-> min', w |-> w', attr |-> attr]

GInit == MCInit /\ hist = <<[op |-> "init", c |-> "", flag |-> FALSE, t |-> 0, save |-> <<>>, res |-> "init",
                             pend |-> <<>>, get |-> <<>>, min |-> 0, w |-> w, attr |-> attr]>>

GNext ==
  /\ Len(hist) < Depth /\ UNCHANGED atom
  /\ \/ \E c \in Chunks : AddLocal(c) /\ hist' = Append(hist, Rec("addlocal", c, TRUE, 0, {}))
     \/ \E c \in Chunks, ok \in BOOLEAN : VerifyRemote(c, ok) /\ hist' = Append(hist, Rec("remote", c, ok, 0, {}))
     \/ \E c \in Chunks, v \in BOOLEAN : SetCert(c, v) /\ hist' = Append(hist, Rec("setcert", c, v, 0, {}))
     \/ \E t \in min..(IF min + 2 > MaxT THEN MaxT ELSE min + 2), save \in SUBSET pend :
           SetMin(t, save) /\ hist' = Append(hist, Rec("setmin", "", FALSE, t, save))
     \/ \E t \in min..(IF min + 1 > MaxT THEN MaxT ELSE min + 1) :    \* weight: save everything that is pending
           SetMin(t, pend) /\ hist' = Append(hist, Rec("setmin", "", FALSE, t, pend))
     \/ Reopen({}) /\ hist' = Append(hist, Rec("reopen", "", FALSE, 0, {}))

GSpec == GInit /\ [][GNext]_gvars
Emit  == Len(hist) < Depth \/ PrintT("BEHAVIOUR " \o ToJson(hist))
=============================================================================
