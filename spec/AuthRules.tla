----------------------------- MODULE AuthRules -----------------------------
(* C16 - the rules shared by the design model (AuthBatch.tla) and the trace   *)
(* specification (AuthBatch_Trace.tla): what the verdict of a block's         *)
(* signature check must be, and what "every signature was checked" means for  *)
(* a set of verification tasks.                                               *)
EXTENDS Integers, Sequences, FiniteSets

Max(a, b) == IF a > b THEN a ELSE b
(* auth/ed25519.go GetBatchVerifier *)
BatchSizeOf(count, cores, minBatch) == Max(count \div cores, minBatch)

(* valid: position -> BOOLEAN (does the transaction's auth verify over its unsigned bytes) *)
AllValidOf(valid)      == \A i \in DOMAIN valid : valid[i]
ExpectedVerdict(valid) == IF AllValidOf(valid) THEN "ok" ELSE "fail"

(* tasks: a set of sets of positions; every position of pos belongs to some task *)
Covers(tasks, pos) == pos \subseteq UNION tasks
=============================================================================
