------------------------------ MODULE VmOptions ------------------------------
(* vm/option.go + vm.New / VM.Initialize option wiring (extra module X15).   *)
(*                                                                           *)
(* An Option = (namespace, optionFunc).  NewOption(ns, default, f) builds    *)
(* the optionFunc as a closure over ONE variable `config` initialised with   *)
(* the default; every VM created from the same Option (vm.Factory.New hands  *)
(* its options to every VM it creates) calls the closure with the raw JSON   *)
(* found under ns in that VM's config:                                       *)
(*     if len(raw) > 0 { json.Unmarshal(raw, &config) }  ;  f(vm, config)    *)
(* cfgvar models that captured variable.  The returned Opts are folded into  *)
(* one Options value (acc).                                                  *)
(* Configs are records over the fields a, b; a raw config is                 *)
(*   [kind |-> "none"]                       no / empty entry                *)
(*   [kind |-> "obj", ha, a, hb, b]          a JSON object setting a and/or b *)
(*   [kind |-> "syntax"]                     not JSON                         *)
(*   [kind |-> "type", hb, b]                field a has the wrong JSON type  *)
EXTENDS Integers, Sequences

CONSTANTS Vals, DefA, DefB,
          MaxPrims,
          Variant         \* "code" | "fresh" (the closure starts from the default at every call)

VARIABLES cfgvar, res, acc, hist
vars == <<cfgvar, res, acc, hist>>

Default == [a |-> DefA, b |-> DefB]
NoCfg == [a |-> -1, b |-> -1]
Overlay(c, r) == [a |-> IF r.ha THEN r.a ELSE c.a, b |-> IF r.hb THEN r.b ELSE c.b]

Raws == {[kind |-> "none", ha |-> FALSE, a |-> 0, hb |-> FALSE, b |-> 0],
         [kind |-> "syntax", ha |-> FALSE, a |-> 0, hb |-> FALSE, b |-> 0]}
        \cup {[kind |-> "obj", ha |-> ha, a |-> (IF ha THEN a ELSE 0), hb |-> hb, b |-> (IF hb THEN b ELSE 0)] :
                ha \in BOOLEAN, hb \in BOOLEAN, a \in Vals, b \in Vals}
        \cup {[kind |-> "type", ha |-> FALSE, a |-> 0, hb |-> hb, b |-> (IF hb THEN b ELSE 0)] : hb \in BOOLEAN, b \in Vals}

Prims == {[k |-> "builder", ids |-> <<>>], [k |-> "gossiper", ids |-> <<>>], [k |-> "manual", ids |-> <<>>],
          [k |-> "subs", ids |-> <<1>>], [k |-> "subs", ids |-> <<2, 3>>], [k |-> "subs", ids |-> <<>>],
          [k |-> "apis", ids |-> <<4>>], [k |-> "apis", ids |-> <<5, 6>>]}

Acc0 == [builder |-> FALSE, gossiper |-> FALSE, subs |-> <<>>, apis |-> <<>>]
Init == cfgvar = Default /\ acc = Acc0 /\ hist = <<>>
        /\ res = [raw |-> CHOOSE r \in Raws : r.kind = "none", err |-> FALSE, called |-> 1, cfg |-> Default]

(* the captured variable after one run of the closure that started from `start` *)
NextCfg(start, r) ==
  CASE r.kind = "none"   -> start
    [] r.kind = "obj"    -> Overlay(start, r)
    [] r.kind = "syntax" -> start                \* encoding/json checks the syntax before it touches the target
    [] r.kind = "type"   -> Overlay(start, r)    \* a type error is reported after the other fields were set
Undecodable(r) == r.kind \in {"syntax", "type"}

(* one VM runs the Option's optionFunc with the raw config it found under the namespace *)
Invoke(r) ==
  LET start == IF Variant = "fresh" THEN Default ELSE cfgvar
  IN /\ cfgvar' = NextCfg(start, r)
     /\ res' = IF Undecodable(r) THEN [raw |-> r, err |-> TRUE, called |-> 0, cfg |-> NoCfg]
                ELSE [raw |-> r, err |-> FALSE, called |-> 1, cfg |-> cfgvar']

(* Opt.apply of one primitive option *)
ApplyFn(o, p) ==
  CASE p.k = "builder"  -> [o EXCEPT !.builder = TRUE]
    [] p.k = "gossiper" -> [o EXCEPT !.gossiper = TRUE]
    [] p.k = "manual"   -> [o EXCEPT !.builder = TRUE, !.gossiper = TRUE]
    [] p.k = "subs"     -> [o EXCEPT !.subs = @ \o p.ids]
    [] p.k = "apis"     -> [o EXCEPT !.apis = @ \o p.ids]
Apply(p) == Len(hist) < MaxPrims /\ acc' = ApplyFn(acc, p) /\ hist' = Append(hist, p)

Next == (\E r \in Raws : Invoke(r) /\ UNCHANGED <<acc, hist>>) \/ (\E p \in Prims : Apply(p) /\ UNCHANGED <<cfgvar, res>>)
Spec == Init /\ [][Next]_vars

(* ---------------- properties ---------------- *)
(* O1  every invocation hands f the DEFAULT overlaid with that VM's own raw config - whatever other VMs configured *)
FreshDefault == (~res.err /\ res.called = 1) => res.cfg = (IF res.raw.kind = "obj" THEN Overlay(Default, res.raw) ELSE Default)
(* O2  f runs exactly once iff the raw config is absent or decodes; otherwise an error and f does not run *)
CalledIffDecodes == /\ res.err <=> res.raw.kind \in {"syntax", "type"}
                    /\ res.called = (IF res.err THEN 0 ELSE 1)
(* O3  the folded Options are the flags OR-ed and the factories concatenated in application order *)
RECURSIVE Cat(_, _)
Cat(s, k) == IF s = <<>> THEN <<>> ELSE (IF Head(s).k = k THEN Head(s).ids ELSE <<>>) \o Cat(Tail(s), k)
AccIsFold == /\ acc.builder  = (\E i \in DOMAIN hist : hist[i].k \in {"builder", "manual"})
             /\ acc.gossiper = (\E i \in DOMAIN hist : hist[i].k \in {"gossiper", "manual"})
             /\ acc.subs = Cat(hist, "subs") /\ acc.apis = Cat(hist, "apis")
(* O4  vm.New accepts a list of options iff their namespaces are pairwise different *)
NamespacesOK(nss) == \A i, j \in DOMAIN nss : nss[i] = nss[j] => i = j
=============================================================================
