----------------------------- MODULE Indexer_MC -----------------------------
EXTENDS Indexer, TLC
CONSTANTS Windows
MCInit == \E win \in Windows : Init(win)
MCNext == (\E h \in Heights : Notify(h)) \/ Restart
MCSpec == MCInit /\ [][MCNext]_vars
=============================================================================
