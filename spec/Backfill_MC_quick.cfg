SPECIFICATION MCSpec
CONSTANTS
  NC = 3
  NF = 1
  WinC = 2
  CursorFromAccepted = TRUE
  StrictForward = TRUE
  StopAtGenesis = TRUE
  MaxFaults = 2
INVARIANTS SavedAreTrueAncestorsContiguous CompleteWhenDone
PROPERTIES Completes DoneWhenNothingLeft
CHECK_DEADLOCK FALSE
