SPECIFICATION MCSpec
CONSTANTS
  NC = 3
  WinC = 2
  StopAtGenesis = TRUE
  MaxFaults = 2
INVARIANTS SavedAreTrueAncestorsContiguous CompleteWhenDone
PROPERTIES Completes DoneWhenNothingLeft
CHECK_DEADLOCK FALSE
