---------------------------- MODULE DsmrHandlers ----------------------------
(* x/dsmr/p2p.go (extra module X09): the three p2p handlers of a DSMR node   *)
(* over its chunk storage - GetChunk, the ACP-118 signature request verifier *)
(* and the chunk certificate gossip handler.                                 *)
(* Chunks are numbers with attributes prod[c] (producer), ok[c] (valid:      *)
(* producer is a validator, signature and expiry fine), size 1.              *)
(*  held     pending chunks the node stores; weight[p] their number per       *)
(*           producer; cert: held chunks with a stored certificate           *)
(*  signed   monitor: <<message chunk, was it held when signed>> for every   *)
(*           signature the node has given;  res: result of the last call     *)
(* A signature request carries the message to sign (a chunk reference, here  *)
(* the number m) and a justification (chunk j, or 0 for bytes that do not    *)
(* parse).  Fixed = TRUE is the intended behaviour; Fixed = FALSE the        *)
(* handlers as originally written: the message is not compared with the      *)
(* justification (fixMsg; recorded as a known finding - the package's own    *)
(* test relies on it), and a repeated request for a held chunk is            *)
(* rate-limited again and then dereferences the missing certificate          *)
(* (fixDup; fixes/X09-repeated-chunk-signature-request.patch).               *)
EXTENDS Integers, FiniteSets

CONSTANTS Chunks, Prod0, Ok0, Producers, Limit0, Fixed

VARIABLES att,      \* [prod, ok, limit]: attributes and the rule limit (variables so that DsmrHandlers_Trace can load a
                    \* recorded scenario; ok changes only when chunks expire)
          held, cert, signed, res
vars == <<att, held, cert, signed, res>>
Prod  == att.prod
Ok    == att.ok
Limit == att.limit

Weight(h, p) == Cardinality({c \in h : Prod[c] = p})

Init == att = [prod |-> Prod0, ok |-> Ok0, limit |-> Limit0] /\ held = {} /\ cert = {} /\ signed = {} /\ res = "init"

(* ChunkSignatureRequestVerifier.Verify + the acp118 handler signing the message: result and stored set *)
SigOutcome3(m, j, fixMsg, fixDup, okj) ==      \* okj: the justification passes ChunkVerifier.Verify
  LET no == [res |-> "refused", held |-> held] IN
  IF j = 0 THEN no                                                   \* ParseChunk fails
  ELSE IF fixMsg /\ m # j THEN no                                    \* the message is not j's reference
  ELSE IF ~okj THEN no
  ELSE IF j \in held THEN                                            \* repeated request
       IF fixDup THEN [res |-> "signed", held |-> held]
       ELSE IF Weight(held, Prod[j]) + 1 > Limit THEN no             \* rate-limited again
       ELSE IF j \notin cert THEN [res |-> "panic", held |-> held]   \* chunkCertInfo.Cert.Signature with Cert == nil
       ELSE [res |-> "signed", held |-> held]
  ELSE IF Weight(held, Prod[j]) + 1 > Limit THEN no
  ELSE [res |-> "signed", held |-> held \cup {j}]

SigOutcome(m, j, fixed) == SigOutcome3(m, j, fixed, fixed, IF j = 0 THEN FALSE ELSE Ok[j])

SigRequest(m, j) ==
  LET o == SigOutcome(m, j, Fixed) IN
  /\ res' = o.res /\ held' = o.held
  /\ signed' = IF o.res = "signed" THEN signed \cup {<<m, m \in o.held>>} ELSE signed
  /\ UNCHANGED <<att, cert>>

GetChunk(c) == res' = (IF c \in held THEN "served" ELSE "not-available") /\ UNCHANGED <<att, held, cert, signed>>
Gossip(c, good) == /\ cert' = (IF c \in held /\ good THEN cert \cup {c} ELSE cert)
                   /\ res' = "gossip" /\ UNCHANGED <<att, held, signed>>
(* SetMin: some held chunks expire *)
Expire(S) == /\ S # {} /\ S \subseteq held /\ held' = held \ S /\ cert' = cert \ S /\ res' = "expired" /\ UNCHANGED signed
             /\ att' = [att EXCEPT !.ok = [c \in DOMAIN att.ok |-> att.ok[c] /\ c \notin S]]      \* an expired chunk is no longer valid

Next == \/ \E m \in Chunks, j \in Chunks \cup {0} : SigRequest(m, j)
        \/ \E c \in Chunks : GetChunk(c) \/ \E g \in BOOLEAN : Gossip(c, g)
        \/ \E S \in SUBSET Chunks : Expire(S)
Spec == Init /\ [][Next]_vars

(* ---------------- properties ---------------- *)
(* D2  a node only signs the reference of a chunk it stores at that moment *)
SignsOnlyStored == \A s \in signed : s[2]
(* D2  only valid chunks are stored through signature requests, and a request never crashes the node *)
StoresOnlyValid == \A c \in held : Ok[c]
NoPanic         == res # "panic"
(* D3  the per-producer limit on pending chunks is never exceeded *)
WithinLimit == \A p \in Producers : Weight(held, p) <= Limit
(* D2  a repeated request for a stored chunk is answered again and changes nothing *)
Idempotent == [][\A c \in Chunks : (c \in held /\ SigRequest(c, c)) => (res' = "signed" /\ held' = held)]_vars
(* D1  GetChunk serves exactly what is held;  D4  a certificate is only kept for a held chunk *)
ServesHeld == [][\A c \in Chunks : GetChunk(c) => (res' = "served" <=> c \in held)]_vars
CertsOfHeld == cert \subseteq held
=============================================================================
