SPECIFICATION Spec
CONSTANTS
  States = {"sync", "normal"}
  Names = {"a", "b"}
  MaxHooks = 3
  Variant = "closerstop"
PROPERTIES SetStateOK ShutdownOK HealthOK FirstRegistrationStays
CHECK_DEADLOCK FALSE
