SPECIFICATION TraceSpec
CONSTANTS
  Sponsors = {"s1", "s2", "s3"}
  Txs = {"t1", "t2", "t3", "t4", "t5", "t6"}
CONSTRAINT HWM
INVARIANTS LTypeOK WithinMax
POSTCONDITION Accepted
CHECK_DEADLOCK FALSE
