--------------------------- MODULE MsgBuffer_Trace ---------------------------
(* C32 binding step: executions recorded from the real pubsub.MessageBuffer  *)
(* (external test package: Send / Close / reads of the exported Queue) are   *)
(* replayed through the MsgBuffer actions.                                   *)
(*                                                                           *)
(* The trace spec states the PROPERTY, not today's batching policy: a Send   *)
(* that returned nil may or may not be preceded by a flush (SendAccept with  *)
(* either flag), a flush may happen silently at any time while something is  *)
(* pending (timer), Close must flush what is pending.  What the consumer     *)
(* reads from Queue must be exactly the head of the spec's queue - so every  *)
(* accepted message comes out once, in order, unless its batch was flushed   *)
(* into a full queue - the real encoded length must equal the spec's         *)
(* WireSize of that batch (binding) and stay <= max (property): a drained    *)
(* batch longer than max is a line the spec cannot explain.                  *)
(* Choices the log does not determine (flush or not while the queue is full) *)
(* are searched by TLC; VIEW drops the history variables so that the search  *)
(* stays linear.                                                             *)
EXTENDS MsgBuffer, TLC, Json, IOUtils, SequencesExt

VARIABLE l          \* next line of Trace to explain

Trace == ndJsonDeserialize(IOEnv.TRACE)
N     == Len(Trace)
tvars == <<vars, l>>
T     == Trace[l]
Ev(e) == l <= N /\ Trace[l].ev = e /\ l' = l + 1

MsgOf(r)   == [len |-> r.len, fp |-> r.fp]
BatchOf(s) == [i \in DOMAIN s |-> MsgOf(s[i])]
(* the most that framing can add to one message (tag + 10-byte varint): an implementation may refuse
   a message for its size only if it could not be batched on its own under the most cautious estimate *)
MaxFraming == 11

TraceInit ==
  /\ l = 2 /\ TLCSet(1, 1)
  /\ Trace[1].ev = "reset"
  /\ InitWith(Trace[1].max, Trace[1].cap)

TReset ==
  /\ Ev("reset")
  /\ conf' = [max |-> T.max, cap |-> T.cap]
  /\ pending' = <<>> /\ pendingSize' = 0 /\ queue' = <<>> /\ closed' = FALSE /\ res' = "init"
  /\ accepted' = <<>> /\ out' = <<>> /\ ndrained' = 0

Same == UNCHANGED <<conf, pending, pendingSize, queue, closed, accepted, out, ndrained>>

TSend ==
  /\ Ev("send")
  /\ \/ T.res = "ok" /\ \E f \in BOOLEAN : SendAccept(MsgOf(T), Framed, f)
     \/ T.res = "closed" /\ closed /\ res' = "closed" /\ Same
     \/ T.res = "toolarge" /\ ~closed /\ T.len + MaxFraming > conf.max /\ res' = "toolarge" /\ Same

(* silent step: the timer callback ran *)
TTimer == l <= N /\ TimerFlush /\ UNCHANGED l

TClose ==
  /\ Ev("close")
  /\ \/ T.res = "ok" /\ \E f \in BOOLEAN : (pending # <<>> => f) /\ CloseWith(f)
     \/ T.res = "closed" /\ closed /\ res' = "closed" /\ Same

(* one non-blocking read of Queue: got = 1 a batch, 0 nothing there, -1 channel closed and empty *)
TDrain ==
  /\ Ev("drain")
  /\ \/ /\ T.got = 1 /\ Drain
        /\ BatchOf(T.msgs) = Head(queue)               \* decodes back to the original messages, in order
        /\ T.wire = WireSize(Head(queue))              \* binding: the spec's size function is the real encoding's
        /\ T.wire <= conf.max                          \* property: an emitted batch encodes to at most max
     \/ T.got = 0  /\ queue = <<>> /\ ~closed /\ res' = "empty" /\ Same
     \/ T.got = -1 /\ queue = <<>> /\ closed  /\ res' = "eof"   /\ Same

(* len(Queue) read by the driver *)
TObs  == Ev("obs") /\ T.qlen = Len(queue) /\ UNCHANGED vars
TTick == Ev("tick") /\ UNCHANGED vars

TraceNext == TReset \/ TSend \/ TTimer \/ TClose \/ TDrain \/ TObs \/ TTick
TraceSpec == TraceInit /\ [][TraceNext]_tvars

TraceView == <<conf, pending, queue, closed, l>>
HWM      == TLCSet(1, IF TLCGet(1) > l - 1 THEN TLCGet(1) ELSE l - 1)
Accepted == PrintT(<<"TRACE_HWM", TLCGet(1)>>) /\ TLCGet(1) = N
=============================================================================
