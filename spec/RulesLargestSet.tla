-------------------------- MODULE RulesLargestSet --------------------------
(* C33 - statement-level transcription of fees/set.go:LargestSet           *)
(*   1. weight of every vector  = sum_k (65536 * d[k]^2) div lim[k]^2       *)
(*   2. stable sort of the indices by weight                                *)
(*   3. greedy accumulate in that order; an item that cannot be added       *)
(*      (Dimensions.CanAdd) is replaced by the sentinel N = len(dimensions) *)
(*   4. compaction: remove the sentinels                                    *)
(* Step 4 exists twice: CompactFixed is the behaviour after the fix         *)
(* fixes/C33-largestset-compaction.patch; CompactAsOriginallyCoded is the   *)
(* loop as it was written (it stops shifting at the first sentinel and      *)
(* drops everything behind it while the total keeps those items).           *)
(* The property itself is RulesLargestSetPost!Post and does not mention     *)
(* weights or order.  The int64 cast of the weight computation (values      *)
(* >= 2^63) only changes the order and is not modelled; rows in that range  *)
(* are checked against Post by Apalache.                                    *)
EXTENDS RulesLargestSetPost, TLC

Shift == 65536

Iota(n) == [i \in 1..n |-> i]

Weight(d, lim) ==
  FoldLeft(LAMBDA a, k : a + (IF lim[k] > 0 THEN (Shift * d[k] * d[k]) \div (lim[k] * lim[k]) ELSE 0),
           0, Iota(Len(lim)))

(* sort.SliceStable by weight == sort by (weight, original index) *)
Order(dims, lim) ==
  LET w == [i \in 1..Len(dims) |-> Weight(dims[i], lim)]
  IN  SortSeq([i \in 1..Len(dims) |-> i - 1],
              LAMBDA a, b : w[a + 1] < w[b + 1] \/ (w[a + 1] = w[b + 1] /\ a < b))

CanAdd(acc, d, lim) == \A k \in DOMAIN lim : acc[k] + d[k] <= lim[k]
AddV(acc, d)        == [k \in DOMAIN acc |-> acc[k] + d[k]]

(* greedy pass: [acc, out] where out still contains the sentinel Len(dims) *)
Greedy(dims, lim) ==
  FoldLeft(LAMBDA st, ix :
             IF CanAdd(st.acc, dims[ix + 1], lim)
             THEN [acc |-> AddV(st.acc, dims[ix + 1]), out |-> Append(st.out, ix)]
             ELSE [acc |-> st.acc, out |-> Append(st.out, Len(dims))],
           [acc |-> [k \in DOMAIN lim |-> 0], out |-> <<>>],
           Order(dims, lim))

CompactFixed(out, n) == SelectSeq(out, LAMBDA x : x # n)

(* j := 0; for i := 0; i < len(out)-j; i++ {                               *)
(*    if out[i] == n { j++; i--; continue }   -- re-tests the same slot    *)
(*    out[i] = out[i+j] }                                                  *)
(* out = out[:len(out)-j]                                                  *)
RECURSIVE CompactLoop(_, _, _, _)
CompactLoop(out, n, i, j) ==
  IF ~(i < Len(out) - j) THEN SubSeq(out, 1, Len(out) - j)
  ELSE IF out[i + 1] = n THEN CompactLoop(out, n, i, j + 1)
  ELSE CompactLoop([out EXCEPT ![i + 1] = out[i + j + 1]], n, i + 1, j)
CompactAsOriginallyCoded(out, n) == CompactLoop(out, n, 0, 0)

LargestSet(dims, lim) ==
  LET g == Greedy(dims, lim) IN [idx |-> CompactFixed(g.out, Len(dims)), tot |-> g.acc]

LargestSetAsOriginallyCoded(dims, lim) ==
  LET g == Greedy(dims, lim) IN [idx |-> CompactAsOriginallyCoded(g.out, Len(dims)), tot |-> g.acc]

(* the region in which the original loop went wrong: a sentinel that is    *)
(* followed by a selected item                                             *)
SkipBeforeSelected(dims, lim) ==
  LET o == Greedy(dims, lim).out IN
  \E i \in DOMAIN o : \E j \in DOMAIN o : i < j /\ o[i] = Len(dims) /\ o[j] # Len(dims)
=============================================================================
