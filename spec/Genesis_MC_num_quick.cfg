SPECIFICATION Spec
CONSTANTS
  MAXU = 2
  MaxAllocs = 4
  NDims = 1
  MaxPrice = 0
  CheckSupply = TRUE
INVARIANTS PropertyHolds FoldAgrees NumAgrees
CHECK_DEADLOCK FALSE
