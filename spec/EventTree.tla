----------------------------- MODULE EventTree ------------------------------
(* event/event.go (extra module X04): subscriptions, NotifyAll, Aggregate    *)
(* and Map - the plumbing through which the consensus wrapper tells the VM,  *)
(* the indexer, the gossiper and the websocket server about verified /       *)
(* accepted / rejected blocks.                                               *)
(* A subscription is a tree:                                                 *)
(*   [kind |-> "leaf", id, nfail, cfail, closer]  a sink (SubscriptionFunc); *)
(*                 Notify / Close fail when nfail / cfail; closer = FALSE:   *)
(*                 no Closer function was given, Close is a successful no-op *)
(*   [kind |-> "agg", kids |-> <<...>>]    Aggregate(kids...)                *)
(*   [kind |-> "map", add, kid]            Map(x -> x + add, kid)            *)
(*  - implementation: Notify / Close evaluated as the code does (NotifyAll   *)
(*    loops over all subscriptions and joins the errors);                    *)
(*  - property: the flattened reading - the leaves left to right, each with  *)
(*    the event mapped along its path.                                       *)
(* A result is [log |-> sequence of <<leaf id, value>>, errs |-> set of ids  *)
(* of the leaves whose error is contained in the returned error].            *)
EXTENDS Integers, Sequences, FiniteSets

CONSTANTS Variant     \* "code" | "shortcircuit" (NotifyAll returns at the first failure)

Empty == [log |-> <<>>, errs |-> {}]
Join(a, b) == [log |-> a.log \o b.log, errs |-> a.errs \cup b.errs]

(* ---------------- implementation ---------------- *)
RECURSIVE INotify(_, _), INotifyAll(_, _), IClose(_), ICloseAll(_)
INotifyAll(subs, x) ==
  IF subs = <<>> THEN Empty
  ELSE LET r == INotify(Head(subs), x) IN
       IF Variant = "shortcircuit" /\ r.errs # {} THEN r ELSE Join(r, INotifyAll(Tail(subs), x))
INotify(n, x) ==
  IF n.kind = "leaf" THEN [log |-> <<<<n.id, x>>>>, errs |-> IF n.nfail THEN {n.id} ELSE {}]
  ELSE IF n.kind = "agg" THEN INotifyAll(n.kids, x)
  ELSE INotify(n.kid, x + n.add)
ICloseAll(subs) == IF subs = <<>> THEN Empty ELSE Join(IClose(Head(subs)), ICloseAll(Tail(subs)))
IClose(n) ==
  IF n.kind = "leaf" THEN (IF ~n.closer THEN Empty ELSE [log |-> <<<<n.id, 0>>>>, errs |-> IF n.cfail THEN {n.id} ELSE {}])
  ELSE IF n.kind = "agg" THEN ICloseAll(n.kids)
  ELSE IClose(n.kid)

(* ---------------- property: flattened reading ---------------- *)
RECURSIVE Leaves(_, _), LeavesAll(_, _)
LeavesAll(subs, off) == IF subs = <<>> THEN <<>> ELSE Leaves(Head(subs), off) \o LeavesAll(Tail(subs), off)
Leaves(n, off) ==         \* sequence of [leaf, off] left to right; off = sum of the maps on the path
  IF n.kind = "leaf" THEN <<[leaf |-> n, off |-> off]>>
  ELSE IF n.kind = "agg" THEN LeavesAll(n.kids, off)
  ELSE Leaves(n.kid, off + n.add)

(* E1/E2/E3  every sink is notified exactly once per occurrence in the tree, left to right, with the event mapped
   along its path, whether or not other sinks fail; the call fails iff some sink failed and the returned error
   contains exactly the failing sinks' errors *)
NotifySpec(n, x) ==
  LET ls == Leaves(n, 0) IN
  [log  |-> [i \in DOMAIN ls |-> <<ls[i].leaf.id, x + ls[i].off>>],
   errs |-> {ls[i].leaf.id : i \in {j \in DOMAIN ls : ls[j].leaf.nfail}}]
(* E2/E3  Close reaches every sink exactly once, left to right, whether or not other sinks fail to close *)
CloseSpec(n) ==
  LET ls == SelectSeq(Leaves(n, 0), LAMBDA e : e.leaf.closer) IN
  [log  |-> [i \in DOMAIN ls |-> <<ls[i].leaf.id, 0>>],
   errs |-> {ls[i].leaf.id : i \in {j \in DOMAIN ls : ls[j].leaf.cfail}}]
=============================================================================
