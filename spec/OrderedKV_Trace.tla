---------------------------- MODULE OrderedKV_Trace -------------------------
(* Trace validation of the real internal/pebble.Database (X12) against       *)
(* OrderedKV.tla.  Keys are logged as arrays of byte values.  Lines:         *)
(*   put {k, v, res}  del {k, res}  delrange {s, e, res}                     *)
(*   get {k, res, v, has, hasres}                                            *)
(*   bput {k, v, res, size}  bdel {k, res, size}  bwrite {res}               *)
(*   breset {res, size, fresh}  breplay {res, ops}  resync {items}           *)
(*   iter {kind, start, prefix, mid, mk, mv, items, res, afterkey}  an       *)
(*        iterator created, (mid) one Put done, then drained: items =        *)
(*        [[key, value], ...]                                                *)
(*   compact {s, e, nil, res}   reopen {res}   closed {…}  calls after Close *)
(* The module's own actions are taken with the logged arguments; results and *)
(* iterations are compared with the ordered map.                             *)
EXTENDS OrderedKV, TLC, Json, IOUtils

VARIABLES l, written, diag
tvars == <<vars, l, written, diag>>

Trace == ndJsonDeserialize(IOEnv.TRACE)
N     == Len(Trace)
T     == Trace[l]
Ev(e) == l <= N /\ Trace[l].ev = e /\ l' = l + 1
Name(ok, nm) == IF ok THEN {} ELSE {nm}
TVals == 0..255

RECURSIVE Sorted(_)
Sorted(S) == IF S = {} THEN <<>> ELSE LET m == CHOOSE x \in S : \A y \in S : Leq(x, y) IN <<m>> \o Sorted(S \ {m})
Selected(kind, s, p) == {k \in DOMAIN db : CASE kind = "all" -> ItAll(k) [] kind = "start" -> ItStart(k, s)
                                             [] kind = "prefix" -> ItPrefix(k, p) [] OTHER -> ItStartPrefix(k, s, p)}
Promised(kind, s, p) == {k \in DOMAIN db : CASE kind = "all" -> TRUE [] kind = "start" -> Leq(s, k)
                                             [] kind = "prefix" -> HasPrefix(k, p) [] OTHER -> HasPrefix(k, p) /\ Leq(s, k)}

TraceInit == l = 1 /\ TLCSet(1, 0) /\ db = <<>> /\ batch = <<>> /\ res = "init" /\ written = FALSE /\ diag = {}
TReset == Ev("reset") /\ db' = <<>> /\ batch' = <<>> /\ res' = "init" /\ written' = FALSE /\ diag' = {}

Ok == Name(T.res = "ok", "call-failed")
TPut == Ev("put") /\ Put(T.k, T.v) /\ UNCHANGED written /\ diag' = Ok
TDel == Ev("del") /\ Delete(T.k) /\ UNCHANGED written /\ diag' = Ok
TDelRange == Ev("delrange") /\ DeleteRange(T.s, T.e) /\ UNCHANGED written /\ diag' = Ok
TGet == /\ Ev("get") /\ UNCHANGED <<vars, written>>
        /\ diag' = IF T.k \in DOMAIN db
                   THEN Name(T.res = "ok" /\ T.v = db[T.k], "get-latest-value") \cup Name(T.has /\ T.hasres = "ok", "has")
                   ELSE Name(T.res = "notfound", "get-of-absent-key") \cup Name(~T.has /\ T.hasres = "ok", "has")
TBPut == Ev("bput") /\ batch' = Append(batch, [kind |-> "put", k |-> T.k, v |-> T.v]) /\ UNCHANGED <<db, res, written>>
         /\ diag' = Ok \cup Name(T.size > 0, "batch-size")
TBDel == Ev("bdel") /\ batch' = Append(batch, [kind |-> "del", k |-> T.k, v |-> 0]) /\ UNCHANGED <<db, res, written>>
         /\ diag' = Ok \cup Name(T.size > 0, "batch-size")
(* Known finding KF_X12_batch_reuse: Write closes the pebble batch (returns it to pebble's pool), so the avalanchego
   idiom Write / Reset / reuse / Write works on a released object: usually a nil dereference inside pebble, sometimes
   a write that "succeeds".  The effect is not predicted: the driver reads the contents back (resync). *)
TBWrite ==
  /\ Ev("bwrite") /\ UNCHANGED batch /\ written' = TRUE
  /\ IF T.reused THEN /\ db' = ApplyAll(db, batch) /\ res' = T.res             \* the intended effect; see TResync
                      /\ (IF T.res # "ok" THEN PrintT(<<"KF_HIT", "batch-reuse-after-write", l>>) ELSE TRUE) /\ diag' = {}
     ELSE db' = ApplyAll(db, batch) /\ res' = "ok" /\ diag' = Name(T.res = "ok", "batch-write-failed")
TResync ==
  /\ Ev("resync") /\ UNCHANGED <<batch, written>>
  /\ LET seen == [k \in {T.items[i][1] : i \in DOMAIN T.items} |-> T.items[CHOOSE i \in DOMAIN T.items : T.items[i][1] = k][2]] IN
     /\ db' = seen /\ res' = "ok"
     /\ (IF seen # db /\ res = "ok" THEN PrintT(<<"KF_HIT", "batch-reuse-after-write", l>>) ELSE TRUE)
     /\ diag' = {}
TBReset == /\ Ev("breset") /\ batch' = <<>> /\ UNCHANGED <<db, res>> /\ written' = (IF T.fresh THEN FALSE ELSE written)
           /\ diag' = Ok \cup Name(T.size = 0, "batch-size-after-reset")
TBReplay == /\ Ev("breplay") /\ UNCHANGED <<vars, written>>
            /\ diag' = IF written /\ T.res # "ok" THEN {} ELSE Ok \cup Name(T.ops = batch, "replay-reproduces-the-operations-in-order")

TIter ==
  /\ Ev("iter") /\ UNCHANGED <<batch, res, written>>
  /\ db' = (IF T.mid THEN With(db, T.mk, T.mv) ELSE db)
  /\ LET want == Sorted(Promised(T.kind, T.start, T.prefix)) IN
     diag' = Ok \cup
             Name(Selected(T.kind, T.start, T.prefix) = Promised(T.kind, T.start, T.prefix), "bounds-handed-to-pebble") \cup
             Name([i \in DOMAIN T.items |-> T.items[i][1]] = want, "iteration-keys-or-order") \cup
             Name(Len(T.items) # Len(want) \/ \A i \in DOMAIN want : T.items[i][2] = db[want[i]], "iteration-values-not-the-snapshot") \cup
             Name(T.afterkey, "key-or-value-after-exhaustion")

TCompact == Ev("compact") /\ UNCHANGED <<vars, written>> /\ diag' = Ok
(* K5  a reopened directory holds the same contents (checked by the following reads); a pending batch is gone *)
TReopen == Ev("reopen") /\ batch' = <<>> /\ UNCHANGED <<db, res>> /\ written' = FALSE /\ diag' = Ok
(* Known finding KF_X12_closed: calls on a closed database panic ("pebble: closed") instead of returning ErrClosed *)
TClosed ==
  /\ Ev("closed") /\ UNCHANGED <<vars, written>>
  /\ LET fs == <<T.get, T.has, T.put, T.del, T.iter>>
         panics == {i \in DOMAIN fs : fs[i] = "panic:pebble: closed"} IN
     /\ (IF panics # {} THEN PrintT(<<"KF_HIT", "closed-database-panics", l>>) ELSE TRUE)
     /\ diag' = Name(\A i \in DOMAIN fs : fs[i] = "closed" \/ i \in panics, "call-on-closed-database") \cup
                Name(T.olditer = "closed" /\ T.health = "closed", "closed-not-reported")

TraceNext == TResync \/ TReset \/ TPut \/ TDel \/ TDelRange \/ TGet \/ TBPut \/ TBDel \/ TBWrite \/ TBReset \/ TBReplay \/ TIter
             \/ TCompact \/ TReopen \/ TClosed
TraceSpec == TraceInit /\ [][TraceNext]_tvars

DiagEmpty == diag = {}
HWM      == TLCSet(1, IF TLCGet(1) > l - 1 THEN TLCGet(1) ELSE l - 1)
Accepted == PrintT(<<"TRACE_HWM", TLCGet(1)>>) /\ TLCGet(1) = N
=============================================================================
