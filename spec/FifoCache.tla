----------------------------- MODULE FifoCache ------------------------------
(* internal/cache/fifo.go (extra module X01): the FIFO cache used by the     *)
(* consensus wrapper (accepted blocks by id / by height) and by the gossiper *)
(* (seen transactions).                                                      *)
(*                                                                           *)
(* Two layers stepped together:                                              *)
(*  - implementation:  buf (avalanchego buffer.boundedQueue of keys, oldest  *)
(*    first, evicting through the onEvict callback FIFO.remove) and m (the   *)
(*    Go map), written exactly as Put / Get do;                              *)
(*  - property monitor: born[k] = logical time at which k was last inserted  *)
(*    while absent (0 = never), lastv[k] = value of the latest Put(k).       *)
(*    The monitor knows nothing about the queue.                             *)
(* The properties constrain the map by the monitor only.                     *)
EXTENDS Integers, Sequences, FiniteSets

CONSTANTS Keys, Vals,
          Limits,          \* configured sizes explored (NewFIFO refuses a size < 1)
          Variant          \* "code" | "requeue" (Put of a resident key pushes it again) | "lru" (Get refreshes)

VARIABLES lim,                    \* configured size (never changes)
          buf, m, res,            \* implementation + result of the last call
          born, lastv             \* monitor

impl == <<buf, m>>
mon  == <<born, lastv>>
vars == <<lim, buf, m, res, born, lastv>>

NoVal == -1
Resident == DOMAIN m
SeqSet(s) == {s[i] : i \in DOMAIN s}
Without(f, k) == [x \in DOMAIN f \ {k} |-> f[x]]
With(f, k, v) == [x \in DOMAIN f \cup {k} |-> IF x = k THEN v ELSE f[x]]
RemoveAll(s, k) == SelectSeq(s, LAMBDA x : x # k)

Init ==
  /\ lim \in Limits
  /\ buf = <<>> /\ m = <<>> /\ res = [op |-> "new", ok |-> TRUE, val |-> NoVal]
  /\ born = [k \in Keys |-> 0] /\ lastv = [k \in Keys |-> NoVal]

(* ---------------- implementation ---------------- *)
(* boundedQueue.Push(k): at the limit pop the oldest and call onEvict (= delete from the map) first *)
QPush(b, mm, k) ==
  IF Len(b) = lim THEN <<Append(Tail(b), k), Without(mm, Head(b))>>
  ELSE <<Append(b, k), mm>>

IPut(k, v) ==
  LET exists == k \in DOMAIN m
      push   == \/ ~exists
                \/ Variant = "requeue"
      pm     == IF push THEN QPush(buf, m, k) ELSE <<buf, m>>
  IN /\ buf' = pm[1]
     /\ m' = With(pm[2], k, v)
     /\ res' = [op |-> "put", ok |-> exists, val |-> NoVal]

IGet(k) ==
  /\ res' = [op |-> "get", ok |-> k \in DOMAIN m, val |-> IF k \in DOMAIN m THEN m[k] ELSE NoVal]
  /\ m' = m
  /\ buf' = IF Variant = "lru" /\ k \in DOMAIN m THEN Append(RemoveAll(buf, k), k) ELSE buf

(* ---------------- property monitor ---------------- *)
(* insertion times are kept as ranks 1..n (order is all that matters), which keeps the state space finite *)
Ranked(b) == [k \in Keys |-> IF b[k] = 0 THEN 0 ELSE Cardinality({j \in Keys : b[j] > 0 /\ b[j] <= b[k]})]
MPut(k, v) ==
  /\ lastv' = [lastv EXCEPT ![k] = v]
  /\ born' = IF k \in Resident THEN born ELSE Ranked([born EXCEPT ![k] = Cardinality(Keys) + 1])

Put(k, v) == IPut(k, v) /\ MPut(k, v) /\ UNCHANGED lim
Get(k)    == IGet(k) /\ UNCHANGED <<mon, lim>>

Next == (\E k \in Keys, v \in Vals : Put(k, v)) \/ (\E k \in Keys : Get(k))
Spec == Init /\ [][Next]_vars

(* ---------------- properties (the statement) ---------------- *)
TypeOK == /\ Resident \subseteq Keys /\ \A k \in Resident : m[k] \in Vals
          /\ SeqSet(buf) \subseteq Keys

(* P1  the cache never holds more than Limit entries *)
Bounded == Cardinality(Resident) <= lim

(* P2  a resident key maps to the value of the latest Put for that key *)
LatestValue == \A k \in Resident : m[k] = lastv[k]

(* P3  insertion-order retention: the resident keys are exactly the (at most) Limit most recently *inserted* keys -
       nothing inserted later than a resident key is missing, whatever Gets and overwrites happened in between *)
Oldest == CHOOSE k \in Resident : \A j \in Resident : born[k] <= born[j]
InsertionOrder ==
  /\ \A k \in Resident : born[k] > 0
  /\ \A k \in Keys : \A j \in Resident : born[k] > born[j] => k \in Resident
  /\ Cardinality(Resident) = (IF Cardinality({k \in Keys : born[k] > 0}) >= lim THEN lim
                              ELSE Cardinality({k \in Keys : born[k] > 0}))

(* P4  one call reports and changes exactly what the statement allows (named clauses) *)
PutResult(k)        == res'.ok = (k \in Resident)                             \* Put reports whether the key was resident
PutStores(k, v)     == k \in Resident' /\ m'[k] = v
PutOthersKept(k)    == \A j \in Resident' \ {k} : j \in Resident /\ m'[j] = m[j]  \* nothing else appears or changes
PutOverwrite(k)     == k \in Resident => Resident' = Resident                  \* an overwrite evicts nothing
PutEvictsOldest(k)  == k \notin Resident =>
                         IF Cardinality(Resident) < lim THEN Resident' = Resident \cup {k}
                         ELSE Resident' = (Resident \ {Oldest}) \cup {k}       \* exactly the oldest insertion leaves
PutPost(k, v) == PutResult(k) /\ PutStores(k, v) /\ PutOthersKept(k) /\ PutOverwrite(k) /\ PutEvictsOldest(k)
GetResult(k)  == res'.ok = (k \in Resident) /\ res'.val = (IF k \in Resident THEN m[k] ELSE NoVal)
GetPure       == m' = m
GetPost(k)    == GetResult(k) /\ GetPure

PutStep == \A k \in Keys, v \in Vals : Put(k, v) => PutPost(k, v)
GetStep == \A k \in Keys : Get(k) => GetPost(k)
StepOK  == [][PutStep /\ GetStep]_vars

(* implementation invariant: the queue lists the map's keys once each *)
QueueMatchesMap == SeqSet(buf) = Resident /\ Len(buf) = Cardinality(Resident)
=============================================================================
