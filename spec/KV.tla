------------------------------- MODULE KV -------------------------------
(* Abstract meaning of a transaction view (properties C04, C05):           *)
(* a key-value map with checkpoints over "block pending changes, then      *)
(* parent state", guarded by a declared permission scope.                  *)
(* This module is the *property*; TStateView.tla is the implementation-    *)
(* shaped model that must refine it; TStateView_Trace.tla validates traces *)
(* recorded from state/tstate against this module.                         *)
EXTENDS Naturals, Sequences, FiniteSets

CONSTANTS Keys,        \* key universe
          Vals         \* value universe (strings); None, Unset \notin Vals

None   == "none"       \* key absent
Unset  == "unset"      \* no entry in a pending-change map
Denied == "denied"     \* op refused by the scope
Perms  == {"r", "a", "w"}

VARIABLES base,        \* [Keys -> Vals \cup {None}]          parent state (never changes)
          blk,         \* [Keys -> Vals \cup {None, Unset}]   block-level pending changes (TState.ChangedKeys)
          cur,         \* [Keys -> Vals \cup {None}]          values visible in the open view
          cps,         \* Seq([Keys -> Vals \cup {None}])     checkpoints taken in the open view
          scope,       \* [Keys -> SUBSET Perms]              declared permissions of the open view
          res          \* result of the last operation (output only)

kvvars == <<base, blk, cur, cps, scope, res>>

ScopeSpace == [Keys -> SUBSET Perms]   \* overridden in bounded configs

Under(k)  == IF blk[k] # Unset THEN blk[k] ELSE base[k]
Has(k, need) == need \subseteq scope[k]
NeedRead  == {"r"}
NeedWrite == {"r", "w"}
NeedAlloc == {"r", "a"}

KVTypeOK ==
  /\ base \in [Keys -> Vals \cup {None}]
  /\ blk  \in [Keys -> Vals \cup {None, Unset}]
  /\ cur  \in [Keys -> Vals \cup {None}]
  /\ scope \in [Keys -> SUBSET Perms]

KVInitWith(b, c, s) ==
  /\ base = b /\ blk = c /\ scope = s
  /\ cur = [k \in Keys |-> IF c[k] # Unset THEN c[k] ELSE b[k]]
  /\ cps = <<>>
  /\ res = "init"

KVInit == \E b \in [Keys -> Vals \cup {None}], c \in [Keys -> Vals \cup {None, Unset}],
             s \in ScopeSpace : KVInitWith(b, c, s)

(* ---- operations; each is total: a refused op changes nothing but res ---- *)
KVGet(k) ==
  /\ res' = IF Has(k, NeedRead) THEN cur[k] ELSE Denied
  /\ UNCHANGED <<base, blk, cur, cps, scope>>

InsertAllowed(k) == Has(k, NeedWrite) /\ (cur[k] = None => Has(k, NeedAlloc))

KVInsert(k, v) ==
  /\ IF InsertAllowed(k)
       THEN cur' = [cur EXCEPT ![k] = v] /\ res' = "ok"
       ELSE cur' = cur /\ res' = Denied
  /\ UNCHANGED <<base, blk, cps, scope>>

KVRemove(k) ==
  /\ IF Has(k, NeedWrite)
       THEN cur' = [cur EXCEPT ![k] = None] /\ res' = "ok"
       ELSE cur' = cur /\ res' = Denied
  /\ UNCHANGED <<base, blk, cps, scope>>

KVCheckpoint ==
  /\ cps' = Append(cps, cur)
  /\ res' = "ok"
  /\ UNCHANGED <<base, blk, cur, scope>>

(* roll back to the i-th checkpoint of the open view; it stays valid, later ones die *)
KVRollback(i) ==
  /\ i \in 1..Len(cps)
  /\ cur' = cps[i]
  /\ cps' = SubSeq(cps, 1, i)
  /\ res' = "ok"
  /\ UNCHANGED <<base, blk, scope>>

Published == [k \in Keys |-> IF cur[k] # Under(k) THEN cur[k] ELSE blk[k]]

(* commit publishes exactly the differing keys; a fresh view (scope s) is opened on the result *)
KVCommit(s) ==
  /\ blk' = Published
  /\ cps' = <<>>
  /\ scope' = s
  /\ res' = "ok"
  /\ UNCHANGED <<base, cur>>

(* discard the view (a failed transaction whose view is dropped) and open a fresh one *)
KVDiscard(s) ==
  /\ cur' = [k \in Keys |-> Under(k)]
  /\ cps' = <<>>
  /\ scope' = s
  /\ res' = "ok"
  /\ UNCHANGED <<base, blk>>

KVNext ==
  \/ \E k \in Keys : KVGet(k) \/ KVRemove(k) \/ \E v \in Vals : KVInsert(k, v)
  \/ KVCheckpoint
  \/ \E i \in 1..Len(cps) : KVRollback(i)
  \/ \E s \in ScopeSpace : KVCommit(s) \/ KVDiscard(s)

(* ---- properties of the abstract machine itself (sanity; they hold by construction) ---- *)
RefusedChangesNothing == [][res' = Denied => UNCHANGED <<cur, blk, cps>>]_kvvars
CurIsUnderWhenFresh  == TRUE
=============================================================================
