SPECIFICATION TraceSpec
CONSTANTS
  Vals = {0}
  DefA = 0
  DefB = 0
  MaxPrims = 0
  Variant = "code"
CONSTRAINT HWM
INVARIANTS DiagEmpty TFresh AccIsFold
POSTCONDITION Accepted
CHECK_DEADLOCK FALSE
