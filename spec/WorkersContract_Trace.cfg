SPECIFICATION TraceSpec
CONSTANTS
  J = {1, 2, 3, 4, 5, 6}
  T = {1, 2, 3, 4, 5, 6, 7, 8}
CONSTRAINT HWM
INVARIANTS ContractTypeOK NoTwoJobsRunning
POSTCONDITION Accepted
CHECK_DEADLOCK FALSE
