SPECIFICATION TraceSpec
CONSTRAINT HWM
INVARIANTS DiagEmpty
POSTCONDITION Accepted
CHECK_DEADLOCK FALSE
