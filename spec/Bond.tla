------------------------------- MODULE Bond -------------------------------
(* C38 - implementation-shaped model of internal/chain/bond.go (Bonder)    *)
(* under x/fdsmr/node.go (Node), on top of the abstract BondLedger.        *)
(*                                                                         *)
(*   pend[s]  pending balance stored in the bonder db under the address    *)
(*   rec[t]   per-transaction fee record stored under the tx id (-1: none) *)
(*   heap     ids held by Node.pending (eheap dedups by id; an accepted    *)
(*            transaction is NOT removed from it, only expired ones are)   *)
(*                                                                         *)
(* One action per public call of Node: BuildChunk (a fold of Bonder.Bond   *)
(* over the submitted txs, possibly cut short by a Bond error or followed  *)
(* by a failing inner build), Accept (SetMin(ts) -> Unbond each expired, then *)
(* Unbond each included tx that is still in the heap), plus SetMaxBalance. *)
EXTENDS BondLedger, TLC

CONSTANTS
  FixedCode,  \* TRUE: Bond returns early for an already recorded tx (the fix); FALSE: as originally coded
  AtomicUnbond, \* TRUE: Unbond writes the new balance and the deletion of the fee record in one batch (the code);
              \* FALSE: two separate durable writes (a seeded variant that must violate under crash + retry)
  LateTrack   \* FALSE: Node adds a tx to its expiry heap right after Bond returned true (the code);
              \* TRUE: only after the inner DSMR.BuildChunk succeeded (a seeded variant that must violate)

VARIABLES pend, rec, heap, res

ivars == <<pend, rec, heap, res>>
vars  == <<lvars, ivars>>

(* Bonder.Bond(tx, rate) on st = [pend, rec, oks] *)
BondOne(st, t, rate) ==
  LET s   == info[t].sp
      fee == info[t].size * rate
  IN IF FixedCode /\ st.rec[t] >= 0
       THEN [st EXCEPT !.oks = Append(@, TRUE)]                       \* already bonded: nothing to add
     ELSE IF st.pend[s] + fee > max[s]
       THEN [st EXCEPT !.oks = Append(@, FALSE)]
     ELSE [pend |-> [st.pend EXCEPT ![s] = @ + fee],
           rec  |-> [st.rec EXCEPT ![t] = fee],                        \* AsOriginallyCoded: overwrites the record
           oks  |-> Append(st.oks, TRUE)]

(* crash points: the process dies inside Bond(txs[c]) after its (single, batched) durable write, restarts on the   *)
(* same database and the call is retried.  c = 0: no crash.  A crash before the write is the same as no crash.     *)
BondRetried(st, t, rate) ==
  LET st1 == BondOne(st, t, rate) IN BondOne([st1 EXCEPT !.oks = st.oks], t, rate)

RECURSIVE BondFold(_, _, _, _, _)
BondFold(st, txs, rate, i, c) ==
  IF i > Len(txs) THEN st
  ELSE BondFold(IF i = c THEN BondRetried(st, txs[i], rate) ELSE BondOne(st, txs[i], rate), txs, rate, i + 1, c)

(* Bonder.Unbond over a set of txs (idempotent per tx, so order and repetition do not matter) *)
RECURSIVE UnbondSet(_, _)
UnbondSet(st, S) ==
  IF S = {} THEN st
  ELSE LET t == CHOOSE x \in S : TRUE
           s == info[t].sp
       IN IF st.rec[t] < 0 THEN UnbondSet(st, S \ {t})
          ELSE UnbondSet([pend |-> [st.pend EXCEPT ![s] = @ - st.rec[t]],
                          rec  |-> [st.rec EXCEPT ![t] = -1]], S \ {t})

(* Unbond(t) interrupted by a crash between its durable writes, restart, retry (Unbond is documented idempotent).  *)
(* With one atomic batch the crash falls before it (the retry does everything) or after it (the retry finds no     *)
(* record): the fee is released once.  With two separate writes the balance is already lowered while the record   *)
(* is still there, and the retry lowers it again.                                                                  *)
UnbondRetried(st, t) ==
  IF st.rec[t] < 0 \/ AtomicUnbond THEN UnbondSet(st, {t})
  ELSE [pend |-> [st.pend EXCEPT ![info[t].sp] = @ - 2 * st.rec[t]], rec |-> [st.rec EXCEPT ![t] = -1]]

Init(i, m) ==
  /\ LInit(i, m)
  /\ pend = [s \in Sponsors |-> 0]
  /\ rec = [t \in Txs |-> -1]
  /\ heap = {}
  /\ res = <<>>

(* Node.BuildChunk(txs, rate).  Bond is asked for txs[1..cut]; cut < Len(txs) means Bond returned an error for      *)
(* txs[cut+1] (database failure) and BuildChunk returned it at once; innerFails means the inner DSMR.BuildChunk      *)
(* returned an error.  In both cases the txs already bonded stay bonded (Bond returned true for them, so Unbond is   *)
(* owed): they must be in the expiry heap so that expiry / acceptance releases them exactly once.                    *)
BuildChunk(txs, rate, cut, innerFails, crashIdx) ==
  LET pre    == SubSeq(txs, 1, cut)
      st     == BondFold([pend |-> pend, rec |-> rec, oks |-> <<>>], pre, rate, 1, crashIdx)
      failed == innerFails \/ cut < Len(txs)
      okd    == {pre[i] : i \in {j \in DOMAIN pre : st.oks[j]}}
  IN /\ pend' = st.pend
     /\ rec' = st.rec
     /\ heap' = IF LateTrack /\ failed THEN heap ELSE heap \cup okd
     /\ res' = st.oks
     /\ LBuild(pre, st.oks, rate)

(* crashAt: the tx whose Unbond is hit by a crash + retry during this Accept ("none": no crash) *)
Accept(ts, incl, crashAt) ==
  LET expired == {t \in heap : info[t].exp < ts}
      h1      == heap \ expired
      st0     == IF crashAt \in expired \cup (incl \cap h1)
                   THEN UnbondRetried([pend |-> pend, rec |-> rec], crashAt)
                   ELSE [pend |-> pend, rec |-> rec]
      st1     == UnbondSet(st0, expired)
      st2     == UnbondSet(st1, incl \cap h1)
  IN /\ pend' = st2.pend
     /\ rec' = st2.rec
     /\ heap' = h1
     /\ res' = <<>>
     /\ LAccept(ts, incl)

SetMax(s, m) ==
  /\ LSetMax(s, m)
  /\ UNCHANGED ivars

-----------------------------------------------------------------------------
TypeOK ==
  /\ LTypeOK
  /\ pend \in [Sponsors -> Int]
  /\ rec \in [Txs -> Int]
  /\ heap \subseteq Txs

(* the statement: pending = sum of the fees of the bonded transactions neither accepted nor expired *)
PendingIsSumOfUnsettled == \A s \in Sponsors : pend[s] = Due(s)
ZeroWhenSettled == \A s \in Sponsors : (\A t \in Txs : info[t].sp = s => open[t] < 0) => pend[s] = 0
(* WithinMax (from the ledger): no accepted bond lifted pending above the maximum *)

(* design-level consistency of the implementation's bookkeeping *)
RecordMatchesOpen == \A t \in Txs : rec[t] = open[t]
OpenWillBeReleased == \A t \in Txs : open[t] >= 0 => t \in heap
=============================================================================
