----------------------------- MODULE ExpirySet -----------------------------
(* Abstract meaning of the expiry-indexed structures internal/emap.EMap and  *)
(* internal/eheap.ExpiryHeap (property C25): a set of ids, each with one     *)
(* expiry, ordered by expiry.                                                *)
(*   - adding is idempotent per id (a second add of a held id, with the same *)
(*     or another expiry, changes nothing);                                  *)
(*   - membership answers match the set;                                     *)
(*   - removing arbitrary ids keeps the minimum correct;                     *)
(*   - raising the minimum removes and returns exactly the entries whose     *)
(*     expiry is below it.                                                   *)
(* tz = FALSE is the replay-tracking instance (EMap): entries with expiry 0 *)
(* are never tracked.                                                        *)
(* This module is the *property*.  ExpiryHeapImpl.tla / EMapImpl.tla are the *)
(* implementation-shaped models that must refine it; ExpirySet_Trace.tla     *)
(* validates executions recorded from the real Go code against it.           *)
EXTENDS Integers, Sequences, FiniteSets

CONSTANTS Ids,        \* id universe
          Exps,       \* expiry universe (naturals)
          TrackZeroSet \* SUBSET BOOLEAN: the instances explored ({TRUE} ExpiryHeap, {FALSE} EMap)

NoExp == -1

VARIABLES tz,         \* BOOLEAN, fixed per instance: are entries with expiry 0 tracked?
          held,       \* [Ids -> Exps \cup {NoExp}]
          res         \* result of the last call (output only)

esvars == <<tz, held, res>>

HeldIn(h)  == {i \in Ids : h[i] # NoExp}
Held       == HeldIn(held)
Below(t)   == {i \in Held : held[i] < t}
Tracked(e) == tz \/ e # 0
MinExp     == IF Held = {} THEN NoExp
              ELSE CHOOSE e \in {held[i] : i \in Held} : \A j \in Held : e <= held[j]
MinIds     == {i \in Held : held[i] = MinExp}
MaxOf(S)   == CHOOSE m \in S : \A x \in S : x <= m
MinArgs    == Exps \cup {MaxOf(Exps) + 1}      \* arguments of SetMin explored by the bounded configs

(* one result shape for every call: ok flag, an integer, a set of ids *)
R(ok, e, ids) == [ok |-> ok, e |-> e, ids |-> ids]

ESTypeOK ==
  /\ held \in [Ids -> Exps \cup {NoExp}]
  /\ tz \in BOOLEAN
  /\ tz \/ \A i \in Ids : held[i] # 0

ESInit == tz \in TrackZeroSet /\ held = [i \in Ids |-> NoExp] /\ res = R(TRUE, NoExp, {})

(* add one <<id, expiry>>: idempotent per id *)
Add1(h, i, e) == IF h[i] = NoExp /\ Tracked(e) THEN [h EXCEPT ![i] = e] ELSE h

RECURSIVE AddAll(_, _)
AddAll(h, items) == IF items = <<>> THEN h
                    ELSE AddAll(Add1(h, Head(items).i, Head(items).e), Tail(items))

ESAdd(items) ==               \* items: Seq([i : Ids, e : Exps]); EMap.Add takes a batch, ExpiryHeap.Add one
  /\ UNCHANGED tz
  /\ held' = AddAll(held, items)
  /\ res' = R(TRUE, NoExp, {})

ESRemove(i) ==                \* ExpiryHeap.Remove
  /\ UNCHANGED tz
  /\ res' = R(held[i] # NoExp, held[i], {})
  /\ held' = [held EXCEPT ![i] = NoExp]

ESSetMin(t) ==                \* SetMin: remove and return exactly the entries with expiry < t
  /\ UNCHANGED tz
  /\ res' = R(TRUE, NoExp, Below(t))
  /\ held' = [i \in Ids |-> IF i \in Below(t) THEN NoExp ELSE held[i]]

ESHas(i) ==                   \* Has / Contains / Any on one id
  /\ UNCHANGED tz
  /\ res' = R(held[i] # NoExp, NoExp, {})
  /\ UNCHANGED held

ESPeekMin ==                  \* any entry of minimal expiry: ids = the admissible answers
  /\ UNCHANGED tz
  /\ res' = R(Held # {}, MinExp, MinIds)
  /\ UNCHANGED held

ESPopMin(i) ==                \* removes one entry of minimal expiry (i chosen by the implementation)
  /\ UNCHANGED tz
  /\ IF Held = {} THEN res' = R(FALSE, NoExp, {}) /\ UNCHANGED held
     ELSE /\ i \in MinIds
          /\ res' = R(TRUE, MinExp, {i})
          /\ held' = [held EXCEPT ![i] = NoExp]

ESLen ==
  /\ UNCHANGED tz
  /\ res' = R(TRUE, Cardinality(Held), {})
  /\ UNCHANGED held

ESNext ==
  \/ \E i \in Ids, e \in Exps : ESAdd(<<[i |-> i, e |-> e]>>)
  \/ \E i \in Ids : ESRemove(i) \/ ESHas(i) \/ ESPopMin(i)
  \/ \E t \in MinArgs : ESSetMin(t)
  \/ ESPeekMin \/ ESLen

ESSpec == ESInit /\ [][ESNext]_esvars

(* ---- the statement, as action properties of the abstract machine ---- *)
AddIdempotent  == [][\A i \in Ids : held[i] # NoExp /\ held'[i] # NoExp => held'[i] = held[i]]_esvars
(* an id leaves the set only through Remove / PopMin / SetMin, and SetMin never removes an entry at or above t *)
Shrinks        == [][\A i \in Ids : held[i] # NoExp /\ held'[i] = NoExp => (i \in res'.ids \/ res'.e = held[i])]_esvars
=============================================================================
