SPECIFICATION Spec
CONSTANTS
  Conns = {"c1", "c2"}
  MaxMsg = 4
  Cap = 2
  Variant = "code"
INVARIANTS InOrderNoLoss Complete NeverBlocks
PROPERTIES ReportsInactive OnlySubscribers
CHECK_DEADLOCK FALSE
