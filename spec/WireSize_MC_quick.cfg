SPECIFICATION Spec
CONSTANTS
  MaxActions = 16
  SizeClasses <- SC3
  Mode = "size"
  Original = FALSE
  MaxPerBigClass = 16
  ManyBases = FALSE
INVARIANTS EstimateCoversSize
CHECK_DEADLOCK FALSE
