SPECIFICATION Spec
CONSTANTS
  Keys = {"k1", "k2"}
  Vals = {"v1"}
  MaxActions = 2
  MaxOps = 1
  ScopeSpace <- MCScopes
INVARIANT AllOrNothing
CHECK_DEADLOCK FALSE
