---------------------------- MODULE ConflictOrder ----------------------------
(* Abstract contract of the parallel executor (C08) over observable events:  *)
(* run(i) (logged before Run is called; i is the position in the queue),     *)
(* start(i)/end(i,res) logged inside the closure, stop_call/stop_ret,        *)
(* wait_call/wait_ret(res,ei).  The log order is an atomic sequence number.  *)
(*                                                                           *)
(* Clauses (from the property statement):                                    *)
(*  E1 two queued tasks that share a key, at least one needing more than     *)
(*     read access, never run at the same time                               *)
(*  E2 they run in queue order: a task starts only after every earlier       *)
(*     conflicting task finished                                             *)
(*  E3 every task runs at most once; exactly once when Wait returns nil      *)
(*  E4 after a failure / Stop the remaining tasks are skipped: observable     *)
(*     (ordered by happens-before) for a conflicting successor of a task     *)
(*     that failed or was skipped, and for a task queued after Stop returned *)
(*  E5 Wait returns nil iff no executed task failed and Stop was not called  *)
(*     before; otherwise the error of an executed failing task (or the stop  *)
(*     error when Stop was called); nothing is running when Wait returns.    *)
(*     "waiting always returns the first error": where the order in which    *)
(*     errors are recorded is observable (rec_begin/rec_end events of the    *)
(*     hook-based runs) Wait returns the error of the first task that        *)
(*     recorded one, the stop error when Stop returned before any failure    *)
(*     began to be recorded, and never the stop error when the first failure *)
(*     was completely recorded before Stop was called                        *)
(*  "without deadlock": the driver's watchdog logs "hang", which no action   *)
(*  explains.                                                                *)
EXTENDS Naturals, FiniteSets, Sequences

CONSTANTS MaxN, KeyIds        \* task ids 1..MaxN, key ids

TaskIds == 1..MaxN

VARIABLES perm,      \* [TaskIds -> [KeyIds -> {"n","r","w"}]]   declared keys ("w" = anything more than read)
          ntasks,    \* tasks of this scenario: 1..ntasks
          queued, started, ended, failed,    \* SUBSET TaskIds
          lateQ,     \* tasks handed to Run after Stop had returned
          stop,      \* "idle","called","returned"
          wait,      \* "no","called","nil","err","stopped"
          stopFirst, \* Stop had returned before Wait was called
          recs,      \* order in which failing tasks recorded their error (observable only with the yield hooks)
          recDone,   \* failing tasks whose recording is complete
          stopAtFirstRec,   \* value of stop when the first failure began to be recorded
          firstDoneAtStop   \* the first failure was completely recorded when Stop was called

evars == <<perm, ntasks, queued, started, ended, failed, lateQ, stop, wait, stopFirst, recs, recDone, stopAtFirstRec,
          firstDoneAtStop>>
rvars == <<recs, recDone, stopAtFirstRec, firstDoneAtStop>>

Conflict(a, b) == \E k \in KeyIds : perm[a][k] # "n" /\ perm[b][k] # "n" /\ (perm[a][k] = "w" \/ perm[b][k] = "w")
Running == started \ ended

EInit(p, n) ==
  /\ perm = p /\ ntasks = n
  /\ queued = {} /\ started = {} /\ ended = {} /\ failed = {} /\ lateQ = {}
  /\ stop = "idle" /\ wait = "no" /\ stopFirst = FALSE
  /\ recs = <<>> /\ recDone = {} /\ stopAtFirstRec = "idle" /\ firstDoneAtStop = FALSE

\* Run(i) is about to be called: tasks are queued in increasing order, never after Wait
RunCall(i) ==
  /\ i \in 1..ntasks /\ i \notin queued /\ \A a \in 1..(i - 1) : a \in queued
  /\ wait = "no"
  /\ queued' = queued \cup {i}
  /\ lateQ' = IF stop = "returned" THEN lateQ \cup {i} ELSE lateQ
  /\ UNCHANGED <<perm, ntasks, started, ended, failed, stop, wait, stopFirst, rvars>>

Start(i) ==
  /\ i \in queued
  /\ i \notin started                                                              \* E3
  /\ i \notin lateQ                                                                \* E4
  /\ wait \in {"no", "called"}                                                     \* E5 nothing runs after Wait returned
  /\ \A a \in 1..(i - 1) : Conflict(a, i) => a \in ended /\ a \notin failed        \* E2, E4
  /\ \A b \in Running : ~Conflict(b, i)                                            \* E1
  /\ started' = started \cup {i}
  /\ UNCHANGED <<perm, ntasks, queued, ended, failed, lateQ, stop, wait, stopFirst, rvars>>

End(i, res) ==
  /\ i \in Running
  /\ ended' = ended \cup {i}
  /\ failed' = IF res = "fail" THEN failed \cup {i} ELSE failed
  /\ UNCHANGED <<perm, ntasks, queued, started, lateQ, stop, wait, stopFirst, rvars>>

StopCall == /\ stop = "idle" /\ stop' = "called"
            /\ firstDoneAtStop' = (recs # <<>> /\ recs[1] \in recDone)
            /\ UNCHANGED <<perm, ntasks, queued, started, ended, failed, lateQ, wait, stopFirst, recs, recDone, stopAtFirstRec>>
StopRet  == stop = "called" /\ stop' = "returned"
            /\ UNCHANGED <<perm, ntasks, queued, started, ended, failed, lateQ, wait, stopFirst, rvars>>

\* With the executor's yield hooks the driver's scheduler decides when a failing task passes the point just before it
\* records its error, lets only one task at a time through it, and logs rec_begin(i) before resuming the task and
\* rec_end(i) when the task reached its next yield point: the error of task i is recorded inside that interval.
RecBegin(i) ==
  /\ i \in failed /\ \A k \in DOMAIN recs : recs[k] # i /\ recs[k] \in recDone
  /\ recs' = Append(recs, i)
  /\ stopAtFirstRec' = IF recs = <<>> THEN stop ELSE stopAtFirstRec
  /\ UNCHANGED <<perm, ntasks, queued, started, ended, failed, lateQ, stop, wait, stopFirst, recDone, firstDoneAtStop>>
RecEnd(i) ==
  /\ recs # <<>> /\ recs[Len(recs)] = i /\ i \notin recDone
  /\ recDone' = recDone \cup {i}
  /\ UNCHANGED <<perm, ntasks, queued, started, ended, failed, lateQ, stop, wait, stopFirst, recs, stopAtFirstRec,
                 firstDoneAtStop>>

WaitCall == /\ wait = "no" /\ wait' = "called" /\ stopFirst' = (stop = "returned")
            /\ UNCHANGED <<perm, ntasks, queued, started, ended, failed, lateQ, stop, rvars>>

\* res: "nil" | "err" (error of task ei) | "stopped"
WaitRet(res, ei) ==
  /\ wait = "called"
  /\ Running = {}
  /\ \/ /\ res = "nil" /\ started = queued /\ failed = {} /\ ~stopFirst               \* E3 E5
     \/ /\ res = "err" /\ ei \in failed                                              \* E5
        /\ recs # <<>> => ei = recs[1]                                                  \* E5 the FIRST recorded failure
        /\ ~(recs # <<>> /\ stopAtFirstRec = "returned")                                \* E5 Stop had won already
     \/ /\ res = "stopped" /\ stop # "idle"                                          \* E5
        /\ ~firstDoneAtStop                                                            \* E5 a failure had won already
  /\ wait' = res
  /\ UNCHANGED <<perm, ntasks, queued, started, ended, failed, lateQ, stop, stopFirst, rvars>>

Fin == wait \in {"nil", "err", "stopped"} /\ stop # "called" /\ UNCHANGED evars

NoOverlap   == \A a, b \in Running : a # b => ~Conflict(a, b)
EContractOK == ended \subseteq started /\ started \subseteq queued /\ failed \subseteq ended
=============================================================================
