SPECIFICATION TraceSpec
CONSTANTS
  MinTPS = 1
  MaxTPS = 1
  StepTPS = 1
  MaxAttempts = 1
  Terminate = TRUE
  NAgents = 1
  MulP = 1
  MulQ = 1
  MaxRounds = 0
  Variant = "code"
CONSTRAINT HWM
INVARIANTS DiagEmpty
POSTCONDITION Accepted
CHECK_DEADLOCK FALSE
