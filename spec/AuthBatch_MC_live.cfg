SPECIFICATION Spec
CONSTANTS
  MaxTx = 3
  MaxCores = 2
  MinBatch = 2
  ItemCap = 2
  BlockingAdd = TRUE
  FlushRemainder = TRUE
INVARIANTS VerdictCorrect EverySigChecked NoSendAfterClose
PROPERTIES Terminates
CHECK_DEADLOCK FALSE
