SPECIFICATION PriceSpec
CONSTANTS
  MAXU = 7
  W = 3
  Denoms = {1, 2, 3, 7}
  Mins = {0, 1, 3, 7}
  Sinces = {0, 2, 3, 4, 6, 7}
INVARIANTS OriginalAgrees
CHECK_DEADLOCK FALSE
