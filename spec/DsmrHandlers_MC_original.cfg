SPECIFICATION Spec
CONSTANTS
  Chunks = {1, 2, 3, 4}
  Prod0 <- MCProd
  Ok0 <- MCOk
  Producers = {"p", "q"}
  Limit0 = 1
  Fixed = FALSE
INVARIANTS SignsOnlyStored StoresOnlyValid NoPanic WithinLimit CertsOfHeld
PROPERTIES Idempotent ServesHeld
CHECK_DEADLOCK FALSE
