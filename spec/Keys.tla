-------------------------------- MODULE Keys --------------------------------
(* C40 - size-suffixed state keys (keys/keys.go, state/keys.go,            *)
(* state/tstate Insert).  A key is abstracted to what the rules look at:   *)
(*   [len |-> number of bytes, hi, lo |-> its last two bytes]              *)
(* (hi/lo are meaningless when len < 2); a value to its length n.          *)
(* Real constants: 64-byte chunks, 16-bit chunk counts.                    *)
EXTENDS Integers

ChunkSize == 64
MaxU16    == 65535
SuffixLen == 2

Key(len, hi, lo) == [len |-> len, hi |-> hi, lo |-> lo]

(* ---- transcription of keys/keys.go ---- *)
Valid(k)     == k.len >= SuffixLen
Suffix(k)    == k.hi * 256 + k.lo                          \* binary.BigEndian.Uint16(key[l-2:])
MaxChunks(k) == IF Valid(k) THEN [ok |-> TRUE, c |-> Suffix(k)] ELSE [ok |-> FALSE, c |-> 0]
NumChunks(n) == IF n = 0 THEN [ok |-> TRUE, c |-> 0]
                ELSE LET raw == n \div ChunkSize + 1
                     IN  IF raw > MaxU16 THEN [ok |-> FALSE, c |-> 0] ELSE [ok |-> TRUE, c |-> raw]
VerifyValue(k, n) == NumChunks(n).ok /\ MaxChunks(k).ok /\ NumChunks(n).c <= MaxChunks(k).c
VerifyKey(maxKeySize, maxValueChunks, k) ==
  k.len <= maxKeySize /\ MaxChunks(k).ok /\ MaxChunks(k).c <= maxValueChunks
(* Encode(key, maxSize) = key ++ BigEndian(NumChunks(maxSize)) *)
Encode(len, maxSize) ==
  LET nc == NumChunks(maxSize)
  IN  [ok |-> nc.ok, key |-> Key(len + SuffixLen, nc.c \div 256, nc.c % 256)]
EncodeChunks(len, c) == Key(len + SuffixLen, c \div 256, c % 256)

(* state.Keys.Add / Transaction.StateKeys / TStateView.Insert (scope grants the permission) *)
KeysAdd(k)           == Valid(k)
StateKeysError(k)    == ~Valid(k)                          \* a declared key that Add refuses
InsertAllowed(k, n)  == VerifyValue(k, n)

(* ---- the property, stated without fixing the chunk formula ---- *)
(* "chunk count" of a value of n bytes: the statement only needs it to be a sound size class: *)
(* c chunks hold the value (c*64 >= n), it is not more than one chunk generous, and it is     *)
(* defined whenever the generous count fits 16 bits.                                          *)
ChunkCountAdmissible(n, ok, c) ==
  /\ ok => (c >= 0 /\ c <= MaxU16 /\ c * ChunkSize >= n /\ c <= n \div ChunkSize + 1)
  /\ (n \div ChunkSize + 1 <= MaxU16) => ok
(* what a writer may do, given the observed chunk count of the value *)
WriteAllowed(k, ok, c) == Valid(k) /\ ok /\ c <= Suffix(k)
=============================================================================
