----------------------------- MODULE DList_Trace ----------------------------
(* Trace validation of the real internal/list.List (X01).  One ndjson line   *)
(* per call on one of two lists sharing a pool of elements:                  *)
(*   push   {L, front, e}   PushFront / PushBack of a new element numbered e *)
(*   remove {L, e, ret}     l.Remove(element e); ret = number in the value   *)
(* and after every call, for both lists, what a user sees: fwd (First/Next   *)
(* walk), bwd (Last/Prev walk), size, and loose = detached elements whose    *)
(* Next()/Prev() is not nil.  Only the abstraction seq of DList.tla is       *)
(* stepped; the pointer fields are not observable and stay at their initial  *)
(* value.  A failing clause is named in diag (INVARIANT DiagEmpty).          *)
EXTENDS DList, TLC, Json, IOUtils

VARIABLES l, diag
tvars == <<vars, l, diag>>

Trace == ndJsonDeserialize(IOEnv.TRACE)
N     == Len(Trace)
T     == Trace[l]
Ev(e) == l <= N /\ Trace[l].ev = e /\ l' = l + 1
Name(ok, n) == IF ok THEN {} ELSE {n}

Blank == /\ nxt = [c \in Cells |-> Nil] /\ prv = [c \in Cells |-> Nil] /\ own = [e \in Nodes |-> 0]
         /\ size = [L \in Lists |-> 0] /\ res = Nil

TraceInit == l = 1 /\ TLCSet(1, 0) /\ Blank /\ alloc = 0 /\ seq = [L \in Lists |-> <<>>] /\ diag = {}

Seen ==      \* the observation after the call against the abstraction after the call
  Name(\A L \in Lists : T.fwd[L] = seq'[L], "forward-walk-is-not-the-sequence") \cup
  Name(\A L \in Lists : T.bwd[L] = Rev(seq'[L]), "backward-walk-is-not-the-reverse") \cup
  Name(\A L \in Lists : T.size[L] = Len(seq'[L]), "size") \cup
  Name(T.loose = <<>>, "detached-element-still-linked")

TReset == Ev("reset") /\ UNCHANGED <<nxt, prv, own, size, res>> /\ alloc' = 0 /\ seq' = [L \in Lists |-> <<>>] /\ diag' = {}
TPush  == /\ Ev("push") /\ UNCHANGED <<nxt, prv, own, size, res>>
          /\ alloc' = alloc + 1 /\ APush(T.L, alloc + 1, T.front)
          /\ diag' = Name(T.e = alloc + 1, "harness-numbering") \cup Seen
TRemove == /\ Ev("remove") /\ UNCHANGED <<nxt, prv, own, size, res, alloc>>
           /\ ARemove(T.L, T.e)
           /\ diag' = Name(T.ret = T.e, "remove-returns-the-value") \cup Seen

TraceNext == TReset \/ TPush \/ TRemove
TraceSpec == TraceInit /\ [][TraceNext]_tvars

DiagEmpty == diag = {}
HWM      == TLCSet(1, IF TLCGet(1) > l - 1 THEN TLCGet(1) ELSE l - 1)
Accepted == PrintT(<<"TRACE_HWM", TLCGet(1)>>) /\ TLCGet(1) = N
=============================================================================
