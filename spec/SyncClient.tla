----------------------------- MODULE SyncClient -----------------------------
(* statesync/client.go (extra module X08): the phase machine that decides    *)
(* whether a node state-syncs, drives the syncers and records on disk that a *)
(* sync is in progress.                                                      *)
(*  flag     the on-disk is_syncing marker;  must = its value when the       *)
(*           client was created (mustStateSync)                              *)
(*  phase    "idle" | "skipped" | "starting" | "syncing" | "finishing" |     *)
(*           "done" | "fatal"                                                *)
(*  calls    what the client has called so far, in order:                    *)
(*           <<"onStart",0>>, <<"start",i>>, <<"waited",i>>, <<"onFinish",0>>  *)
(*  waitres  what Wait() reports once done: "nil" | "err" | "pending"        *)
(* The environment decides which callbacks fail (Fail \subseteq Points).     *)
(* A failure of onStart / Start / a syncer's Wait is fatal by design (the    *)
(* process is brought down, the marker stays set and the next start must     *)
(* sync).  Fixed = TRUE models fixes/X08-…: a failing onFinish or a failing  *)
(* write of the marker is fatal as well; Fixed = FALSE is the code as        *)
(* originally written (the error is logged and Wait reports success).        *)
EXTENDS Integers, Sequences, FiniteSets

CONSTANTS NSyncers0, Heights, MinBlocks0, Fixed


VARIABLES cfg,        \* [n |-> number of syncers, min |-> MinBlocks]; never changes (a variable so that SyncClient_Trace
                      \* can load a recorded configuration)
          flag, must, last, target, fail, phase, calls, pending, waitres
vars == <<cfg, flag, must, last, target, fail, phase, calls, pending, waitres>>
NSyncers  == cfg.n
MinBlocks == cfg.min
Points == {<<"onStart", 0>>, <<"onFinish", 0>>, <<"clearFlag", 0>>} \cup {<<"start", i>> : i \in 1..NSyncers} \cup {<<"wait", i>> : i \in 1..NSyncers}

Init == /\ cfg = [n |-> NSyncers0, min |-> MinBlocks0] /\ flag \in BOOLEAN /\ must = flag /\ last \in Heights /\ target \in Heights /\ fail \in SUBSET Points
        /\ phase = "idle" /\ calls = <<>> /\ pending = {} /\ waitres = "pending"

Skip == ~must /\ last + MinBlocks > target

Accept ==
  /\ phase = "idle"
  /\ IF Skip THEN phase' = "skipped" /\ waitres' = "nil" /\ UNCHANGED <<flag, calls, pending>>
     ELSE phase' = "starting" /\ flag' = TRUE /\ UNCHANGED <<calls, pending, waitres>>
  /\ UNCHANGED <<cfg, must, last, target, fail>>

Fatal == phase' = "fatal" /\ waitres' = "err"

(* onStart, then every syncer's Start in order; the first failure is fatal *)
StartStep ==
  /\ phase = "starting"
  /\ IF calls = <<>> THEN
          /\ calls' = <<<<"onStart", 0>>>>
          /\ IF <<"onStart", 0>> \in fail THEN Fatal ELSE UNCHANGED <<phase, waitres>>
          /\ UNCHANGED pending
     ELSE LET i == Len(calls) IN        \* syncer i is started next
          /\ calls' = Append(calls, <<"start", i>>)
          /\ IF <<"start", i>> \in fail THEN Fatal /\ UNCHANGED pending
             ELSE IF i = NSyncers THEN phase' = "syncing" /\ pending' = 1..NSyncers /\ UNCHANGED waitres
             ELSE UNCHANGED <<phase, pending, waitres>>
  /\ UNCHANGED <<cfg, flag, must, last, target, fail>>

(* the syncers finish in any order; a failing one is fatal *)
WaitStep(i) ==
  /\ phase = "syncing" /\ i \in pending
  /\ calls' = Append(calls, <<"waited", i>>) /\ pending' = pending \ {i}
  /\ IF <<"wait", i>> \in fail THEN Fatal
     ELSE IF pending = {i} THEN phase' = "finishing" /\ UNCHANGED waitres ELSE UNCHANGED <<phase, waitres>>
  /\ UNCHANGED <<cfg, flag, must, last, target, fail>>

(* finish(): onFinish, then clear the marker *)
Finish ==
  /\ phase = "finishing"
  /\ calls' = Append(calls, <<"onFinish", 0>>)
  /\ IF <<"onFinish", 0>> \in fail THEN
          (IF Fixed THEN Fatal ELSE phase' = "done" /\ waitres' = "nil") /\ UNCHANGED flag
     ELSE IF <<"clearFlag", 0>> \in fail THEN
          (IF Fixed THEN Fatal ELSE phase' = "done" /\ waitres' = "nil") /\ UNCHANGED flag
     ELSE phase' = "done" /\ waitres' = "nil" /\ flag' = FALSE
  /\ UNCHANGED <<cfg, must, last, target, fail, pending>>

Next == Accept \/ StartStep \/ (\E i \in 1..NSyncers : WaitStep(i)) \/ Finish
Spec == Init /\ [][Next]_vars

(* ---------------- properties ---------------- *)
Called(x) == \E k \in DOMAIN calls : calls[k] = x
Pos(x)    == CHOOSE k \in DOMAIN calls : calls[k] = x

(* Y1  skip rule: a node that is not forced to sync skips exactly when it is less than MinBlocks behind; skipping
       touches nothing *)
SkipRule == /\ phase = "skipped" => (Skip /\ calls = <<>> /\ flag = must /\ waitres = "nil")
            /\ (phase \notin {"idle", "skipped"}) => ~Skip
(* Y2  the marker covers the whole sync: it is set before anything is started and only cleared after everything
       (all syncers and onFinish) succeeded; a client created with the marker set never skips *)
MarkerCovers == (calls # <<>> /\ ~(phase = "done" /\ waitres = "nil" /\ ~flag)) => flag
CleanFinish  == (calls # <<>> /\ ~flag) =>
                  /\ \A i \in 1..NSyncers : Called(<<"waited", i>>) /\ <<"wait", i>> \notin fail
                  /\ Called(<<"onFinish", 0>>) /\ <<"onFinish", 0>> \notin fail
MustNeverSkips == must => phase # "skipped"
(* Y3  order: onStart first, the syncers are started in order, onFinish once after every syncer completed *)
Order == /\ calls # <<>> => calls[1] = <<"onStart", 0>>
         /\ \A i \in 1..NSyncers : Called(<<"start", i>>) => Pos(<<"start", i>>) = i + 1
         /\ Called(<<"onFinish", 0>>) => \A i \in 1..NSyncers : Called(<<"waited", i>>) /\ Pos(<<"waited", i>>) < Pos(<<"onFinish", 0>>)
         /\ Cardinality({k \in DOMAIN calls : calls[k] = <<"onFinish", 0>>}) <= 1
(* Y4  Wait() reports success only for a sync that is really complete (or was skipped) *)
SuccessMeansComplete ==
  (waitres = "nil" /\ phase # "skipped") =>
     /\ fail \cap {<<"onStart", 0>>, <<"onFinish", 0>>, <<"clearFlag", 0>>} = {}
     /\ \A i \in 1..NSyncers : <<"start", i>> \notin fail /\ <<"wait", i>> \notin fail
     /\ ~flag
=============================================================================
