SPECIFICATION Spec
CONSTANTS
  Mode = "c10"
  MinGap = 1
  EmptyGap = 2
  MaxTs = 8
  Window = 2000
  MaxActions = 2
  GenesisHeaderTs = 0
CONSTRAINT Bound
INVARIANTS PreVerdictExact

CHECK_DEADLOCK FALSE
