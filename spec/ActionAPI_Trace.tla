-------------------------- MODULE ActionAPI_Trace --------------------------
(* C30 binding: rounds recorded from a real morpheusvm VM                   *)
(* (drivers/examples/morpheusvm/vm).  One "round" line = on one accepted    *)
(* state: the reply of JSONRPCServer.ExecuteActions, the reply of           *)
(* JSONRPCServer.SimulateActions, and the result of a real transaction with *)
(* the same actions that was submitted, built, verified and accepted on     *)
(* that state (kind "plain": Transfer's own StateKeys; kind "scoped": the   *)
(* transaction declares exactly the keys SimulateActions reported).         *)
(* All of them must be what Transfer.tla's ActionFold / RunTxA say.  The    *)
(* fee is accounted for by RunTxA (sponsor debited first); in most rounds   *)
(* the sponsor is an account the actions never touch, so "the same state"   *)
(* is literal and the three output lists must be equal to each other.       *)
(* "fault" lines: the two APIs over a VM whose reads fail once (see below). *)
EXTENDS Transfer, TLC, Json, IOUtils

VARIABLES l, bal, diag
tvars == <<l, bal, diag>>

Trace == ndJsonDeserialize(IOEnv.TRACE)
N     == Len(Trace)
T     == Trace[l]
Ev(e) == l <= N /\ Trace[l].ev = e /\ l' = l + 1
MAXT  == 2147483647      \* recorded values stay far below it

Ledger(rec) == [a \in DOMAIN rec |-> rec[a]]
SameMap(f, g) == DOMAIN f = DOMAIN g /\ \A k \in DOMAIN f : f[k] = g[k]

TraceInit == l = 2 /\ TLCSet(1, 1) /\ Trace[1].ev = "reset" /\ bal = Ledger(Trace[1].bal) /\ diag = {}
TReset    == Ev("reset") /\ bal' = Ledger(T.bal) /\ diag' = {}

Touched == {T.actor} \cup {T.actions[i].to : i \in DOMAIN T.actions}

RoundDiag ==
  LET fold == ActionFold(bal, T.actor, T.actions, MAXT)
      tx   == [sponsor |-> T.sponsor, actor |-> T.actor, fee |-> T.chain.fee, actions |-> T.actions]
      onch == RunTxA(bal, tx, MAXT)
      scoped == T.kind = "scoped"
  IN
  (IF ~SameMap(T.pre, bal) THEN {"pre-state-is-not-the-previous-post-state"} ELSE {}) \cup
  (* ExecuteActions: outputs of the actions that ran, and an error exactly when one fails *)
  (IF T.exec.rpcerr # "" THEN {"execute-rpc-error"} ELSE
     (IF T.exec.outs # fold.outs THEN {"execute-outputs"} ELSE {}) \cup
     (IF T.exec.failed # ~fold.ok THEN {"execute-failure-flag"} ELSE {})) \cup
  (* SimulateActions: all outputs when every action runs (it reports an error, not outputs, when one fails) *)
  (IF fold.ok /\ ~T.sim.ok THEN {"simulate-failed"} ELSE {}) \cup
  (IF ~fold.ok /\ T.sim.ok THEN {"simulate-succeeded-on-failing-list"} ELSE {}) \cup
  (IF T.sim.ok /\ T.sim.outs # fold.outs THEN {"simulate-outputs"} ELSE {}) \cup
  (IF T.sim.ok /\ Len(T.sim.keys) # Len(T.actions) THEN {"simulate-key-sets"} ELSE {}) \cup
  (* the transaction on the same state *)
  (IF ~onch.valid THEN {"unpayable-transaction-included"} ELSE
     (IF T.chain.ok # onch.ok \/ T.chain.outs # onch.outs
        THEN {IF scoped THEN "simulated-keys-insufficient" ELSE "chain-result"} ELSE {}) \cup
     (IF ~SameMap(T.post, onch.bal) THEN {"post-balances"} ELSE {})) \cup
  (* literal reading of the statement when the fee payer is not involved in the actions *)
  (IF T.sponsor \notin Touched /\ T.exec.rpcerr = "" /\ T.exec.outs # T.chain.outs THEN {"api-differs-from-chain"} ELSE {})

TRound ==
  /\ Ev("round")
  /\ diag' = RoundDiag
  /\ bal' = Ledger(T.post)

(* ---- fault dimension: the same two APIs served by a VM whose read of one balance record fails once with a transient
   (not "not found") error.  T.execfault / T.simfault: the injected failure was actually hit while that API ran.
   Either the API reports an error or it answers exactly the fold's outputs on the real state T.pre; in particular a
   failed read is never taken for "no record". *)
IsPrefix(s, t) == Len(s) <= Len(t) /\ s = SubSeq(t, 1, Len(s))

FaultDiag ==
  LET fold == ActionFold(Ledger(T.pre), T.actor, T.actions, MAXT)
      ex   == T.exec
      exErr == ex.rpcerr # "" \/ ex.failed
  IN
  (* ExecuteActions *)
  (IF ex.rpcerr # "" /\ ~T.execfault THEN {"execute-rpc-error"} ELSE {}) \cup
  (IF ~IsPrefix(ex.outs, fold.outs)
     THEN {IF T.execfault THEN "execute-outputs-from-partially-read-state" ELSE "execute-outputs"} ELSE {}) \cup
  (IF ~exErr /\ (ex.outs # fold.outs \/ ~fold.ok)
     THEN {IF T.execfault THEN "execute-outputs-from-partially-read-state" ELSE "execute-failure-flag"} ELSE {}) \cup
  (* an action-level failure must be the fold's failure (same position), unless it carries the injected read error *)
  (IF ex.rpcerr = "" /\ ex.failed /\ ~T.execinjected /\ (fold.ok \/ Len(ex.outs) # Len(fold.outs))
     THEN {IF T.execfault THEN "read-failure-treated-as-absence" ELSE "execute-failure-flag"} ELSE {}) \cup
  (* SimulateActions *)
  (IF T.sim.ok /\ (T.sim.outs # fold.outs \/ ~fold.ok)
     THEN {IF T.simfault THEN "simulate-outputs-from-partially-read-state" ELSE "simulate-outputs"} ELSE {}) \cup
  (IF ~T.sim.ok /\ fold.ok /\ ~T.simfault THEN {"simulate-failed"} ELSE {})

TFault ==
  /\ Ev("fault")
  /\ diag' = FaultDiag
  /\ UNCHANGED bal

TraceNext == TReset \/ TRound \/ TFault
TraceSpec == TraceInit /\ [][TraceNext]_tvars

DiagEmpty == diag = {}
HWM      == TLCSet(1, IF TLCGet(1) > l - 1 THEN TLCGet(1) ELSE l - 1)
Accepted == PrintT(<<"TRACE_HWM", TLCGet(1)>>) /\ TLCGet(1) = N
=============================================================================
