-------------------------- MODULE ChainIndex_Trace --------------------------
(* Trace validation of executions recorded from the real chainindex          *)
(* ChainIndex over memdb against ChainIndex.tla (C19).  One ndjson line per  *)
(* call (accept = UpdateLastAccepted, save = SaveHistorical, restart = New   *)
(* on the same database) with its result and what the public getters report  *)
(* afterwards for every height in play:                                      *)
(*   byh  = heights for which GetBlockByHeight returns that block            *)
(*   h2id = heights for which GetBlockIDAtHeight returns that block's id     *)
(*   id2h = heights whose id GetBlockIDHeight maps back to the height        *)
(*   byid = heights whose id GetBlock resolves to that block                 *)
(*   bad  = getters that answered with a *wrong* block / id / height         *)
(*   last = GetLastAcceptedHeight (-1 when unset)                            *)
(* crash = a call cut short after k durable writes, then reopen + observe.   *)
(* The monitor part of ChainIndex.tla is stepped from the logged calls; the  *)
(* observed tables are loaded into blk / h2id / id2h and every invariant of  *)
(* the module (the statement) is evaluated on every state.  The trace spec   *)
(* does not predict *which* out-of-window blocks the index keeps.            *)
EXTENDS ChainIndex, TLC, Json, IOUtils, Sequences, SequencesExt

VARIABLE l

Trace == ndJsonDeserialize(IOEnv.TRACE)
N     == Len(Trace)
tvars == <<vars, l>>

SeqSet(s) == {s[k] : k \in DOMAIN s}
Ev(e)     == l <= N /\ Trace[l].ev = e /\ l' = l + 1
T         == Trace[l]

ObserveRes(r) ==
  /\ blk' = SeqSet(T.byh) /\ h2id' = SeqSet(T.h2id) /\ id2h' = SeqSet(T.id2h)
  /\ res' = r
  /\ T.bad = <<>>                                  \* no getter returned a wrong answer
  /\ SeqSet(T.byid) = SeqSet(T.byh)                \* retrievable by id <=> retrievable by height
  /\ T.last = last'
Observe == ObserveRes(T.res)

TraceInit ==
  /\ l = 2 /\ TLCSet(1, 1)
  /\ Trace[1].ev = "reset"
  /\ w = Trace[1].w /\ last = -1 /\ must = {} /\ q = TRUE
  /\ blk = {} /\ h2id = {} /\ id2h = {} /\ res = "ok"

TReset   == Ev("reset") /\ w' = T.w /\ last' = -1 /\ must' = {} /\ q' = TRUE
            /\ blk' = {} /\ h2id' = {} /\ id2h' = {} /\ res' = "ok"
TAccept  == Ev("accept") /\ (IF T.res = "ok" THEN PAccept(T.h) ELSE UNCHANGED mon) /\ Observe
TSave    == Ev("save") /\ PSave(T.h) /\ Observe
TRestart == Ev("restart") /\ PRestart(T.w) /\ Observe

(* crash family: the database handed to the index fails every durable write (Put / Delete / batch Write) after  *)
(* the k-th one of this call; the index is then reopened on what reached the underlying memdb and observed.     *)
(* The injected error itself is expected (res is not bound to it); whether the call took effect is read off the *)
(* reopened index, and the statement's invariants are evaluated on the reopened tables.                         *)
TCrash   == Ev("crash")
            /\ (IF T.op = "accept" THEN PCrashAccept(T.h, T.last = T.h)
                ELSE PCrashSave(T.h, T.h \in SeqSet(T.byh)))
            /\ ObserveRes(T.res)         \* "ok" unless the call failed with an error that is not the injected one

TraceNext == TReset \/ TAccept \/ TSave \/ TRestart \/ TCrash
TraceSpec == TraceInit /\ [][TraceNext]_tvars

HWM      == TLCSet(1, IF TLCGet(1) > l - 1 THEN TLCGet(1) ELSE l - 1)
Accepted == PrintT(<<"TRACE_HWM", TLCGet(1)>>) /\ TLCGet(1) = N
=============================================================================
