--------------------------- MODULE FeeMarket_Trace ---------------------------
(* C13 binding step, TLC half: recorded rows of the real Manager.ComputeNext  *)
(* whose values are small enough for TLC's integers (every field and every    *)
(* intermediate product below MAXU = 2^30-1, so no saturation is involved and *)
(* the 64-bit code must agree with the rule evaluated at this word size) are   *)
(* validated directly against the operators of FeeMarket - the same operators *)
(* whose theorems FeeMarket_MC proves and which Apalache evaluates on the     *)
(* 64-bit rows.  One line per (call, dimension).                              *)
EXTENDS FeeMarket, TLC, Json, IOUtils, Sequences

VARIABLE l
Trace == ndJsonDeserialize(IOEnv.TRACE)
N     == Len(Trace)
T     == Trace[l]

TraceInit == l = 2 /\ TLCSet(1, 1) /\ Trace[1].ev = "reset"
TReset    == l <= N /\ T.ev = "reset" /\ l' = l + 1

SameW(a, b) == \A i \in 1..W : a[i] = b[i]

TRow ==
  /\ l <= N /\ T.ev = "row" /\ l' = l + 1
  /\ LET since == Since(T.lastSec, T.nowMs)
         win   == NextWindow(T.w, T.last, since)
     IN (* the encoded state decodes to what was put in *)
        /\ T.prev = T.enc_prev /\ SameW(T.w, T.enc_w) /\ T.last = T.enc_last
        (* the rule *)
        /\ NextPrice(T.prev, T.w, T.last, T.target, T.denom, T.min, since) = T.next
        /\ SameW(win, T.nw)
        (* the new state carries no consumption yet and the block's second *)
        /\ T.nlast = 0 /\ T.rt_sec = T.nowMs \div 1000
        (* a copy of Bytes() decodes to the same prices, window and consumption *)
        /\ T.rt_next = T.next /\ SameW(T.rt_w, T.nw) /\ T.rt_last = T.nlast
        /\ T.prices_d = T.next /\ T.consumed_d = T.nlast

TraceNext == TReset \/ TRow
TraceSpec == TraceInit /\ [][TraceNext]_l

HWM      == TLCSet(1, IF TLCGet(1) > l - 1 THEN TLCGet(1) ELSE l - 1)
Accepted == PrintT(<<"TRACE_HWM", TLCGet(1)>>) /\ TLCGet(1) = N
=============================================================================
