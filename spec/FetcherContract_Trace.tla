------------------------ MODULE FetcherContract_Trace ------------------------
(* Trace validation of executions recorded from the real internal/fetcher   *)
(* (driven through the real state.Keys.WithoutPermissions) against           *)
(* FetcherContract (fetcher-level part of C24).                              *)
EXTENDS FetcherContract, TLC, Json, IOUtils

VARIABLE l
Trace == ndJsonDeserialize(IOEnv.TRACE)
NL    == Len(Trace)
tvars == <<fvars, l>>
Ev(e) == l <= NL /\ Trace[l].ev = e /\ l' = l + 1
R     == Trace[l]

Set(seq) == {seq[i] : i \in DOMAIN seq}
ParentOf(rec) == [k \in KeyNames |-> IF k \in DOMAIN rec.parent THEN rec.parent[k] ELSE "absent"]
CKeysOf(rec)  == [c \in Calls |-> IF c <= Len(rec.calls) THEN Set(rec.calls[c].keys) ELSE {}]
GotOf(rec)    == [k \in (DOMAIN rec.got) \ {"_"} |-> rec.got[k]]

TraceInit == /\ l = 2 /\ TLCSet(1, 1) /\ Trace[1].ev = "reset"
             /\ FInit(ParentOf(Trace[1]), CKeysOf(Trace[1]), Len(Trace[1].calls))
TReset == /\ Ev("reset")
          /\ parent' = ParentOf(R) /\ ckeys' = CKeysOf(R) /\ ncalls' = Len(R.calls)
          /\ declared' = {} /\ rres' = [k \in KeyNames |-> "none"] /\ nreads' = [k \in KeyNames |-> 0]
          /\ anyFail' = FALSE /\ fst' = [c \in Calls |-> "none"] /\ gst' = [c \in Calls |-> "none"]
          /\ stop' = "idle" /\ wait' = "no" /\ stopFirst' = FALSE
TFetchCall == Ev("fetch_call") /\ FetchCall(R.c)
TFetchRet  == Ev("fetch_ret")  /\ FetchRet(R.c, R.res)
TRead      == Ev("read")       /\ R.k \in KeyNames /\ Read(R.k)
TReadRet   == Ev("read_ret")   /\ ReadRet(R.k, R.res)
TGetCall   == Ev("get_call")   /\ GetCall(R.c)
TGetRet    == Ev("get_ret")    /\ GetRet(R.c, R.res, GotOf(R))
TStopCall  == Ev("stop_call")  /\ StopCall
TStopRet   == Ev("stop_ret")   /\ StopRet
TWaitCall  == Ev("wait_call")  /\ WaitCall
TWaitRet   == Ev("wait_ret")   /\ WaitRet(R.res)
TFin       == Ev("fin")        /\ Fin

TraceNext == TReset \/ TFetchCall \/ TFetchRet \/ TRead \/ TReadRet \/ TGetCall \/ TGetRet \/ TStopCall \/ TStopRet
             \/ TWaitCall \/ TWaitRet \/ TFin
TraceSpec == TraceInit /\ [][TraceNext]_tvars
HWM      == TLCSet(1, IF TLCGet(1) > l - 1 THEN TLCGet(1) ELSE l - 1)
Accepted == PrintT(<<"TRACE_HWM", TLCGet(1)>>) /\ TLCGet(1) = NL
=============================================================================
