SPECIFICATION Spec
CONSTANTS
  Accts = {a, b, c}
  MAXU = 3
  MaxActs = 2
INVARIANTS InvWeak
SYMMETRY Sym
CHECK_DEADLOCK FALSE
