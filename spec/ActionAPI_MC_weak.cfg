SPECIFICATION Spec
CONSTANTS
  Accts = {"a", "b", "c"}
  MAXU = 3
  MaxActs = 2
INVARIANTS InvWeak
CHECK_DEADLOCK FALSE
