SPECIFICATION TraceSpec
CONSTRAINT HWM
INVARIANT DiagEmpty ModelSatisfiesProperty
POSTCONDITION Accepted
CHECK_DEADLOCK FALSE
