SPECIFICATION Spec
CONSTANTS
  Txs = {1, 2, 3}
  Peers = {"n1", "n2"}
  Self = "me"
  MaxSize = 3
  CacheSize = 3
  Sizes = {1, 2}
  Strategy = "proposers"
  Variant = "code"
INVARIANTS TypeOK NoRegossip NoEcho NeverToSelf Targeting
PROPERTIES Selection KeepsLive
CHECK_DEADLOCK FALSE
