SPECIFICATION MCSpec
CONSTANTS
  Heights = {0, 1, 2, 3, 4, 5, 6}
  Windows = {1, 2, 3}
  FixedCode = FALSE
  FlushEvery = 1
INVARIANTS TypeOK RestartStable
CHECK_DEADLOCK FALSE
