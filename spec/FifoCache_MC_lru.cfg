SPECIFICATION Spec
CONSTANTS
  Keys = {1, 2, 3}
  Vals = {1, 2}
  Limits = {2}
  Variant = "lru"
INVARIANTS TypeOK Bounded LatestValue InsertionOrder
PROPERTIES StepOK
CHECK_DEADLOCK FALSE
