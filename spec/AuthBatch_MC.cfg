SPECIFICATION Spec
CONSTANTS
  MaxTx = 5
  MaxCores = 3
  MinBatch = 2
  ItemCap = 2
  BlockingAdd = TRUE
  FlushRemainder = TRUE
INVARIANTS VerdictCorrect EverySigChecked NoSendAfterClose NotStuck
CHECK_DEADLOCK FALSE
