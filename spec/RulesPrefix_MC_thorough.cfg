SPECIFICATION Spec
CONSTANTS
  MaxN = 5
  MaxLen = 2
  Alphabet = {0, 1}
INVARIANT CodedIsExact
INVARIANT OrderIrrelevant
INVARIANT DuplicatesConflict
INVARIANT EmptyConflictsAll
INVARIANT NoFalsePositive
PROPERTY Monotone
CHECK_DEADLOCK FALSE
