"""C22 - validity-window backfill trusts only the hash-linked ancestry of the sync target.
design : Backfill_MC - client expected-parent chaining + syncer goroutine against honest (real handler semantics) and faulty
         responses and forward targets (UpdateSyncTarget), all timestamp assignments of a short chain; safety invariants +
         liveness under fairness                                                                                [TLC exhaustive]
binding: (tv) real Syncer + BlockFetcherClient + TimeValidityWindow + BlockFetcherHandler (honest peer) against a scripted
         network; every response, SaveHistorical call and the final IsRepeat answers validated against Backfill_Trace"""
import json
import os
import vlib

LEVEL = "model_checking"
PKG = "internal/validitywindow"
FILES = ["verif_backfill_test.go"]


def sig(f):
    ev = f.get("event", {})
    if ev.get("ev") == "end" and not ev.get("done"):
        return "end:backfill-never-completes-although-honest-peers-answer-every-request-or-nothing-is-left"
    if ev.get("ev") == "end":
        return "end:recorded-or-tracked-set-differs-from-the-true-ancestry"
    if ev.get("ev") == "save":
        return "save:block-is-not-the-next-true-ancestor"
    return "%s:not-explained-by-Backfill" % ev.get("ev")


def describe(f):
    r = f.get("reset", {})
    return "scenario=%s n=%s win=%s ts=%s have=%s script=%s line %s" % (
        r.get("sc"), r.get("n"), r.get("win"), r.get("ts"), r.get("have"), r.get("script"), json.dumps(f.get("event"))[:300])


def run(ctx):
    if ctx.quick:
        # short JVM runs: C1-only JIT and two GC threads halve CPU and wall time on a loaded machine
        os.environ.setdefault("JAVA_TOOL_OPTIONS", "-XX:TieredStopAtLevel=1 -XX:ParallelGCThreads=2")
    if ctx.only is None:
        vlib.tlc_mc(ctx, "Backfill_MC", ctx.pick("Backfill_MC_quick.cfg", "Backfill_MC.cfg"), coverage=True,
                    allow_zero=("ClientCheck",))  # only reachable when minTimestamp moves (UpdateSyncTarget, not modelled)
        if not ctx.quick:
            # (vlib.tlc_mc does not recognise TLC's "Temporal property X was violated" wording: run_tlc directly)
            r = vlib.run_tlc(ctx, "mc-orig", "Backfill_MC", "Backfill_MC_original.cfg")
            hit = "Temporal property Completes was violated" in r["out"]
            ctx.cov["design_step_detects_missing_genesis_stop"] = hit
            if not hit:
                raise vlib.Infra("sensitivity: the client without the genesis stop no longer violates Completes")
            r = vlib.run_tlc(ctx, "mc-cursor", "Backfill_MC", "Backfill_MC_cursor.cfg")
            hit = "Temporal property Completes was violated" in r["out"]
            ctx.cov["design_step_detects_cursor_moved_by_response_length"] = hit
            if not hit:
                raise vlib.Infra("sensitivity: a cursor moved by the response length no longer violates Completes")
            r = vlib.run_tlc(ctx, "mc-ge", "Backfill_MC", "Backfill_MC_forward_ge.cfg")
            hit = "Invariant CompleteWhenDone is violated" in r["out"]
            ctx.cov["design_step_detects_forward_completion_one_timestamp_early"] = hit
            if not hit:
                raise vlib.Infra("sensitivity: forward completion with >= no longer violates CompleteWhenDone")
    scenarios = ctx.pick(48, 600)
    rc, out = vlib.go_driver(ctx, PKG, "^TestVerifBackfillRecord$", files=FILES, env={"VERIF_SCENARIOS": scenarios},
                             timeout=1200)
    if rc != 0:
        raise vlib.Infra("backfill recorder failed:\n" + out[-3000:])
    files = vlib.scenario_files(ctx, "sc")
    if len(files) < (1 if ctx.only is not None else scenarios):
        raise vlib.Infra("recorder wrote %d of %d scenarios" % (len(files), scenarios))
    distinct = set()
    for f in files:
        lines = vlib.read_ndjson(f)
        r = lines[0]
        resps = [l for l in lines if l["ev"] == "resp"]
        saves = [l for l in lines if l["ev"] == "save"]
        end = lines[-1]
        ups = [l for l in lines if l["ev"] == "update"]
        # labels for coverage only: the oldest block populate links (walk down through the held blocks)
        ts, n0, win = r["ts"], r["n0"], r["win"]
        o = n0 - r["have"]
        for h in range(n0, n0 - r["have"] - 1, -1):
            if ts[h] < ts[n0] - win:
                o = h
                break
        ctx.add("forward_updates", len(ups))
        for u in ups:
            missing_equal = o > 0 and ts[o - 1] == ts[o] and not any(s["h"] == o - 1 for s in lines[:lines.index(u)] if s["ev"] == "save")
            if ts[u["h"]] - ts[o] == win:
                ctx.add("forward_updates_at_exactly_one_window", 1)
                if missing_equal:
                    ctx.add("forward_updates_at_exactly_one_window_with_equal_timestamp_ancestor_missing", 1)
            if ts[u["h"]] - ts[o] > win:
                ctx.add("forward_updates_beyond_one_window", 1)
        faulty = [l["beh"] for l in resps if l["beh"] != "honest"] + ["nopeer" for l in lines if l["ev"] == "nopeer"]
        for l in resps:
            if l["beh"].startswith("tail-") and len(l["blocks"]) >= 2:
                good = 0
                exp = None
                for b in l["blocks"]:
                    if not b["ok"] or b["id"] >= 99 or (exp is not None and b["id"] != exp):
                        break
                    good += 1
                    exp = b["parent"]
                if 0 < good < len(l["blocks"]) + (1 if l["beh"] == "tail-otherheight" else 0):
                    ctx.add("responses_with_good_prefix_and_bad_tail", 1)
                    ctx.cov.setdefault("bad_tail_positions", {})
                    ctx.cov["bad_tail_positions"][str(good + 1)] = ctx.cov["bad_tail_positions"].get(str(good + 1), 0) + 1
        for b in set(faulty):
            ctx.cov.setdefault("faulty_responses", {})
            ctx.cov["faulty_responses"][b] = ctx.cov["faulty_responses"].get(b, 0) + faulty.count(b)
        ctx.add("blocks_saved", len(saves))
        ctx.add("scenarios_done", 1 if end.get("done") else 0)
        ctx.add("scenarios_not_done_at_watchdog", 0 if end.get("done") else 1)
        ctx.add("scenarios_reaching_genesis", 1 if any(s["h"] == 0 for s in saves) else 0)
        ctx.add("scenarios_ending_past_the_window", 1 if saves and saves[-1]["h"] > 0 and end.get("done") else 0)
        ctx.add("fabricated_blocks_offered", sum(1 for l in resps for b in l["blocks"] if b["id"] >= 99))
        if faulty and saves:
            distinct.add((r["n"], r["n0"], r["win"], tuple(r["ts"]), r["have"], tuple(r["script"])))
    ctx.add("evaluations", len(files))
    ctx.add("distinct_nontrivial", len(distinct))
    ctx.sample({"kind": "recorded-trace", "first_lines": vlib.read_ndjson(files[0])[:7]})
    if ctx.only is None:
        for k in ("blocks_saved", "scenarios_reaching_genesis", "scenarios_ending_past_the_window", "fabricated_blocks_offered",
                  "forward_updates_at_exactly_one_window_with_equal_timestamp_ancestor_missing",
                  "forward_updates_beyond_one_window", "responses_with_good_prefix_and_bad_tail"):
            if not ctx.cov.get(k):
                raise vlib.Infra("vacuity: no scenario with " + k)
        if len(ctx.cov.get("faulty_responses", {})) < 8:
            raise vlib.Infra("vacuity: only %s faulty behaviours exercised" % sorted(ctx.cov.get("faulty_responses", {})))
    fails = vlib.validate_scenarios(ctx, "Backfill_Trace", "Backfill_Trace.cfg", files, label="tv", signature_fn=sig,
                                    max_reports=4)
    for f in fails:
        try:
            p = json.load(open(f["replay"]))
            p["only"] = f["reset"].get("sc")
            json.dump(p, open(f["replay"], "w"), indent=1)
        except Exception:
            pass
    vlib.report_failures(ctx, fails, describe)
    ctx.cov["rule"] = ("tv: seeded scenarios: chain of 3-8 blocks with non-decreasing (possibly equal) timestamps, window in "
                       "{1,2,3,5,8,1000}, node starts with the target and 0-2 ancestors (often sharing a timestamp with the next older blocks), "
                       "0-2 forward blocks handed to UpdateSyncTarget at exactly / just beyond / just below one window after the "
                       "oldest held block, script of 0-4 faulty responses "
                       "(partial, truncated, forged, reordered, swapped, dup, otherheight, fork, empty, error, nopeer, good linked "
                       "prefix + garbage / forged / missing block at positions 2-6 in every 4th scenario; slow in "
                       "thorough) followed by honest answers of the real handler; non-trivial = at least one faulty response "
                       "and at least one recorded block; distinct = distinct (chain, window, start, script)")
    ctx.assumptions += ["block ids are collision-free hashes of the block bytes (the driver's parser computes them from the bytes)",
                        "transaction expiries lie beyond the target's timestamp (eviction is C09's subject)",
                        "UpdateSyncTarget is issued by the driver while the client waits for a response (never concurrently with the "
                        "client's block loop), with the next true block only",
                        "'not done' is decided by a 30 s watchdog (normal completion takes a few 500 ms rounds) and is only a "
                        "violation when nothing is left to fetch or the last 4 requests were all answered honestly (whatever the "
                        "client asked for)"]
