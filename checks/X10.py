"""X10 (extra, not in the manifest) - internal/typedclient: typed request / response and the blocking SyncAppRequest.
design : SyncRequests_MC (Start / Deliver / Cancel over concurrent calls; invariants OwnResponse, SendRule; action properties
         Final, Returns; the variant that hands a response to the oldest waiting call violates OwnResponse)  [TLC exhaustive]
binding: (tv) 2-5 concurrent SyncAppRequest calls on a real SyncTypedClient over a driver-implemented network that keeps the
         callbacks; scripted deliveries (ok / peer error / undecodable), repeated deliveries and cancellations are applied one at a
         time; which calls returned, and with what, after every event is validated by SyncRequests_Trace"""
import json
import os
import vlib

LEVEL = "model_checking"


def sig(fail):
    d = fail.get("diag") or ""
    return "%s:%s" % (fail.get("event", {}).get("ev"), d.strip("{} ").replace('"', "") or fail.get("invariant"))


def describe(f):
    hist = [(l.get("ev"), l.get("r"), l.get("kind"), l.get("returned")) for l in f.get("scenario", [])][-8:]
    return "reset=%s history(tail)=%s failing line %s diag=%s" % (json.dumps(f.get("reset")), hist, json.dumps(f.get("event"))[:300], f.get("diag"))


def run(ctx):
    if ctx.only is None:
        vlib.tlc_mc(ctx, "SyncRequests_MC", ctx.pick("SyncRequests_MC_quick.cfg", "SyncRequests_MC.cfg"), coverage=True)
        r = vlib.tlc_mc(ctx, "SyncRequests_MC", "SyncRequests_MC_oldest.cfg", label="oldest", expect_violation=True)
        if not r["violated"] or "OwnResponse" not in r["violated"]:
            raise vlib.Infra("sensitivity: handing responses to the oldest waiting call no longer violates OwnResponse")
    rc, out = vlib.go_driver(ctx, "internal/typedclient", "^TestVerifSyncClient$", files=["verif_sync_test.go"], timeout=ctx.pick(600, 1800),
                             env={"VERIF_SCENARIOS": ctx.pick(200, 2000)})
    p = vlib.panic_in_repo(out)
    if p:
        raise vlib.Violation("panic in the code under test: " + p, signature="panic")
    if rc != 0:
        raise vlib.Infra("typedclient recorder failed:\n" + out[-3000:])
    sp = os.path.join(ctx.work, "out", "tc_stats.json")
    st = json.load(open(sp))
    os.remove(sp)
    files = vlib.scenario_files(ctx, "tc-")
    if ctx.only is None and not st.get("hung"):
        for k in ("cancel", "deliver_ok", "deliver_peer", "deliver_garbage", "event_on_returned_call"):
            ctx.add("tv_" + k, st.get(k, 0))
            if st.get(k, 0) == 0:
                raise vlib.Infra("vacuity: scenarios never showed " + k)
    distinct = set()
    for f in files:
        lines = vlib.read_ndjson(f)
        kinds = {x[1] for l in lines[1:] for x in l.get("returned", [])}
        if len(kinds) >= 2:          # non-trivial = calls of one scenario ended in at least two different ways
            distinct.add(hash(json.dumps(lines)))
    ctx.add("evaluations", len(files))
    ctx.add("distinct_nontrivial", len(distinct))
    ctx.sample({"kind": "typedclient-trace", "lines": vlib.read_ndjson(files[-1])[:5]})
    fails = vlib.validate_scenarios(ctx, "SyncRequests_Trace", "SyncRequests_Trace.cfg", files, label="tc", signature_fn=sig)
    for f in files:
        os.remove(f)
    vlib.report_failures(ctx, fails, describe)
    ctx.cov["rule"] = ("seeded scenarios: 2-5 concurrent calls (1 in 8 cannot be marshalled, 1 in 8 is refused by the network), then 2k+2 "
                       "events out of {cancel r (30 %), deliver r's response: ok / peer error / undecodable bytes}, also for calls that "
                       "already returned; non-trivial = the calls ended in at least two different ways; distinct = distinct traces")
    ctx.assumptions += ["events are applied one at a time (a response and a cancellation never race); the call an event completes is "
                        "waited for with a 30 s watchdog, 2 ms are left for anything else to return",
                        "the network calls a callback from the driver's goroutine; AppGossip / AppRequestAny are not driven"]
