"""X06 (extra, not in the manifest) - pubsub.Server / Connection / Connections: fan-out above the message buffer.
design : PubSubServer_MC (Connect / Publish to a subscriber set / writePump / stall / hang-up / drop; invariants
         InOrderNoLoss, Complete, NeverBlocks (ENABLED Publish), action properties ReportsInactive, OnlySubscribers;
         the "blocking" and "broadcast" variants must violate NeverBlocks / OnlySubscribers)          [TLC exhaustive]
binding: (tv) seeded scenarios on a real Server behind httptest with real websocket clients: connect, publish to subsets
         (including closed and stalled connections), client batches to the callback, stall, close, floods of 120 x 64 KiB;
         Publish results, callback records and every client's received sequence are validated by PubSubServer_Trace"""
import json
import os
import vlib

LEVEL = "model_checking"


def sig(fail):
    d = fail.get("diag") or ""
    return "%s:%s" % (fail.get("event", {}).get("ev"), d.strip("{} ").replace('"', "") or fail.get("invariant"))


def describe(f):
    ev = dict(f.get("event", {}))
    if "got" in ev:
        ev["got"] = ev["got"][:12] + ["..."] if len(ev["got"]) > 12 else ev["got"]
    hist = [(l.get("ev"), l.get("c", l.get("m"))) for l in f.get("scenario", []) if not l.get("big")][-10:]
    return "history(tail, floods elided)=%s failing line %s diag=%s" % (hist, json.dumps(ev)[:400], f.get("diag"))


def run(ctx):
    if ctx.only is None:
        vlib.tlc_mc(ctx, "PubSubServer", ctx.pick("PubSubServer_MC_quick.cfg", "PubSubServer_MC.cfg"), coverage=True)
        for cfg, inv in (("blocking", "NeverBlocks"), ("broadcast", "OnlySubscribers")):
            r = vlib.tlc_mc(ctx, "PubSubServer", "PubSubServer_MC_%s.cfg" % cfg, label=cfg, expect_violation=True)
            if not r["violated"] or inv not in r["violated"]:
                raise vlib.Infra("sensitivity: PubSubServer_MC_%s no longer violates %s" % (cfg, inv))
    rc, out = vlib.go_driver(ctx, "pubsub", "^TestVerifPubSubServer$", files=["verif_server_test.go"], timeout=ctx.pick(600, 1800),
                             env={"VERIF_SCENARIOS": ctx.pick(12, 100), "VERIF_DEPTH": ctx.pick(16, 24)})
    p = vlib.panic_in_repo(out)
    if p:
        raise vlib.Violation("panic in the code under test: " + p, signature="panic")
    if rc != 0:
        raise vlib.Infra("pubsub recorder failed:\n" + out[-3000:])
    sp = os.path.join(ctx.work, "out", "pubsub_stats.json")
    st = json.load(open(sp))
    os.remove(sp)
    files = vlib.scenario_files(ctx, "ps-")
    if ctx.only is None:
        for k in ("publish", "publish_reported_inactive", "client_send", "close", "stall", "flood"):
            ctx.add("tv_" + k, st.get(k, 0))
            if st.get(k, 0) == 0:
                raise vlib.Infra("vacuity: scenarios never exercised " + k)
        ctx.add("tv_stalled_connection_dropped_by_server", st.get("stalled_connection_dropped_by_server", 0))
    distinct = set()
    for f in files:
        lines = vlib.read_ndjson(f)
        evs = [l["ev"] for l in lines]
        if "close" in evs or "stall" in evs:        # non-trivial = a scenario with a closed or stalled connection
            distinct.add(hash(json.dumps([(l["ev"], l.get("c"), l.get("to")) for l in lines])))
    ctx.add("evaluations", len(files))
    ctx.add("distinct_nontrivial", len(distinct))
    ctx.sample({"kind": "pubsub-trace", "first_lines": [l for l in vlib.read_ndjson(files[0]) if not l.get("big")][:6]})
    fails = vlib.validate_scenarios(ctx, "PubSubServer_Trace", "PubSubServer_Trace.cfg", files, label="ps", signature_fn=sig)
    for f in files:
        os.remove(f)
    vlib.report_failures(ctx, fails, describe)
    ctx.cov["rule"] = ("seeded scenarios of 16 (quick) / 24 (thorough) steps over {connect (<= 5 clients), publish 16 bytes to a random "
                       "subset of all clients ever connected, client batch of 1-3 messages, close a healthy client, stall a healthy "
                       "client, flood = 120 publishes of 64 KiB to everybody}; non-trivial = contains a close or a stall; distinct = "
                       "distinct step sequences")
    ctx.assumptions += ["every step waits for the server-side effect it needs with a 30 s watchdog; no other timing is judged",
                        "healthy clients read continuously, so their pending queue (1024 batches) never overflows",
                        "for a stalled client neither delivery nor membership is predicted (the server may drop it after WriteWait)",
                        "ping / pong keep-alive and MaxReadMessageSize are not exercised"]
