"""X12 (extra, not in the manifest) - internal/pebble (and storage.New): the database.Database wrapper against an ordered map.
design : OrderedKV_MC (iterator bounds as coded - bytesPrefix, start-versus-prefix - proved equal to "has the prefix / is not
         below the start" for every key and prefix of length <= 3 over a 3-letter alphabet including 0xff; map, DeleteRange
         and batch state machine; BatchInvisible; the prefix bound without carry over 0xff must fail)     [TLC exhaustive]
binding: (tv) seeded histories on a real pebble.Database in a directory under VERIF_OUT: Put / Delete / DeleteRange / Get /
         Has, batches (incl. Replay and the Write-Reset-reuse idiom), the four iterator constructors with a write between
         creation and iteration, Compact with arbitrary bounds, reopen, calls after Close; validated by OrderedKV_Trace"""
import json
import os
import vlib

LEVEL = "model_checking"


def sig(fail):
    d = fail.get("diag") or ""
    return "%s:%s" % (fail.get("event", {}).get("ev"), d.strip("{} ").replace('"', "") or fail.get("invariant"))


def describe(f):
    if f.get("kf"):
        return "known: " + f["signature"]
    hist = [(l.get("ev"), l.get("k", l.get("kind")), l.get("v", l.get("res"))) for l in f.get("scenario", [])][-10:]
    return "history(tail)=%s failing line %s diag=%s" % (hist, json.dumps(f.get("event"))[:500], f.get("diag"))


def run(ctx):
    if ctx.only is None:
        vlib.tlc_mc(ctx, "OrderedKV_MC", "OrderedKV_MC.cfg", coverage=True, allow_zero=("Compact",))
        vlib.tlc_mc(ctx, "OrderedKV_MC", "OrderedKV_MC_lemma.cfg", label="lemma")
        r = vlib.tlc_mc(ctx, "OrderedKV_MC", "OrderedKV_MC_plusone.cfg", label="plusone", expect_violation=True)
        if not r["violated"] or "Lemma" not in r["violated"]:
            raise vlib.Infra("sensitivity: the prefix bound without carry no longer violates the bounds lemma")
    rc, out = vlib.go_driver(ctx, "internal/pebble", "^TestVerifPebble$", files=["verif_pebble_test.go"], timeout=ctx.pick(600, 1800),
                             env={"VERIF_SCENARIOS": ctx.pick(30, 300), "VERIF_DEPTH": ctx.pick(60, 100)})
    p = vlib.panic_in_repo(out)
    if p:
        raise vlib.Violation("panic in the code under test: " + p, signature="panic")
    if rc != 0:
        raise vlib.Infra("pebble recorder failed:\n" + out[-3000:])
    sp = os.path.join(ctx.work, "out", "pb_stats.json")
    st = json.load(open(sp))
    os.remove(sp)
    files = vlib.scenario_files(ctx, "pb-")
    if ctx.only is None:
        for k in ("bwrite", "batch_reused_after_write", "breplay", "compact", "delrange", "iter_all", "iter_prefix", "iter_start",
                  "iter_startprefix", "iter_with_write_in_between", "reopen"):
            ctx.add("tv_" + k, st.get(k, 0))
            if st.get(k, 0) == 0:
                raise vlib.Infra("vacuity: histories never exercised " + k)
    ncalls, distinct = 0, set()
    for f in files:
        for l in vlib.read_ndjson(f):
            ncalls += 1
            if l["ev"] == "iter" and l["items"] and l["kind"] != "all":      # non-trivial = a bounded iteration that returned something
                distinct.add(hash(json.dumps([l["kind"], l["start"], l["prefix"], l["items"]])))
    ctx.add("evaluations", ncalls)
    ctx.add("distinct_nontrivial", len(distinct))
    ctx.sample({"kind": "pebble-trace", "lines": [l for l in vlib.read_ndjson(files[0]) if l["ev"] == "iter"][:2]})
    fails = vlib.validate_scenarios(ctx, "OrderedKV_Trace", "OrderedKV_Trace.cfg", files, label="pb", signature_fn=sig)
    for f in files:
        os.remove(f)
    vlib.report_failures(ctx, fails, describe)
    ctx.cov["rule"] = ("seeded histories of 60 (quick) / 100 (thorough) calls over keys of length 1-3 over {0x00, 0x61, 0xff}: Put, Delete, "
                       "DeleteRange, Get+Has, batch Put / Delete / Write (half of the time followed by Reset-reuse-Write) / Reset / Replay, "
                       "the four iterators (a third with a Put between creation and iteration), Compact (a third with nil limit), reopen "
                       "of the directory; then the full contents, Close and seven calls on the closed database. evaluation = one call; "
                       "non-trivial = a bounded iteration that returned something; distinct = distinct (bounds, result)")
    ctx.assumptions += ["single goroutine; values are one byte; pebble itself (LSM, WAL) is not modelled",
                        "the effect of writing a batch the wrapper has already closed is not predicted: the contents are read back",
                        "crash without Close is not exercised (reopen follows a clean Close)"]
