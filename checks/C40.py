"""C40 - size-suffixed state keys bound the values they can hold (keys/keys.go, state/keys.go, TStateView.Insert).
design : Keys_MC - the chunk rules over key lengths 0..4 x boundary suffixes x value lengths at chunk boundaries up to
         and beyond the 16-bit chunk limit: suffix is big-endian, Encode admits every size up to its maximum and is
         tight, short keys are invalid in every rule                                                [TLC exhaustive]
binding: (tv) three Go drivers record the real keys.* functions, state.Keys.Add, Transaction.StateKeys (key declared by
         an action / by the sponsor's balance handler) and TStateView.Insert over the same domain plus seeded random
         keys and sizes; TLC decides every row (Keys_Trace)"""
import json
import os
import re
import sys
import concurrent.futures

sys.path.insert(0, os.path.dirname(os.path.abspath(__file__)))
import _purerules as _rules  # noqa: E402
import vlib  # noqa: E402

LEVEL = "model_checking"
DRIVERS = [("keys", "^TestVerifKeysRecord$", ["verif_keys_test.go"], "rows_keys.ndjson", "keys_summary.json"),
           ("state/tstate", "^TestVerifC40InsertRecord$", ["verif_c40_test.go"], "rows_insert.ndjson", "insert_summary.json"),
           ("chain", "^TestVerifC40StateKeysRecord$", ["verif_c40_test.go"], "rows_statekeys.ndjson", "statekeys_summary.json")]


def sig(row, reason):
    return "keys:%s:%s" % (row["kind"], reason)


def cfg_set(text, name):
    m = re.search(r"^\s*%s = \{([^}]*)\}" % name, text, re.M)
    return [int(x) for x in m.group(1).split(",")]


def run(ctx):
    mc = None
    if ctx.only is None:
        mc = vlib.tlc_mc(ctx, "Keys_MC", "Keys_MC.cfg")
        if mc["violated"]:
            raise vlib.Infra("design step: the transcribed key rules violate a theorem: " + mc["violated"])
    _rules.stage(ctx, "design(tlc)")
    nrand = ctx.pick(1500, 30000)

    def drive(d):
        pkg, rx, files, rowfile, summary = d
        rc, out = vlib.go_driver(ctx, pkg, rx, files=files, env={"VERIF_RANDOM": nrand})
        sp = os.path.join(ctx.work, "out", summary)
        if rc != 0 or not os.path.exists(sp):
            raise vlib.Infra("%s recorder failed:\n%s" % (pkg, out[-3000:]))
        return json.load(open(sp))

    if ctx.only is None:
        with concurrent.futures.ThreadPoolExecutor(max_workers=3) as ex:
            summaries = list(ex.map(drive, DRIVERS))
    else:
        # row numbers of a replay are counted over the concatenation keys ++ insert ++ statekeys
        summaries, base = [], 0
        for d in DRIVERS:
            saved = ctx.only
            ctx.only = saved - base if saved - base > 0 else 1 << 30
            try:
                summaries.append(drive(d))
            finally:
                ctx.only = saved
            base += summaries[-1]["rows"]
    _rules.stage(ctx, "go-drivers")
    outd = os.path.join(ctx.work, "out")
    lines = []
    for d in DRIVERS:
        lines += _rules.read_rows(os.path.join(outd, d[3]))[1:]
    if not lines:
        raise vlib.Infra("drivers wrote no rows")
    allp = os.path.join(ctx.work, "rows_c40.ndjson")
    with open(allp, "w") as fh:
        fh.write('{"ev":"reset"}\n' + "\n".join(lines) + "\n")
    rows = [json.loads(l) for l in lines]
    if mc:
        cfg = open(os.path.join(vlib.SPEC, "Keys_MC.cfg")).read()
        klens, sufs, lens = cfg_set(cfg, "KeyLens"), cfg_set(cfg, "Suffixes"), cfg_set(cfg, "Lens")
        shapes = {(kl, -1) for kl in klens if kl < 2} | {(kl, s) for kl in klens if kl >= 2 for s in sufs}
        if mc["distinct"] - 1 != len(shapes) * len(lens) * len(lens):
            raise vlib.Infra("Keys_MC state count %d does not match its constants" % mc["distinct"])
        for kind in ("verify", "insert"):
            seen = {((r["klen"], r["hi"] * 256 + r["lo"] if r["klen"] >= 2 else -1), r["n"]) for r in rows if r["kind"] == kind}
            missing = [(s, n) for s in shapes for n in lens if (s, n) not in seen]
            if missing:
                raise vlib.Infra("%s rows do not cover the design domain, e.g. %s" % (kind, missing[:3]))
        enc = {(r["klen"], r["n"]) for r in rows if r["kind"] == "encode"}
        if [1 for kl in klens for m in lens if (kl, m) not in enc]:
            raise vlib.Infra("encode rows do not cover the design domain")
    rejected, notes, n = _rules.rows_tv(ctx, "Keys_Trace", "Keys_Trace.cfg", allp, "keys", parts=ctx.pick(3, 8))
    _rules.stage(ctx, "tv(tlc)")
    ctx.add("evaluations", n)
    kinds = {}
    for r in rows:
        kinds[r["kind"]] = kinds.get(r["kind"], 0) + 1
    ctx.cov["rows_by_kind"] = kinds
    # non-trivial: a value-vs-key decision within one chunk of the key's limit, or a short key, distinct by content
    nontrivial = set()
    for r in rows:
        if r["kind"] in ("verify", "insert") and (r["klen"] < 2 or (r["nok"] and abs(r["nc"] - (r["hi"] * 256 + r["lo"])) <= 1)
                                                  or not r["nok"]):
            nontrivial.add((r["kind"], r["klen"], r["hi"], r["lo"], r["n"]))
        elif r["kind"] in ("statekeys", "add", "valid", "maxchunks") and r["klen"] < 3:
            nontrivial.add((r["kind"], r["klen"], r.get("hi", 0), r.get("lo", 0), r.get("who", "")))
    ctx.add("distinct_nontrivial", len(nontrivial))
    ctx.add("inserts_accepted", sum(1 for r in rows if r["kind"] == "insert" and r["ires"] == "ok"))
    ctx.add("inserts_refused", sum(1 for r in rows if r["kind"] == "insert" and r["ires"] != "ok"))
    ctx.add("short_key_rows", sum(1 for r in rows if r.get("klen", 9) < 2))
    ctx.add("rows_with_chunk_formula_drift", len(notes))
    ctx.add("rows_rejected_by_spec", len(rejected))
    ctx.add("traces_validated_against_impl", n - len(rejected))
    ctx.cov["exhaustive"] = mc is not None
    if ctx.only is None and not (ctx.cov["inserts_accepted"] and ctx.cov["inserts_refused"] and ctx.cov["short_key_rows"]):
        raise vlib.Infra("vacuity: accepted / refused inserts or short keys missing from the rows")
    if notes:
        vlib.log("note: %d rows use an admissible chunk count that differs from the transcribed n/64+1, e.g. %s"
                 % (len(notes), json.dumps(notes[0][0])[:300]))
    for kind in ("verify", "insert", "encode", "statekeys"):
        s = next((r for r in rows if r["kind"] == kind and r.get("klen", 0) >= 2 and r.get("n", 1) > 64), None) \
            or next((r for r in rows if r["kind"] == kind), None)
        if s:
            ctx.sample({"kind": kind + " row", "row": s})
    fails = _rules.failures_from(ctx, rejected, sig, "tv")
    vlib.report_failures(ctx, fails, lambda f: "%s: %s" % (f["invariant"], json.dumps(f["event"])[:400]))
    ctx.cov["rule"] = ("domain of Keys_MC (key lengths 0..4 x suffixes {0,1,2,255,256,65534,65535} x value lengths "
                       "{0,1,63,64,65,127,128,64*65534-1..+1,64*65535-1..+1}; coverage by verify / insert / encode rows is "
                       "checked against the cfg) through keys.MaxChunks/DecodeChunks/NumChunks/Valid/Verify/VerifyValue/"
                       "Encode/EncodeChunks, state.Keys.Add, Transaction.StateKeys and TStateView.Insert (scope = "
                       "CompletePermissions or a one-key state.Keys, key absent/present in storage), plus seeded random "
                       "keys (<= 40 bytes) and sizes biased to 64*suffix. non-trivial = value within one chunk of the key's "
                       "limit, beyond the 16-bit limit, or a key shorter than 3 bytes; distinct by (kind, key tail, size)")
    ctx.assumptions += ["the chunk count of a value is whatever keys.NumChunks reports, required only to be admissible "
                        "(holds the value, at most one chunk generous, defined whenever it fits 16 bits)",
                        "Insert rows use scopes that grant every permission (permission denial is C05)"]
