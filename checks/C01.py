"""C01 - parallel block execution is deterministic and equals sequential execution.
design: BlockPar_MC - transactions run as interleaved Start/Step/Commit steps under the executor's contract
        (a tx starts only when every earlier conflicting tx is done); invariant: when all are done the post-state,
        results and consumption equal the sequential fold of Block.tla.                       [TLC exhaustive]
binding: real chain.Processor.Execute on seeded random blocks (overlapping key sets, failing and undeclared
        accesses, deletes/re-creates) repeated under several (cores, fetch concurrency, auth workers, forced
        completion order) configurations; every call is one trace line validated by TLC against RunBlock."""
import importlib.util
import os
import vlib

LEVEL = "model_checking"
_s = importlib.util.spec_from_file_location("_chain", os.path.join(os.path.dirname(__file__), "_chain.py"))
ch = importlib.util.module_from_spec(_s)
_s.loader.exec_module(ch)


def run(ctx):
    if ctx.only is None:
        vlib.tlc_mc(ctx, "BlockPar_MC", ctx.pick("BlockPar_MC_quick.cfg", "BlockPar_MC.cfg"), timeout=1500)
    files = ch.record(ctx, "^TestVerifChainExec$", "c01", ctx.pick(100, 1200), maxtxs=ctx.pick(6, 10))
    feats = ch.stats(ctx, files)
    if ctx.only is None and (feats["multi_tx"] == 0 or feats["max_parallel_ge2"] == 0):
        raise vlib.Infra("vacuous: no multi-transaction block or no run with two actions in flight at once")
    fails = ch.validate(ctx, files, "c01")
    vlib.report_failures(ctx, fails, ch.describe)
    ctx.cov["rule"] = ("seeded random chains of 1-3 blocks with 0..N transactions of 1-3 scripted actions over 4 keys and 3 "
                       "sponsors (random permission masks incl. insufficient ones, undeclared accesses, failures, size-suffix "
                       "variants); each block is executed 4 times: cores/fetch/auth-workers (1,1,serial), (2-4,1-4,1-3) gated, "
                       "(8|16,4|16,4) gated, (4,2,2); gated runs delay every action at entry and release waiting actions in "
                       "seeded random order. distinct_nontrivial = distinct non-empty block shapes (sponsor, declarations, op "
                       "sequence); evaluations = Processor.Execute calls validated")
    ctx.assumptions += ["the scripted test Action/Auth stand in for VM-defined ones (the property quantifies over their behaviour)",
                        "unit prices are taken from the returned ExecutionResults (the fee-market rule itself is C13)"]
