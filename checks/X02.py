"""X02 (extra, not in the manifest) - internal/builder.Time: when the engine is told to build.
design : BuildTimer_MC (Queue / Force / Done / timer handler as coded over explicit time; monitor owed/owedLo/prev;
         invariants NotEarly, SingleFlight, FlagBacked, NoLostWakeup, action properties CoalescedIsNoOp, ForceNotifies,
         QuietAfterDone; variants "errkeeps" and "nogap" must violate FlagBacked / NotEarly; the fine-grained model of
         the send-then-release window must violate NoLostWakeup - the lead reproduced below)       [TLC exhaustive]
binding: (tv) seeded scenarios on a real builder.Time with a scripted chain lookup, a driver-owned engine inbox and a
         counting mempool; wall-clock reads are logged and used only as sound brackets (BuildTimer_Trace.tla)"""
import json
import os
import vlib

LEVEL = "model_checking"
PKG = "internal/builder"
FILES = ["verif_buildtimer_test.go"]
KF = "queue-swallowed-between-send-and-flag-release"


def sig(fail):
    d = fail.get("diag") or ""
    return "%s:%s" % (fail.get("event", {}).get("ev"), d.strip("{} ").replace('"', "") or fail.get("invariant"))


def describe(f):
    if f.get("kf"):
        return "known: " + f["signature"]
    hist = [(l.get("ev"), l.get("dp"), l.get("gap"), l.get("cb"), l.get("len1"), l.get("t1")) for l in f.get("scenario", [])][-8:]
    return "history(tail: ev,dp,gap,cb,len1,t1)=%s failing line %s diag=%s" % (hist, json.dumps(f.get("event"))[:300], f.get("diag"))


def record(ctx, n, reentrant):
    rc, out = vlib.go_driver(ctx, PKG, "^TestVerifBuildTimerRecord$", files=FILES, timeout=ctx.pick(300, 900),
                             env={"VERIF_SCENARIOS": n, "VERIF_REENTRANT": 1 if reentrant else 0, "VERIF_PARALLEL": 12})
    p = vlib.panic_in_repo(out)
    if p:
        raise vlib.Violation("panic in the code under test: " + p, signature="panic")
    if rc != 0:
        raise vlib.Infra("builder recorder failed:\n" + out[-3000:])
    sp = os.path.join(ctx.work, "out", "bt_stats.json")
    st = json.load(open(sp))
    os.remove(sp)
    return st, vlib.scenario_files(ctx, "bt-")


def run(ctx):
    if ctx.only is None:
        vlib.tlc_mc(ctx, "BuildTimer", ctx.pick("BuildTimer_MC_quick.cfg", "BuildTimer_MC.cfg"), coverage=True)
        sens = (("fine", "NoLostWakeup"),) if ctx.quick else (("errkeeps", "FlagBacked"), ("nogap", "NotEarly"), ("fine", "NoLostWakeup"))
        for cfg, inv in sens:
            r = vlib.tlc_mc(ctx, "BuildTimer", "BuildTimer_MC_%s.cfg" % cfg, label=cfg, expect_violation=True)
            if not r["violated"] or inv not in r["violated"]:
                raise vlib.Infra("sensitivity: BuildTimer_MC_%s no longer violates %s" % (cfg, inv))
        ctx.cov["design_step_lead_send_then_release_window"] = True
    st, files = record(ctx, ctx.pick(48, 400), False)
    if ctx.only is None:
        for k in ("armed", "coalesced", "immediate", "lookup_failed", "full_inbox", "timer_delivered", "done_while_pending", "force"):
            ctx.add("tv_" + k, st.get(k, 0))
            if st.get(k, 0) == 0:
                raise vlib.Infra("vacuity: scenarios never exercised " + k)
        ctx.add("tv_scenarios_cut_by_margin_rule", st.get("cut", 0))
        if st.get("cut", 0) * 4 > st.get("scenarios", 1):
            raise vlib.Infra("machine too loaded: %d of %d scenarios cut by the 100 ms margin rule" % (st.get("cut", 0), st["scenarios"]))
    distinct = set()
    for f in files:
        lines = vlib.read_ndjson(f)
        if any(l["ev"] == "await" and l["got"] for l in lines):      # non-trivial = a timer-delivered notification
            distinct.add(hash(json.dumps([(l["ev"], l.get("dp"), l.get("gap"), l.get("err"), l.get("cb"), l.get("len1")) for l in lines])))
    ctx.add("evaluations", len(files))
    ctx.add("distinct_nontrivial", len(distinct))
    ctx.sample({"kind": "builder-trace", "first_lines": vlib.read_ndjson(files[len(files) // 2])[:5]})
    fails = vlib.validate_scenarios(ctx, "BuildTimer_Trace", "BuildTimer_Trace.cfg", files, label="bt", signature_fn=sig)
    for f in files:
        os.remove(f)
    if ctx.only is None:
        # the lead of the design step on the real code: a Queue issued from inside Mempool.Len (between the handler's
        # send and its release of the flag) - recorded, accepted by the trace spec under KF_X02_swallowed
        st2, files2 = record(ctx, 4, True)
        before = ctx.cov.get("traces_validated_against_impl", 0)
        fails += vlib.validate_scenarios(ctx, "BuildTimer_Trace", "BuildTimer_Trace.cfg", files2, label="bt-reent", signature_fn=sig)
        ctx.cov["traces_validated_against_impl"] = before
        for f in files2:
            os.remove(f)
    vlib.report_failures(ctx, fails, describe)
    ctx.cov["rule"] = ("seeded scenarios: Start (armed / due / failing lookup), then 3-5 phases out of {arm 300-500 ms ahead "
                       "+ up to 3 calls while pending (Queue with other parameters / failing lookup, Force, engine read), "
                       "due now, failing lookup then working call, Force then Queue (minimum gap), full inbox}, then Done "
                       "(sometimes while pending); inbox capacity 1-2. non-trivial = a timer-delivered notification; "
                       "distinct = distinct (call, parameters, lookups made, inbox length) sequences")
    ctx.assumptions += ["wall clock and monotonic clock agree to the millisecond during a scenario (no clock step)",
                        "calls made while a notification is pending finish >= 100 ms before it may fire (otherwise the "
                        "scenario is cut, never judged); 200 ms are left after a delivery before the next call",
                        "a notification owed to the engine is declared missing only after a 30 s watchdog",
                        "no upper bound on delivery time is checked (timers may be late)"]
