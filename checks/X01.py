"""X01 (extra, not in the manifest) - internal/cache.FIFO and internal/list.List behave as specified.
design : FifoCache_MC (boundedQueue + map as Put/Get write them, stepped with a queue-free monitor: insertion ranks and
         latest values; invariants Bounded, LatestValue, InsertionOrder, action property StepOK; the "requeue" and "lru"
         variants must violate InsertionOrder) and DList_MC (pointer fields of two lists as PushFront/PushBack/Remove
         write them against the abstract sequences; IsSequence, Exclusive, Detached, StepOK; the variant without the
         e.list == l test must violate IsSequence)                                               [TLC exhaustive]
binding: (tv) every history of N calls plus seeded long histories on the real FIFO[int,int] / two real lists sharing
         a pool of elements; after every call the contents reported by Get (resp. the First/Next and Last/Prev walks and
         Size) are logged; the trace specs step the monitor / abstraction and name the violated clause in diag"""
import json
import os
import vlib

LEVEL = "model_checking"


def sig(fail):
    d = fail.get("diag") or ""
    return "%s:%s" % (fail.get("event", {}).get("ev"), d.strip("{} ").replace('"', "") or fail.get("invariant"))


def describe(f):
    hist = [(l.get("ev"), l.get("k", l.get("e")), l.get("L", l.get("v"))) for l in f.get("scenario", [])][-10:]
    return "reset=%s history(tail)=%s failing line %s diag=%s" % (json.dumps(f.get("reset")), hist,
                                                                 json.dumps(f.get("event"))[:300], f.get("diag"))


def stats_of(ctx, name):
    p = os.path.join(ctx.work, "out", name)
    s = json.load(open(p))
    os.remove(p)
    return s


def record(ctx, pkg, test, files, env):
    rc, out = vlib.go_driver(ctx, pkg, test, files=files, timeout=ctx.pick(300, 900), env=env)
    p = vlib.panic_in_repo(out)
    if p:
        raise vlib.Violation("panic in the code under test: " + p, signature="panic")
    if rc != 0:
        raise vlib.Infra("%s recorder failed:\n%s" % (pkg, out[-3000:]))


def fifo(ctx):
    if ctx.only is None:
        vlib.tlc_mc(ctx, "FifoCache", ctx.pick("FifoCache_MC_quick.cfg", "FifoCache_MC.cfg"), coverage=True, label="fifo")
        for v in ("requeue", "lru"):
            r = vlib.tlc_mc(ctx, "FifoCache", "FifoCache_MC_%s.cfg" % v, label="fifo-" + v, expect_violation=True)
            if not r["violated"] or "InsertionOrder" not in r["violated"]:
                raise vlib.Infra("sensitivity: the %s variant of the FIFO no longer violates InsertionOrder" % v)
    record(ctx, "internal/cache", "^TestVerifFIFORecord$", ["verif_fifo_test.go"],
           {"VERIF_SYSDEPTH": ctx.pick(4, 5), "VERIF_SCENARIOS": ctx.pick(200, 2000), "VERIF_DEPTH": ctx.pick(60, 100)})
    st = stats_of(ctx, "fifo_stats.json")
    files = vlib.scenario_files(ctx, "sys-") + vlib.scenario_files(ctx, "rnd-")
    if ctx.only is None:
        for k in ("evictions", "overwrites", "refused"):
            ctx.add("fifo_" + k, st.get(k, 0))
            if st.get(k, 0) == 0:
                raise vlib.Infra("vacuity: FIFO histories never exercised " + k)
        if len(files) != st["scenarios"]:
            raise vlib.Infra("FIFO recorder wrote %d of %d scenarios" % (len(files), st["scenarios"]))
    distinct = set()
    for f in files:
        lines = vlib.read_ndjson(f)
        full = any(len(a["keys"]) == len(b["keys"]) and b["ev"] == "put" and not b["ok"] for a, b in zip(lines[1:], lines[2:]))
        if full:        # non-trivial = at least one eviction
            distinct.add(hash(json.dumps([lines[0]["limit"]] + [(l["ev"], l["k"]) for l in lines[1:]])))
    ctx.add("evaluations", len(files))
    ctx.add("distinct_nontrivial", len(distinct))
    ctx.sample({"kind": "fifo-trace", "first_lines": vlib.read_ndjson(files[len(files) // 2])[:4]})
    fails = vlib.validate_scenarios(ctx, "FifoCache_Trace", "FifoCache_Trace.cfg", files, label="fifo", signature_fn=sig)
    for f in files:
        os.remove(f)
    return fails


def dlist(ctx):
    if ctx.only is None:
        vlib.tlc_mc(ctx, "DList", ctx.pick("DList_MC_quick.cfg", "DList_MC.cfg"), coverage=True, label="dlist")
        r = vlib.tlc_mc(ctx, "DList", "DList_MC_nocheck.cfg", label="dlist-nocheck", expect_violation=True)
        if not r["violated"] or "IsSequence" not in r["violated"]:
            raise vlib.Infra("sensitivity: Remove without the membership test no longer violates IsSequence")
    record(ctx, "internal/list", "^TestVerifListRecord$", ["verif_list_test.go"],
           {"VERIF_SYSDEPTH": ctx.pick(4, 5), "VERIF_SCENARIOS": ctx.pick(150, 1500), "VERIF_DEPTH": ctx.pick(50, 80)})
    st = stats_of(ctx, "list_stats.json")
    files = vlib.scenario_files(ctx, "sys-") + vlib.scenario_files(ctx, "rnd-")
    if ctx.only is None:
        for k in ("removed", "foreign", "stale"):
            ctx.add("list_remove_" + k, st.get(k, 0))
            if st.get(k, 0) == 0:
                raise vlib.Infra("vacuity: list histories never exercised a Remove of kind " + k)
        if len(files) != st["scenarios"]:
            raise vlib.Infra("list recorder wrote %d of %d scenarios" % (len(files), st["scenarios"]))
    distinct = set()
    for f in files:
        lines = vlib.read_ndjson(f)
        if any(l["ev"] == "remove" for l in lines):      # non-trivial = contains a Remove
            distinct.add(hash(json.dumps([(l["ev"], l.get("L"), l.get("e"), l.get("front")) for l in lines])))
    ctx.add("evaluations", len(files))
    ctx.add("distinct_nontrivial", len(distinct))
    ctx.sample({"kind": "list-trace", "first_lines": vlib.read_ndjson(files[len(files) // 2])[:3]})
    fails = vlib.validate_scenarios(ctx, "DList_Trace", "DList_Trace.cfg", files, label="dlist", signature_fn=sig)
    for f in files:
        os.remove(f)
    return fails


def run(ctx):
    part = os.environ.get("VERIF_PART", "")
    fails = []
    if part in ("", "fifo"):
        fails += fifo(ctx)
    if part in ("", "list") and ctx.only is None:
        fails += dlist(ctx)
    vlib.report_failures(ctx, fails, describe)
    ctx.cov["rule"] = ("fifo: all (2(L+1))^N call sequences over {Put k fresh-value, Get k}, k in 1..L+1, limits L=1..3 "
                       "(N=4 quick, 5 thorough) + seeded histories (limits 1..6, universe L+1..L+4); non-trivial = at "
                       "least one eviction; distinct = distinct (limit, call, key) sequences.  list: all valid "
                       "N-call sequences over {PushFront/PushBack on list 1/2, Remove(list, element 1..3)} + seeded "
                       "histories; non-trivial = contains a Remove; distinct = distinct call sequences")
    ctx.assumptions += ["sequential use (the FIFO's RWMutex and the callers' locks are not exercised)",
                        "the cache contents are observed through Get for every key of the scenario's universe",
                        "list elements are only handed to Remove of lists of the same element type; element handles "
                        "are kept by the caller (as the mempool does)"]
