"""C31 - the indexer serves exactly the recent accepted blocks and transaction results.
design : Indexer_MC (implementation-shaped model of api/indexer/indexer.go refines IndexerWindow; restart in every state)
         + sensitivity: the model as originally coded (evict / delete only height h-w) must violate both
           ServesExactlyWindow (stale blocks after a height gap) and RestartStable (second restart changes answers)
binding: (tv) seeded histories of Notify (consecutive / gaps / latest again) and restarts on the real Indexer with
         pebble under .work; after every call every query over the universe is recorded and validated against
         IndexerWindow"""
import json
import os
import vlib

LEVEL = "model_checking"
PKG = "api/indexer"
FILES = ["verif_indexer_test.go"]


def classify(lines):
    c = {"gaps": 0, "repeats": 0, "restarts": 0, "double_restarts": 0, "evicting_notifies": 0, "restarts_after_gap": 0,
         "tx_answers": 0, "crashes": 0, "crashes_after_gap": 0}
    w = lines[0]["w"]
    last, prev_ev, gap_seen = -1, None, False
    for l in lines[1:]:
        if l["ev"] == "notify":
            h = l["h"]
            if last >= 0 and h > last + 1:
                c["gaps"] += 1
                gap_seen = True
            if h == last:
                c["repeats"] += 1
            if h > w:
                c["evicting_notifies"] += 1
            last = h
        elif l["ev"] == "restart":
            c["restarts"] += 1
            if prev_ev == "restart":
                c["double_restarts"] += 1
            if gap_seen:
                c["restarts_after_gap"] += 1
        elif l["ev"] == "crash":
            c["crashes"] += 1
            if gap_seen:
                c["crashes_after_gap"] += 1
        c["tx_answers"] += sum(len(x) for x in l.get("tx", []))
        prev_ev = l["ev"]
    return c


def expected(lines, upto):
    """the window after line `upto` (0-based index into lines), recomputed only to *name* a rejected line"""
    w = lines[0]["w"]
    delivered, last = set(), -1
    for l in lines[1: upto + 1]:
        if l["ev"] == "notify":
            delivered.add(l["h"])
            last = l["h"]
    return w, delivered, last


def sig(f):
    ev = f.get("event", {})
    if f.get("invariant"):
        return "%s:%s" % (ev.get("ev"), f["invariant"])
    kind = "answers-differ-from-window"
    try:
        lines = vlib.read_ndjson(f["scenario_file"])
        k = f["line_in_scenario"] - 1
        w, delivered, last = expected(lines, k)
        stale = missing = other = 0
        for name in ("byh", "byid"):
            for i, a in enumerate(ev[name], start=1):
                want = i if (i in delivered and last - w < i <= last) else -1
                if a == want:
                    continue
                if want == -1 and a == i and i in delivered and i <= last - w:
                    stale += 1
                elif want == i and a == -1:
                    missing += 1
                else:
                    other += 1
        for i, arr in enumerate(ev["tx"], start=1):
            want = i if (i in delivered and last - w < i <= last) else -1
            for a in arr:
                if a != want:
                    if want == -1 and a == i:
                        stale += 1
                    elif want == i and a == -1:
                        missing += 1
                    else:
                        other += 1
        if ev.get("latest") != last:
            other += 1
        if other:
            kind = "wrong-answer"
        elif missing:
            kind = "block-in-window-not-served"
        elif stale:
            kind = "block-older-than-window-still-served"
    except Exception:
        pass
    return "%s:%s" % (ev.get("ev"), kind)


def describe(f):
    ev = dict(f.get("event", {}))
    ev.pop("tx", None)
    return "line %d of %s: %s" % (f.get("line_in_scenario", -1), os.path.basename(f.get("scenario_file", "")),
                                  json.dumps(ev)[:600])


def binding_tv(ctx, scenarios, depth):
    rc, out = vlib.go_driver(ctx, PKG, "^TestVerifIndexerRecord$", files=FILES,
                             env={"VERIF_SCENARIOS": scenarios, "VERIF_DEPTH": depth}, timeout=1500)
    if rc != 0:
        raise vlib.Infra("indexer recorder failed:\n" + out[-3000:])
    files = vlib.scenario_files(ctx, "idx")
    if len(files) < (1 if ctx.only is not None else scenarios):
        raise vlib.Infra("recorder wrote %d of %d scenarios" % (len(files), scenarios))
    distinct = set()
    for f in files:
        lines = vlib.read_ndjson(f)
        c = classify(lines)
        for k, v in c.items():
            ctx.add(k + "_observed", v)
        if c["restarts"] > 0 and c["evicting_notifies"] > 0:
            distinct.add(hash((lines[0]["w"], lines[0]["ntx"], tuple((l["ev"], l.get("h", 0)) for l in lines[1:]))))
    ctx.add("evaluations", len(files))
    ctx.add("distinct_nontrivial", len(distinct))
    s0 = vlib.read_ndjson(files[0])
    ctx.sample({"kind": "recorded-history", "reset": s0[0], "calls": [(l["ev"], l.get("h", 0)) for l in s0[1:16]],
                "one_line": {k: v for k, v in s0[min(8, len(s0) - 1)].items() if k != "tx"}})
    if ctx.only is None:
        for k in ("gaps_observed", "repeats_observed", "restarts_observed", "double_restarts_observed",
                  "evicting_notifies_observed", "restarts_after_gap_observed", "tx_answers_observed",
                  "crashes_observed", "crashes_after_gap_observed"):
            if ctx.cov.get(k, 0) == 0:
                raise vlib.Infra("vacuity: no %s in %d scenarios" % (k, len(files)))
    if os.environ.get("VERIF_CORRUPT"):   # self-test of the binding: falsify one recorded answer
        lines = vlib.read_ndjson(files[0])
        k = len(lines) // 2
        lines[k]["byid"][0] = 1 if lines[k]["byid"][0] == -1 else -1
        with open(files[0], "w") as fh:
            fh.write("".join(json.dumps(l) + "\n" for l in lines))
    fails = vlib.validate_scenarios(ctx, "Indexer_Trace", "Indexer_Trace.cfg", files, label="tv", signature_fn=sig)
    for f in files:
        os.remove(f)
    return fails


def run(ctx):
    if ctx.only is None:
        vlib.tlc_mc(ctx, "Indexer_MC", ctx.pick("Indexer_MC_quick.cfg", "Indexer_MC.cfg"), coverage=True, workers=4)
        sens = [("Indexer_MC_original.cfg", "stale_after_gap")]
        if not ctx.quick:
            sens.append(("Indexer_MC_original_restart.cfg", "second_restart"))
        if not ctx.quick:
            sens.append(("Indexer_MC_lazyflush.cfg", "lazy_flush_loses_acknowledged_blocks"))
        for cfg, inv in sens:
            r = vlib.tlc_mc(ctx, "Indexer_MC", cfg, label="orig-" + inv, expect_violation=True, workers=2)
            ctx.cov["design_step_detects_original_" + inv] = bool(r["violated"])
            if not r["violated"]:
                raise vlib.Infra("sensitivity: the model of the indexer as originally coded no longer violates (%s)" % cfg)
    fails = binding_tv(ctx, ctx.pick(30, 800), ctx.pick(30, 40))
    vlib.report_failures(ctx, fails, describe)
    ctx.cov["rule"] = ("tv: seeded histories of 30/40 calls on the real Indexer (pebble under .work): window 1-8, 0-2 txs per "
                       "block, Notify of the next height / a height 2..w+3 ahead (two thirds of the histories) / the latest "
                       "block again, restarts (Close + NewIndexer, two in a row at the end of every history), up to 4 crash points "
                       "per history right after an acknowledged Notify (an indexer opened on a copy of the live directory "
                       "taken without Close must answer like the live one); after every "
                       "call GetBlockByHeight, GetBlock, GetTransaction for every generated height/id/tx, GetLatestBlock "
                       "and unknown ids are recorded; non-trivial = the history restarts and notifies beyond the window; "
                       "distinct = distinct (window, txs per block, call sequence)")
    ctx.assumptions += ["heights are delivered in non-decreasing order (an older block delivered again is out of scope)",
                        "one accepted block per height; transaction ids are unique across blocks",
                        "the window size is the same before and after a restart",
                        "height 0 is not delivered by the driver (the model covers it)",
                        "pebble and the filesystem do not fail; crash points are between public calls (kill = copy of the live directory, "
                        "all pebble commits are synchronous); a kill in the middle of Notify (cache updated, batch not yet written) "
                        "is not exercised: that Notify was not acknowledged"]
