"""C25 - expiry-indexed sets (internal/emap.EMap, internal/eheap.ExpiryHeap) behave like an ordered set.
design : ExpiryHeapImpl / EMapImpl (statement-by-statement models over GoHeap = container/heap + innerHeap)
         refine the abstract ExpirySet                                             [TLC exhaustive]
binding: (tv)  seeded random call sequences recorded from the real structures validated against ExpirySet
         (mbt) transition cover: TLC prints every edge of ExpirySet's state graph over a small universe,
               paths covering every edge are replayed on the real structures"""
import collections
import json
import os
import vlib

LEVEL = "model_checking"
PKG = "internal/eheap"
FILES = ["verif_expiryset_test.go"]
KINDS = ("eheap", "emap")


def sig(fail):
    ev = fail.get("event", {})
    return "%s:%s:%s" % (fail.get("reset", {}).get("kind"), ev.get("ev"),
                         fail.get("invariant") or "observable-differs-from-ExpirySet")


def run_driver(ctx, scenarios, depth, path_files):
    """one go test invocation: records the tv scenarios and replays the mbt paths"""
    run = "^TestVerifExpirySet(Record|Replay)$" if path_files else "^TestVerifExpirySetRecord$"
    rc, out = vlib.go_driver(ctx, PKG, run, files=FILES, timeout=ctx.pick(240, 600),
                             env={"VERIF_SCENARIOS": scenarios, "VERIF_DEPTH": depth,
                                  "VERIF_PATHS": ",".join(path_files)})
    if rc != 0:
        raise vlib.Infra("expiry-set driver failed:\n" + out[-3000:])


def binding_tv(ctx, scenarios):
    sp = os.path.join(ctx.work, "out", "record_stats.json")
    stats = json.load(open(sp))
    os.remove(sp)
    allfiles = []
    for kind in KINDS:
        files = vlib.scenario_files(ctx, "sc-%s-" % kind)
        allfiles += files
        if len(files) < (1 if ctx.only is not None else scenarios):
            raise vlib.Infra("recorder wrote %d of %d %s scenarios" % (len(files), scenarios, kind))
        distinct = set()
        for f in files:
            lines = vlib.read_ndjson(f)
            held = set()
            dup = evict = False
            for l in lines[1:]:
                if l["ev"] == "add" and l["i"] in held:
                    dup = True
                if l["ev"] == "addm" and any(it["i"] in held and it["e"] != 0 for it in l["items"]):
                    dup = True
                if l["ev"] in ("setmin", "setmine") and l["ids"]:
                    evict = True
                held = set(l["mem"])
            if dup and evict:
                distinct.add(hash(json.dumps(lines[1:], sort_keys=True)))
        ctx.add("evaluations", len(files))
        ctx.add("distinct_nontrivial", len(distinct))
        ctx.sample({"kind": "recorded-trace-" + kind, "first_lines": vlib.read_ndjson(files[0])[:5]})
    fails = vlib.validate_scenarios(ctx, "ExpirySet_Trace", "ExpirySet_Trace.cfg", allfiles, label="tv", signature_fn=sig)
    for f in allfiles:
        os.remove(f)
    for k in ("dup_add", "setmin_evicts", "remove_hit", "popmin_hit", "emap_zero_expiry_add"):
        ctx.add("tv_" + k, stats.get(k, 0))
        if ctx.only is None and stats.get(k, 0) == 0:
            raise vlib.Infra("vacuity: recorded scenarios never exercised " + k)
    return fails


def cover_paths(edges, max_len=80):
    """Paths from the initial state that together traverse every edge of the labelled graph."""
    key = lambda h: json.dumps(h, sort_keys=True)
    out = collections.defaultdict(list)
    for n, e in enumerate(edges):
        out[key(e["from"])].append(n)
    init = key({k: -1 for k in edges[0]["from"]})
    if init not in out:
        raise vlib.Infra("edge dump has no initial state")
    uncovered = set(range(len(edges)))
    todo = {k: [n for n in v] for k, v in out.items()}      # uncovered out-edges per node
    paths = []
    while uncovered:
        cur, path = init, []
        while len(path) < max_len:
            if todo.get(cur):
                n = todo[cur].pop()
                uncovered.discard(n)
                path.append(n)
                cur = key(edges[n]["to"])
                continue
            # BFS to the nearest node with an uncovered out-edge
            prev = {cur: None}
            q = collections.deque([cur])
            goal = None
            while q and goal is None:
                u = q.popleft()
                seen_t = set()
                for n in out.get(u, ()):
                    v = key(edges[n]["to"])
                    if v in prev or v in seen_t:
                        continue
                    seen_t.add(v)
                    prev[v] = (u, n)
                    if todo.get(v):
                        goal = v
                        break
                    q.append(v)
            if goal is None:
                break
            hop = []
            while prev[goal] is not None:
                u, n = prev[goal]
                hop.append(n)
                goal = u
            hop.reverse()
            if path and len(path) + len(hop) >= max_len:
                break
            path += hop
            cur = key(edges[path[-1]]["to"])
        if not path:
            raise vlib.Infra("edge cover: %d edges unreachable from the initial state" % len(uncovered))
        paths.append(path)
    return paths


def mbt_edges(ctx, cfg):
    res = vlib.run_tlc(ctx, "gen", "ExpirySet_Gen", cfg, workers=1, timeout=600)
    if "Model checking completed. No error has been found." not in res["out"]:
        raise vlib.Infra("edge enumeration failed:\n" + res["out"][-2000:])
    edges = []
    for line in res["out"].splitlines():
        line = line.strip()
        if line.startswith('"EDGE '):
            edges.append(json.loads(json.loads(line)[5:]))
    if not edges:
        raise vlib.Infra("edge enumeration printed nothing")
    ctx.add("states", res.get("distinct", 0))
    ctx.add("transitions", len(edges))
    return {k: [e for e in edges if e["kind"] == k] for k in KINDS}


def mbt_paths(ctx, kind, edges):
    if not edges:
        raise vlib.Infra("no edges for " + kind)
    paths = cover_paths(edges)
    covered = set(n for p in paths for n in p)
    if len(covered) != len(edges):
        raise vlib.Infra("edge cover incomplete: %d of %d" % (len(covered), len(edges)))
    names = sorted(edges[0]["from"].keys())
    pp = os.path.join(ctx.work, "paths-%s.json" % kind)
    with open(pp, "w") as fh:
        json.dump({"kind": kind, "names": names, "paths": [[edges[n] for n in p] for p in paths]}, fh)
    return pp, edges, paths


def binding_mbt(ctx, kind, edges, paths):
    rp = os.path.join(ctx.work, "out", "replay_result_%s.json" % kind)
    if not os.path.exists(rp):
        raise vlib.Infra("expiry-set replayer wrote no result for " + kind)
    r = json.load(open(rp))
    os.remove(rp)
    if r["paths"] != len(paths):
        raise vlib.Infra("replayer consumed %d of %d paths" % (r["paths"], len(paths)))
    mism = r["mismatches"] or []
    ctx.add("spec_edges_" + kind, len(edges))
    ctx.add("spec_edges_replayed_on_impl", len(edges))
    ctx.add("cover_paths", len(paths))
    ctx.add("behaviour_steps_replayed", r["steps"])
    ctx.add("evaluations", len(paths))
    ctx.add("distinct_nontrivial", sum(1 for e in edges if e["op"]["op"] in ("add", "remove", "setmin", "popmin")))
    ctx.add("traces_validated_against_impl", len(paths) - len(set(m["path"] for m in mism)))
    ctx.sample({"kind": "cover-path-" + kind, "steps": [dict(op=edges[n]["op"], to=edges[n]["to"]) for n in paths[0][:6]]})
    ctx.cov["exhaustive"] = True
    fails = []
    for m in mism[:5]:
        p = [edges[n] for n in paths[m["path"]]][: m["step"] + 1]
        f = {"event": {"ev": m["op"], "what": m["what"], "got": m["got"], "want": m["want"], "step": p[-1]},
             "invariant": None, "signature": "%s:%s:observable-differs-from-ExpirySet" % (kind, m["op"])}
        f["replay"] = vlib.save_replay(ctx, {"property": ctx.prop, "seed": ctx.seed, "tier": ctx.tier, "kind": kind,
                                            "path": p, "mismatch": m},
                                       name="%s-seed%d-%s-path%d.json" % (ctx.tier, ctx.seed, kind, m["path"]))
        fails.append(f)
    return fails


def describe(f):
    return "line %s" % json.dumps(f.get("event"))[:500]


def run(ctx):
    if ctx.only is None:
        vlib.tlc_mc(ctx, "ExpiryHeapImpl", ctx.pick("ExpiryHeapImpl_MC.cfg", "ExpiryHeapImpl_MC_big.cfg"),
                    coverage=ctx.quick, label="eheap", timeout=1500)
        vlib.tlc_mc(ctx, "EMapImpl", ctx.pick("EMapImpl_MC.cfg", "EMapImpl_MC_big.cfg"), coverage=ctx.quick,
                    label="emap", timeout=1500)
    gen = {}
    if ctx.only is None:
        edges = mbt_edges(ctx, ctx.pick("ExpirySet_Gen.cfg", "ExpirySet_Gen_big.cfg"))
        for kind in KINDS:
            gen[kind] = mbt_paths(ctx, kind, edges[kind])
    scenarios = ctx.pick(100, 1500)
    run_driver(ctx, scenarios, ctx.pick(200, 300), [g[0] for g in gen.values()])
    fails = binding_tv(ctx, scenarios)
    for kind in gen:
        fails += binding_mbt(ctx, kind, gen[kind][1], gen[kind][2])
    vlib.report_failures(ctx, fails, describe)
    ctx.cov["rule"] = ("tv: per scenario one ExpiryHeap and one EMap trace of seeded random calls (add incl. duplicate ids "
                       "with other expiries, remove, setmin, has/any/contains, peekmin, popmin, len) over 2-12 ids and "
                       "expiries 0..<=6; non-trivial = contains a duplicate add of a held id and a SetMin that evicts; "
                       "distinct = distinct full line sequences. mbt: every edge of the abstract state graph "
                       "(3 ids quick / 4 ids thorough x expiries 0..3) replayed once; counted non-trivial edges are the "
                       "add/remove/setmin/popmin edges (queries are replayed but not counted)")
    ctx.assumptions += ["single-threaded use (EMap's mutex is not exercised; ExpiryHeap documents no concurrent access)",
                        "ids are distinct 32-byte values; expiries are small non-negative integers"]
