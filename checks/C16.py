"""C16 - block verification accepts exactly the blocks whose signatures all verify.
design : AuthBatch_MC - verifySignatures' Add loop, the per-type batch worker goroutine (ED25519Batch: fixed-size batches cut while
         adding, remainder / re-submitted last batch at Done), the deferred Done goroutine and the worker pool (shared first error,
         tasks skipped after an error) as interleaved processes; every block of <= MaxTx transactions of a batched and an
         unbatched kind, every set of invalid signatures, 1..MaxCores workers, min batch size scaled to 2; invariants
         VerdictCorrect (job result = ExpectedVerdict), EverySigChecked, NoSendAfterClose, liveness Terminates.  [TLC exhaustive]
binding: (tv) real chain.Processor.Execute on blocks of really signed ed25519 / secp256r1 / BLS transactions (auth package
         factories) with invalid signatures (signed other message, other key's signature, flipped bit) at seeded positions
         aimed at batch boundaries, ed25519 counts {0,1,3,4,5,7,8,9,16,17}, serial workers and 1..16 parallel workers, with
         and without the ed25519 batch engine; TLC checks every call against AuthRules!ExpectedVerdict of the one-by-one
         verification results and against the serial one-by-one execution of the same block."""
import concurrent.futures
import json
import os
import re

import vlib

LEVEL = "model_checking"
PKG = "chain"
FILES = ["verif_harness_test.go", "verif_exec_test.go", "verif_authbatch_test.go", "verif_authsched_test.go"]


def sig(f):
    d = f.get("diag") or ""
    names = sorted(set(re.findall(r'"([^"]+)"', d)))
    return "+".join(names) if names else (f.get("invariant") or "unexplained-line")


def describe(f):
    ev = f.get("event") or {}
    if len(ev.get("kinds") or []) > 200:
        return "diag=%s cfg=%s ntxs=%d invalid_positions=%s delivered=%s out=%s" % (
            f.get("diag"), json.dumps(ev.get("cfg")), len(ev["kinds"]), [i + 1 for i, v in enumerate(ev["valid"]) if not v],
            ev.get("delivered"), json.dumps(ev.get("out"))[:200])
    bad = [i + 1 for i, v in enumerate(ev.get("valid") or []) if not v]
    return "diag=%s cfg=%s ntxs=%s kinds=%s invalid_positions=%s how=%s out=%s" % (
        f.get("diag"), json.dumps(ev.get("cfg")), len(ev.get("kinds") or []), "".join(k[0] for k in ev.get("kinds") or []),
        bad, [h for h in ev.get("how") or [] if h != "valid"], json.dumps(ev.get("out"))[:200])


def run(ctx):
    n = ctx.pick(160, 2500)
    # design runs and recorder are independent: side by side
    with concurrent.futures.ThreadPoolExecutor(max_workers=3) as ex:
        futs = []
        if ctx.only is None:
            futs.append(ex.submit(vlib.tlc_mc, ctx, "AuthBatch_MC", ctx.pick("AuthBatch_MC_quick.cfg", "AuthBatch_MC.cfg"),
                                  label="design", timeout=3000, workers=ctx.pick(4, 8)))
            if not ctx.quick:
                futs.append(ex.submit(vlib.tlc_mc, ctx, "AuthBatch_MC", "AuthBatch_MC_live.cfg", label="liveness", workers=2))
        def drive():
            return vlib.go_driver(ctx, PKG, "^TestVerifAuthBatch(|Large|Concurrent)$", files=FILES, timeout=2400,
                                  env={"VERIF_SCENARIOS": n, "VERIF_BIG": 0 if ctx.quick else 1, "VERIF_LARGE": ctx.pick(1, 8),
                                       "VERIF_LARGE_REF": ctx.pick(0, 1), "VERIF_CONCURRENT": ctx.pick(8, 80)})
        drv = ex.submit(drive)
        for f in futs:
            f.result()
        rc, out = drv.result()
    if rc != 0 and re.search(r"HANG: .*", out):
        # a watchdog verdict counts only if the (seeded) recording hangs again: a stall of a loaded machine does not repeat
        print("note: %s - recording again to confirm" % re.search(r"HANG: .*", out).group(0))
        rc, out = drive()
    if ctx.only is None and not ctx.quick:
        r = vlib.tlc_mc(ctx, "AuthBatch_MC", "AuthBatch_MC_nonblocking.cfg", label="nonblocking", expect_violation=True)
        ctx.cov["design_step_detects_nonblocking_add"] = bool(r["violated"])
        if not r["violated"]:
            raise vlib.Infra("sensitivity: the model whose Add does not block on a full item channel no longer violates an invariant")
        r = vlib.tlc_mc(ctx, "AuthBatch_MC", "AuthBatch_MC_noflush.cfg", label="noflush", expect_violation=True)
        ctx.cov["design_step_detects_dropped_remainder_batch"] = bool(r["violated"])
        if not r["violated"]:
            raise vlib.Infra("sensitivity: the model whose Done() drops the unfinished batch no longer violates an invariant")
    if rc != 0:
        m = re.search(r"HANG: .*", out)
        if m:
            rp = vlib.save_replay(ctx, {"property": ctx.prop, "seed": ctx.seed, "tier": ctx.tier, "hang": m.group(0)}, name="hang.json")
            raise vlib.Violation("signature verification hung: " + m.group(0), replay=rp, signature="hang")
        pn = vlib.panic_in_repo(out)
        if pn:
            rp = vlib.save_replay(ctx, {"property": ctx.prop, "seed": ctx.seed, "tier": ctx.tier, "panic": pn,
                                        "output_tail": out[-3000:]}, name="panic.json")
            raise vlib.Violation("block verification panicked: " + pn, replay=rp, signature="panic")
        raise vlib.Infra("auth batch recorder failed:\n" + out[-3000:])
    files = vlib.scenario_files(ctx, "")
    if not files or (ctx.only is None and len([f for f in files if os.path.basename(f).startswith("sc")]) < n):
        raise vlib.Infra("recorder wrote %d of %d scenarios" % (len(files), n))
    # ---- measured coverage (labels / evidence only)
    shapes = set()
    workers_seen, ed_counts = set(), set()
    feats = {"blocks_with_invalid": 0, "blocks_all_valid": 0, "mixed_auth_types": 0, "invalid_in_last_partial_batch": 0,
             "count_multiple_of_batch": 0, "decorated_runs": 0, "decorated_ok_runs_every_signature_ran": 0,
             "decorated_ok_runs_missing_signature": 0, "batched_runs": 0, "rejected_runs": 0,
             "large_gated_runs": 0, "large_gated_runs_prefix_on_batch_boundary": 0, "concurrent_block_pairs": 0,
             "concurrent_invalid_block_runs": 0}
    nlines = 0
    sample = None
    for f in files:
        for l in vlib.read_ndjson(f)[1:]:
            if l["ev"] != "block":
                continue
            nlines += 1
            kinds, valid, cfg = l["kinds"], l["valid"], l["cfg"]
            if cfg.get("gated"):
                feats["large_gated_runs"] += 1
                # 1 item held by the parked batch worker + a full backlog of 16384 = a multiple of the batch size, < count
                bs0 = max(len(kinds) // cfg["workers"], 4)
                if len(kinds) > 16385 and 16385 % bs0 == 0:
                    feats["large_gated_runs_prefix_on_batch_boundary"] += 1
            if cfg.get("concurrent"):
                feats["concurrent_block_pairs"] += 0 if all(valid) else 1
                feats["concurrent_invalid_block_runs"] += 0 if all(valid) else 1
            ned = kinds.count("ed25519")
            workers_seen.add(cfg["workers"])
            if cfg["batch"]:
                feats["batched_runs"] += 1
            if l["out"]["err"]:
                feats["rejected_runs"] += 1
            if l["rep"] == 0:
                ed_counts.add(ned)
                if all(valid):
                    feats["blocks_all_valid"] += 1
                else:
                    feats["blocks_with_invalid"] += 1
                    shapes.add(("".join(k[0] for k in kinds), tuple(valid)))
                if len(set(kinds)) > 1:
                    feats["mixed_auth_types"] += 1
            if cfg["batch"] and cfg["workers"] > 0 and ned:
                bs = max(ned // cfg["workers"], 4)
                if ned % bs == 0:
                    feats["count_multiple_of_batch"] += 1
                edpos = [i for i, k in enumerate(kinds) if k == "ed25519"]
                tail = edpos[(ned // bs) * bs:]
                if any(not valid[i] for i in tail):
                    feats["invalid_in_last_partial_batch"] += 1
            if cfg["decorated"]:
                feats["decorated_runs"] += 1
                if not l["out"]["err"]:
                    ran = set(x for t in l["ran"] for x in t if x)
                    if ran >= set(range(1, len(kinds) + 1)):
                        feats["decorated_ok_runs_every_signature_ran"] += 1
                    else:
                        feats["decorated_ok_runs_missing_signature"] += 1
                if sample is None and len(l["created"]) >= 3 and cfg["batch"]:
                    sample = {"kind": "decorated-run", "kinds": "".join(k[0] for k in kinds), "cfg": cfg, "created_tasks": l["created"],
                              "ran_tasks": l["ran"], "valid": valid, "out": l["out"]}
    ctx.add("evaluations", nlines)
    ctx.add("distinct_nontrivial", len(shapes))
    for k, v in feats.items():
        ctx.add(k, v)
    ctx.cov["worker_counts_seen"] = sorted(workers_seen)
    ctx.cov["ed25519_counts_seen"] = sorted(ed_counts)
    if sample:
        ctx.sample(sample)
    if ctx.only is None:
        if not feats["blocks_with_invalid"] or not feats["blocks_all_valid"] or not feats["mixed_auth_types"]:
            raise vlib.Infra("vacuity: %s" % feats)
        if not feats["invalid_in_last_partial_batch"] or not feats["count_multiple_of_batch"]:
            raise vlib.Infra("vacuity: no invalid signature in a last partial batch / no count that is a multiple of the batch size")
        if not feats["large_gated_runs_prefix_on_batch_boundary"] or not feats["concurrent_block_pairs"]:
            raise vlib.Infra("vacuity: no large gated block / no concurrent block pair recorded: %s" % feats)
    fails = vlib.validate_scenarios(ctx, "AuthBatch_Trace", "AuthBatch_Trace.cfg", files, label="tv", signature_fn=sig)
    for f in files:
        os.remove(f)
    vlib.report_failures(ctx, fails, describe)
    ctx.cov["rule"] = ("seeded blocks: ed25519 count from {0,1,3,4,5,7,8,9,16,17} (thorough also 31..65), 0-3 secp256r1 and 0-2 BLS "
                       "transactions at shuffled positions (every fifth block ed25519 only), 0 / 1 / 2-3 invalid signatures placed on "
                       "first, last, 4th/5th/8th/9th/last/second-to-last ed25519 position, first non-ed25519 position or random; each block "
                       "executed 5 times: serial one-by-one (reference), 2x parallel with batch engine (one decorated), parallel without "
                       "engine, parallel {1,2,3,4,16} with engine; worker counts cycle through 1..16. Large family: blocks of 16384+k "
                       "ed25519 signatures (k = 3 quick; thorough 8 shapes incl. invalid signatures at 0 / 3277 / in the tail) with the "
                       "batch worker parked on its first item for 600 ms so that the producer meets the full 16384 backlog, 5 workers "
                       "=> batch 3277 and 1+16384 = 5x3277. Concurrent family: a block whose first (one-by-one) signature is invalid and "
                       "whose second is held open, and a valid block, executed at once by one Processor on one shared pool (2-16 "
                       "workers), the second block's job created after the first block's failure was recorded. distinct_nontrivial = distinct "
                       "(kind sequence, validity vector) with at least one invalid signature; evaluations = Execute calls validated")
    ctx.assumptions += ["the scripted no-op action stands in for VM actions; blocks are otherwise valid (funded sponsors, correct root), "
                        "so the only possible reason for rejection is a signature",
                        "task-composition evidence (which signatures ran) is recorded through decorators of chain.AuthEngines / chain.Auth "
                        "and is reported as evidence only: the verdict is decided on Execute's result",
                        "only ed25519 has a batch verifier in the auth package; secp256r1 and BLS are verified one by one on the job"]
