"""C14 - generated transactions budget enough fee for their actual units.
design : WireSize_MC - the size model of the serialized transaction (canoto: tag + varint length + payload per field / action)
         against EstimateUnits for EVERY multiset of action sizes over the classes {1,127,128,300,16384} with up to the rules'
         action limit (16 exhaustively, 255 for the classes {1,128,16384}), the three auth kinds and the base-field variants;
         storage / compute for every small key-set combination; invariant Estimate >= Actual.  WireSize_MC_original (the estimate
         before the fix) is violated: 13 actions of 128 bytes.                                               [TLC exhaustive]
binding: (tv) real chain.EstimateUnits / chain.GenerateTransaction / Transaction.Units with ed25519, secp256r1 and BLS factories
         on boundary shapes (action count at the rules' limit 1..255, sizes around the varint boundaries) and seeded mixes with
         duplicate keys; per line TLC checks the property on the REAL numbers (est >= act per dimension, MaxFee >= fee at the
         same prices) and that the model's estimate and actual units equal the real ones."""
import concurrent.futures
import json
import os
import re

import vlib

LEVEL = "model_checking"
PKG = "chain"
FILES = ["verif_harness_test.go", "verif_exec_test.go", "verif_wiresize_test.go"]


def diag_names(f):
    return sorted(set(re.findall(r'"([^"]+)"', f.get("diag") or "")))


def sig(f):
    names = diag_names(f)
    prop = [n for n in names if not n.startswith("model:") and not n.startswith("harness")]
    return "+".join(prop or names) if names else (f.get("invariant") or "unexplained-line")


def describe(f):
    ev = f.get("event") or {}
    sizes = [a["size"] for a in ev.get("actions") or []]
    hist = {}
    for s in sizes:
        hist[s] = hist.get(s, 0) + 1
    return "diag=%s auth=%s maxactions=%s actions=%d sizes(size:count)=%s est=%s act=%s maxfee=%s fee=%s prices=%s" % (
        f.get("diag"), ev.get("auth"), ev.get("maxactions"), len(sizes), json.dumps(hist), ev.get("est"), ev.get("act"),
        ev.get("maxfee"), ev.get("fee"), ev.get("prices"))


def run(ctx):
    n = ctx.pick(240, 6000)
    with concurrent.futures.ThreadPoolExecutor(max_workers=4) as ex:
        futs = []
        if ctx.only is None:
            futs.append(ex.submit(vlib.tlc_mc, ctx, "WireSize_MC", ctx.pick("WireSize_MC_quick.cfg", "WireSize_MC.cfg"),
                                  label="size", workers=4, timeout=2400))
            futs.append(ex.submit(vlib.tlc_mc, ctx, "WireSize_MC", ctx.pick("WireSize_MC_keys_quick.cfg", "WireSize_MC_keys.cfg"),
                                  label="keys", workers=2))
            if not ctx.quick:
                futs.append(ex.submit(vlib.tlc_mc, ctx, "WireSize_MC", "WireSize_MC_255.cfg", label="size255", workers=4, timeout=2400))
        drv = ex.submit(vlib.go_driver, ctx, PKG, "^TestVerifWireSize$", files=FILES, env={"VERIF_SCENARIOS": n}, timeout=1200)
        for f in futs:
            f.result()
        rc, out = drv.result()
    if ctx.only is None and not ctx.quick:
        r = vlib.tlc_mc(ctx, "WireSize_MC", "WireSize_MC_original.cfg", label="original", expect_violation=True, workers=2)
        ctx.cov["design_step_detects_pre_fix_estimate"] = bool(r["violated"])
        if not r["violated"]:
            raise vlib.Infra("sensitivity: the pre-fix estimate no longer violates EstimateCoversSize in the model")
    if rc != 0:
        pn = vlib.panic_in_repo(out)
        if pn:
            rp = vlib.save_replay(ctx, {"property": ctx.prop, "seed": ctx.seed, "tier": ctx.tier, "panic": pn,
                                        "output_tail": out[-3000:]}, name="panic.json")
            raise vlib.Violation("transaction generation panicked: " + pn, replay=rp, signature="panic")
        raise vlib.Infra("wire size recorder failed:\n" + out[-3000:])
    files = vlib.scenario_files(ctx, "sc")
    if not files or (ctx.only is None and len(files) < n):
        raise vlib.Infra("recorder wrote %d of %d scenarios" % (len(files), n))
    # ---- measured coverage
    shapes = set()
    feats = {"at_action_limit": 0, "actions_ge_128_bytes": 0, "actions_ge_16384_bytes": 0, "duplicate_keys_across_actions": 0,
             "limit_above_default_16": 0, "more_than_16_actions": 0, "keys_not_declared_with_all_permissions": 0,
             "sponsor_key_declared_by_an_action": 0, "all_five_prices_nonzero": 0, "keys_with_chunk_suffix_0": 0,
             "keys_with_chunk_suffix_ge_255": 0}
    auths, min_slack = set(), None
    for f in files:
        l = vlib.read_ndjson(f)[1]
        sizes = [a["size"] for a in l["actions"]]
        auths.add(l["auth"])
        if len(sizes) == l["maxactions"]:
            feats["at_action_limit"] += 1
        if any(s >= 128 for s in sizes):
            feats["actions_ge_128_bytes"] += 1
        if any(s >= 16384 for s in sizes):
            feats["actions_ge_16384_bytes"] += 1
        if l["maxactions"] > 16:
            feats["limit_above_default_16"] += 1
        if len(sizes) > 16:
            feats["more_than_16_actions"] += 1
        ks = [(k["name"], k["chunks"]) for a in l["actions"] for k in a["keys"]]
        if len(ks) != len(set(ks)):
            feats["duplicate_keys_across_actions"] += 1
        if any(k["perm"] != 7 for a in l["actions"] for k in a["keys"]):
            feats["keys_not_declared_with_all_permissions"] += 1
        if any(k["name"] == "$sponsor-balance" for a in l["actions"] for k in a["keys"]):
            feats["sponsor_key_declared_by_an_action"] += 1
        if any(k["chunks"] == 0 for a in l["actions"] for k in a["keys"]):
            feats["keys_with_chunk_suffix_0"] += 1
        if any(k["chunks"] >= 255 for a in l["actions"] for k in a["keys"]):
            feats["keys_with_chunk_suffix_ge_255"] += 1
        if all(p > 0 for p in l["prices"]):
            feats["all_five_prices_nonzero"] += 1
        if len(sizes) >= 2:
            shapes.add((l["auth"], tuple(sorted(sizes)), tuple(sorted(set(ks)))))
        slack = l["est"][0] - l["act"][0]
        min_slack = slack if min_slack is None else min(min_slack, slack)
    ctx.add("evaluations", len(files))
    ctx.add("distinct_nontrivial", len(shapes))
    for k, v in feats.items():
        ctx.add(k, v)
    ctx.cov["auth_kinds"] = sorted(auths)
    ctx.cov["min_bandwidth_slack_observed"] = min_slack
    l0 = vlib.read_ndjson(files[min(5, len(files) - 1)])[1]
    ctx.sample({"kind": "generated-tx", "auth": l0["auth"], "sizes": [a["size"] for a in l0["actions"]][:20], "est": l0["est"],
                "act": l0["act"], "maxfee": l0["maxfee"], "fee": l0["fee"], "prices": l0["prices"]})
    if ctx.only is None:
        if len(auths) < 3 or not feats["at_action_limit"] or not feats["actions_ge_128_bytes"] or not feats["more_than_16_actions"] \
                or not feats["duplicate_keys_across_actions"] or not feats["keys_not_declared_with_all_permissions"] \
                or not feats["sponsor_key_declared_by_an_action"] or not feats["all_five_prices_nonzero"] \
                or not feats["keys_with_chunk_suffix_0"] or not feats["keys_with_chunk_suffix_ge_255"]:
            raise vlib.Infra("vacuous: %s auths=%s" % (feats, sorted(auths)))
    fails = vlib.validate_scenarios(ctx, "WireSize_Trace", "WireSize_Trace.cfg", files, label="tv", signature_fn=sig, max_reports=3)
    for f in files:
        os.remove(f)
    # property failures reject a line; model drift is only marked (KF_HIT-style "model:<clause>" markers) so that the
    # property clauses are evaluated on EVERY row even when the model no longer describes the code
    real, drift, harness = [], [], []
    for f in fails:
        if f.get("kf"):
            drift.append(f)
            continue
        names = diag_names(f)
        if names and all(x.startswith("harness") for x in names):
            harness.append(f)
        else:
            real.append(f)
    ctx.cov["model_drift_markers"] = ctx.cov.pop("known_finding_hits", 0)
    ctx.cov["model_drift_clauses"] = sorted({f["signature"] for f in drift})
    vlib.report_failures(ctx, real, describe)
    if harness and not real:
        raise vlib.Infra("driver generated a shape the rules do not admit: %s" % describe(harness[0])[:400])
    if drift and not real:
        # not a verdict and not a failure of the check: the property clauses were evaluated on every recorded row and hold;
        # only the exact formula of the estimate written down in WireSize.tla differs from what the code computes now
        print("NOTE property=%s: WireSize.tla's formula for the estimate no longer matches the code (clauses %s, e.g. %s); the "
              "property clauses hold on every recorded row" % (ctx.prop, ctx.cov["model_drift_clauses"], drift[0].get("replay")))
        ctx.cov["model_drift_note"] = "estimate formula differs from WireSize.tla; property clauses hold on every row"
    ctx.cov["rule"] = ("seeded shapes: rules' action limit from {1,8,16,32,64,128,255}; a quarter with exactly the limit and one size "
                       "class from {1,2,54,127,128,129,300,16383,16384}; a quarter sweeping the count with sizes {128,1,16384,127}; the "
                       "rest random counts and size mixes (an eighth: 3-16 actions all >= 128 bytes); 0-3 declared keys per action over 5 "
                       "names x chunk suffixes {0,1,2,3, sometimes 255 / 65535 with prices <= 2} with permissions from {read, read|write, read|allocate, all, write, allocate|write} "
                       "(duplicates across actions, one key in eight is the sponsor's own balance key), random rule costs in a third, "
                       "prices from {0,1,2,7,100}, half of the shapes with all five prices non-zero; non-zero chain id; factories ed25519 / secp256r1 / bls in turn. "
                       "distinct_nontrivial = distinct (auth, size multiset, key set) with >= 2 actions; evaluations = generated "
                       "transactions validated")
    ctx.assumptions += ["action payload sizes up to 16384 bytes and MaxFee / fee below 2^30 (TLC integers); overflow of the 64-bit unit "
                        "arithmetic is not covered", "timestamps are those chosen by GenerateTransaction (millisecond wall clock)",
                        "the sponsor key list of the rules (SponsorStateKeysMaxChunks) is the default one matching state/balance"]
