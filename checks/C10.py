import importlib.util, os
import vlib
_s = importlib.util.spec_from_file_location("_rules", os.path.join(os.path.dirname(__file__), "_rules.py"))
rl = importlib.util.module_from_spec(_s)
_s.loader.exec_module(rl)
LEVEL = "model_checking"


def run(ctx):
    if ctx.only is None:
        vlib.tlc_mc(ctx, "BlockRules_MC", "BlockRules_c10.cfg", label="BlockRules_c10")
    feats, fails = rl.run_mode(ctx, "c10", ctx.pick(60, 800), "C10")
    if ctx.only is None and feats["invalid_block"] == 0:
        raise vlib.Infra("vacuous: no rejected block recorded")
    vlib.report_failures(ctx, fails, rl.ch.describe)
