import importlib.util, os
import vlib
_s = importlib.util.spec_from_file_location("_chain", os.path.join(os.path.dirname(__file__), "_chain.py"))
ch = importlib.util.module_from_spec(_s)
_s.loader.exec_module(ch)
FILES = ["verif_harness_test.go", "verif_exec_test.go", "verif_rules_test.go"]


def run_mode(ctx, mode, scenarios, label):
    files = ch.record(ctx, "^TestVerifChainRules$", mode, scenarios, files=FILES)
    feats = ch.stats(ctx, files)
    fails = ch.validate(ctx, files, label)
    return feats, fails
