"""X09 (extra, not in the manifest) - x/dsmr p2p handlers: GetChunk, chunk signature requests (ACP-118), certificate gossip.
design : DsmrHandlers_MC (signature request outcome with the message / repeated-request repairs, GetChunk, Gossip, Expire;
         invariants SignsOnlyStored, StoresOnlyValid, NoPanic, WithinLimit, CertsOfHeld, action properties Idempotent,
         ServesHeld; the handlers as originally written violate SignsOnlyStored and Idempotent / NoPanic)  [TLC exhaustive]
binding: (tv) seeded histories of real wire messages to the real handlers over one real ChunkStorage (memdb): signature
         requests (own reference / another chunk's reference / garbage justification; valid, non-validator, forged-producer,
         too-far-ahead chunks), GetChunk, certificate gossip (valid / corrupted), SetMin; after every call the held chunks,
         certificates and per-producer weights are validated by DsmrHandlers_Trace"""
import json
import os
import vlib

LEVEL = "model_checking"
FILES = ["verif_node_common_test.go", "verif_p2p_test.go"]


def sig(fail):
    d = fail.get("diag") or ""
    return "%s:%s" % (fail.get("event", {}).get("ev"), d.strip("{} ").replace('"', "") or fail.get("invariant"))


def describe(f):
    if f.get("kf"):
        return "known: " + f["signature"]
    hist = [(l.get("ev"), l.get("m", l.get("c", l.get("t"))), l.get("j"), l.get("res")) for l in f.get("scenario", [])][-8:]
    return "reset=%s history(tail)=%s failing line %s diag=%s" % (json.dumps(f.get("reset"))[:400], hist, json.dumps(f.get("event"))[:400], f.get("diag"))


def run(ctx):
    if ctx.only is None:
        vlib.tlc_mc(ctx, "DsmrHandlers_MC", "DsmrHandlers_MC.cfg", coverage=True)
        for cfg, inv in (("original", "SignsOnlyStored"), ("original_panic", "Idempotent")):
            r = vlib.tlc_mc(ctx, "DsmrHandlers_MC", "DsmrHandlers_MC_%s.cfg" % cfg, label=cfg, expect_violation=True)
            if not r["violated"] or inv not in r["violated"]:
                raise vlib.Infra("sensitivity: DsmrHandlers_MC_%s no longer violates %s" % (cfg, inv))
    rc, out = vlib.go_driver(ctx, "x/dsmr", "^TestVerifDsmrHandlers$", files=FILES, timeout=ctx.pick(600, 1800),
                             env={"VERIF_SCENARIOS": ctx.pick(60, 600), "VERIF_DEPTH": ctx.pick(18, 30)})
    p = vlib.panic_in_repo(out)
    if p:
        raise vlib.Violation("panic in the code under test: " + p, signature="panic")
    if rc != 0:
        raise vlib.Infra("dsmr p2p recorder failed:\n" + out[-3000:])
    sp = os.path.join(ctx.work, "out", "stats-p2p.ndjson")
    st = vlib.read_ndjson(sp)[0]
    os.remove(sp)
    files = vlib.scenario_files(ctx, "p2p-")
    if ctx.only is None:
        for k in ("sig_signed", "sig_refused", "get_served", "get_not-available", "get_error", "gossip", "expire"):
            ctx.add("tv_" + k, st.get(k, 0))
            if st.get(k, 0) == 0:
                raise vlib.Infra("vacuity: histories never showed " + k)
        ctx.add("tv_sig_panic", st.get("sig_panic", 0))
        ctx.add("tv_signed_unrelated_message", st.get("signed_unrelated_message", 0))
    ncalls, distinct = 0, set()
    for f in files:
        lines = vlib.read_ndjson(f)
        ncalls += len(lines) - 1
        if any(l["ev"] == "sig" and l["res"] == "signed" for l in lines):      # non-trivial = something was signed
            distinct.add(hash(json.dumps([(l["ev"], l.get("m", l.get("c")), l.get("j"), l.get("res")) for l in lines])))
    ctx.add("evaluations", ncalls)
    ctx.add("distinct_nontrivial", len(distinct))
    ctx.sample({"kind": "dsmr-p2p-trace", "lines": vlib.read_ndjson(files[0])[1:5]})
    fails = vlib.validate_scenarios(ctx, "DsmrHandlers_Trace", "DsmrHandlers_Trace.cfg", files, label="p2p", signature_fn=sig)
    for f in files:
        os.remove(f)
    vlib.report_failures(ctx, fails, describe)
    ctx.cov["rule"] = ("seeded histories of 18 (quick) / 30 (thorough) calls on a node with 2 validators, 6-8 valid chunks of equal size, "
                       "one chunk of a non-validator, one signed with a foreign key in a validator's name, one expiring too far ahead, "
                       "limit 1-3 chunks per producer: signature request for a chunk's own reference (40 %), for another chunk's "
                       "reference (10 %), with a garbage justification, GetChunk (1 in 10 undecodable), certificate gossip (1 in 4 "
                       "corrupted), SetMin +10; evaluation = one call; non-trivial history = something was signed")
    ctx.assumptions += ["handlers are called sequentially with real wire messages; the requesting peer is a validator",
                        "held = the storage returns the chunk's exact bytes; weights are read from ChunkStorage.pendingChunksSizes",
                        "chunk certificates carry every validator's signature (quorum 1/1)"]
