import importlib.util, os, json
import vlib
_s = importlib.util.spec_from_file_location("_c09_window", os.path.join(os.path.dirname(__file__), "_c09_window.py"))
wl = importlib.util.module_from_spec(_s)
_s.loader.exec_module(wl)
LEVEL = "model_checking"


def run(ctx):
    if ctx.only is None:
        vlib.tlc_mc(ctx, "ValidityWindow_MC", ctx.pick("ValidityWindow_MC_quick.cfg", "ValidityWindow_MC.cfg"), timeout=1800)
    fails = wl.run_window_level(ctx, ctx.pick(150, 3000), ctx.pick(40, 60))
    # chain level: builder never includes a replay, admission refuses replays, verification in normal operation
    # rejects a child repeating an ancestor's transaction (drivers/chain/verif_build_test.go, Block_Trace TBuild/TAdmit/TReplay)
    _b = importlib.util.spec_from_file_location("c02", os.path.join(os.path.dirname(__file__), "C02.py"))
    c02 = importlib.util.module_from_spec(_b)
    _b.loader.exec_module(c02)
    bfiles = c02.record_builds(ctx, ctx.pick(30, 400))
    nrep = sum(1 for f in bfiles for l in vlib.read_ndjson(f) if l["ev"] == "replay")
    ctx.add("replay_blocks_offered_to_verification", nrep)
    if ctx.only is None and nrep == 0:
        raise vlib.Infra("vacuous: no replay block was offered to verification")
    fails += c02.ch.validate(ctx, bfiles, "chain")
    vlib.report_failures(ctx, fails, lambda f: "diag=%s line=%s" % (f.get("diag"), json.dumps(f.get("event"))[:300]))
