"""C05 - state access is confined to declared keys and permissions.
design: TStateView_MC with every permission mask on one key (masks cfg) refines KV, whose guards are the
        permission lattice (read / write / write+allocate for creation).
binding: (tv) random op sequences under random restricted scopes on the real TStateView validated against KV;
         (mbt) TLC-generated KV behaviours with all 8 masks replayed on the real view."""
import importlib.util
import os
import vlib

LEVEL = "model_checking"
_spec = importlib.util.spec_from_file_location("c04", os.path.join(os.path.dirname(__file__), "C04.py"))
c04 = importlib.util.module_from_spec(_spec)
_spec.loader.exec_module(c04)


def run(ctx):
    if ctx.only is None:
        vlib.tlc_mc(ctx, "TStateView_MC", "TStateView_MC_masks.cfg", label="masks", coverage=False)
    fails = c04.binding_tv(ctx, True, ctx.pick(300, 4000), ctx.pick(40, 80), "tv")
    denied = ctx.cov.get("evaluations", 0)
    if ctx.only is None:
        fails += c04.binding_mbt(ctx, "TStateView_Gen_masks.cfg", ctx.pick(300, 3000), "masks")
    vlib.report_failures(ctx, fails, c04.describe)
    ctx.cov["rule"] = ("tv: as C04 but every view draws a random permission subset per key (all 8 masks incl. write "
                       "without read); refused ops must leave every readable key and the block map unchanged and "
                       "allowed ops must succeed; mbt: KV walks with all 8 masks on k1")
    ctx.assumptions += ["transaction-level union of action and sponsor keys is bound by the chain driver (C01/C03)"]
