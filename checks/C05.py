"""C05 - state access is confined to declared keys and permissions.
design: TStateView_MC with every permission mask on one key (masks cfg) refines KV, whose guards are the
        permission lattice (read / write / write+allocate for creation).
binding: (tv) random op sequences under random restricted scopes on the real TStateView validated against KV;
         (mbt) TLC-generated KV behaviours with all 8 masks replayed on the real view."""
import importlib.util
import os
import vlib

LEVEL = "model_checking"
_spec = importlib.util.spec_from_file_location("c04", os.path.join(os.path.dirname(__file__), "C04.py"))
c04 = importlib.util.module_from_spec(_spec)
_spec.loader.exec_module(c04)


def run(ctx):
    if ctx.only is None:
        vlib.tlc_mc(ctx, "TStateView_MC", "TStateView_MC_masks.cfg", label="masks", coverage=False)
    fails = c04.binding_tv(ctx, True, ctx.pick(300, 4000), ctx.pick(40, 80), "tv")
    denied = ctx.cov.get("evaluations", 0)
    if ctx.only is None:
        fails += c04.binding_mbt(ctx, "TStateView_Gen_masks.cfg", ctx.pick(300, 3000), "masks")
    # transaction level: union of the actions' and the sponsor's declarations, keys differing only in their size suffix,
    # "an undeclared access fails the action, which is reverted" - real Processor.Execute validated against Block.tla
    _s2 = importlib.util.spec_from_file_location("_chain", os.path.join(os.path.dirname(__file__), "_chain.py"))
    ch = importlib.util.module_from_spec(_s2)
    _s2.loader.exec_module(ch)
    for f in vlib.scenario_files(ctx, "sc"):
        os.remove(f)
    files = ch.record(ctx, "^TestVerifChainExec$", "c03", ctx.pick(40, 600))
    nsuffix = nbal = 0
    for f in files:
        for l in vlib.read_ndjson(f):
            if l.get("ev") == "block" and l["rep"] == 0:
                for t in l["txs"]:
                    nsuffix += any("#" in k for k in t["decl"])
                    nbal += any(k.startswith("bal:") for k in t["decl"])
    ctx.add("txs_declaring_a_size_suffix_variant", nsuffix)
    ctx.add("txs_declaring_a_balance_key_in_an_action", nbal)
    ch.stats(ctx, files)
    cf = ch.validate(ctx, files, "c05-tx")
    vlib.report_failures(ctx, fails, c04.describe)
    vlib.report_failures(ctx, cf, ch.describe)
    ctx.cov["rule"] = ("tv: as C04 but every view draws a random permission subset per key (all 8 masks incl. write "
                       "without read); refused ops must leave every readable key and the block map unchanged and "
                       "allowed ops must succeed; mbt: KV walks with all 8 masks on k1")
    
