"""X03 (extra, not in the manifest) - internal/gossiper.Target: which transactions are pushed to which peers.
design : Gossip_MC (Force as the callback folded over the mempool, Mempool.Top's give-back order, both target
         strategies, HandleAppGossip, FIFO seen cache; action properties Selection (batch = Want(visit order, cache),
         messages per strategy, whole mempool visited unless a live transaction does not fit), KeepsLive; invariants
         NoRegossip, NoEcho, NeverToSelf, Targeting; variants "nocache" / "dropsent" must violate Selection / KeepsLive)
binding: (tv) seeded histories of Mempool.Add / HandleAppGossip (well-formed and garbage) / Force (scripted proposer
         set, failing lookup) on a real Target over a real mempool with a recording network sender, four
         configurations (strategy x GossipMaxSize x SeenCacheSize), validated per configuration by Gossip_Trace"""
import json
import os
import vlib

LEVEL = "model_checking"
PKG = "internal/gossiper"
FILES = ["verif_gossip_test.go"]
GROUPS = {"g0": ("proposers", 3, 64), "g1": ("proposers", 5, 2), "g2": ("assigner", 4, 64), "g3": ("assigner", 3, 1)}


def sig(fail):
    d = fail.get("diag") or ""
    return "%s:%s" % (fail.get("event", {}).get("ev"), d.strip("{} ").replace('"', "") or fail.get("invariant"))


def describe(f):
    if f.get("kf"):
        return "known: " + f["signature"]
    hist = [(l.get("ev"), l.get("t", l.get("txs", l.get("visited"))), l.get("msgs")) for l in f.get("scenario", [])][-6:]
    return "reset=%s history(tail)=%s failing line %s diag=%s" % (json.dumps(f.get("reset")), hist,
                                                                 json.dumps(f.get("event"))[:400], f.get("diag"))


def run(ctx):
    if ctx.only is None:
        vlib.tlc_mc(ctx, "Gossip", "Gossip_MC_quick.cfg", coverage=True, label="prop")
        if not ctx.quick:
            vlib.tlc_mc(ctx, "Gossip", "Gossip_MC_assigner.cfg", coverage=True, label="assigner")
        for cfg, inv in (("nocache", "Selection"), ("dropsent", "KeepsLive")):
            r = vlib.tlc_mc(ctx, "Gossip", "Gossip_MC_%s.cfg" % cfg, label=cfg, expect_violation=True)
            if not r["violated"] or inv not in r["violated"]:
                raise vlib.Infra("sensitivity: Gossip_MC_%s no longer violates %s" % (cfg, inv))
    rc, out = vlib.go_driver(ctx, PKG, "^TestVerifGossipRecord$", files=FILES, timeout=ctx.pick(300, 900),
                             env={"VERIF_SCENARIOS": ctx.pick(150, 1500), "VERIF_DEPTH": ctx.pick(12, 20)})
    p = vlib.panic_in_repo(out)
    if p:
        raise vlib.Violation("panic in the code under test: " + p, signature="panic")
    if rc != 0:
        raise vlib.Infra("gossiper recorder failed:\n" + out[-3000:])
    sp = os.path.join(ctx.work, "out", "gossip_stats.json")
    st = json.load(open(sp))
    os.remove(sp)
    if ctx.only is None:
        for k in ("force_sent", "force_err", "force_stopped_by_size", "receive", "garbage"):
            ctx.add("tv_" + k, st.get(k, 0))
            if st.get(k, 0) == 0:
                raise vlib.Infra("vacuity: histories never exercised " + k)
    fails = []
    distinct = set()
    nfiles = 0
    for g, (strategy, maxsize, cachesize) in GROUPS.items():
        files = vlib.scenario_files(ctx, g + "-")
        if not files:
            continue
        nfiles += len(files)
        for f in files:
            lines = vlib.read_ndjson(f)
            if any(l["ev"] == "force" and l["msgs"] for l in lines):      # non-trivial = something was gossiped
                distinct.add(hash(json.dumps(lines)))
        if g == "g1":
            ctx.sample({"kind": "gossip-trace", "first_lines": vlib.read_ndjson(files[len(files) // 2])[:5]})
        fails += vlib.validate_scenarios(ctx, "Gossip_Trace", "Gossip_Trace.cfg", files, label=g, signature_fn=sig,
                                         constants_env={"STRATEGY": strategy, "MAXSIZE": maxsize, "CACHESIZE": cachesize})
        for f in files:
            os.remove(f)
    if nfiles == 0:
        raise vlib.Infra("no scenario recorded")
    ctx.add("evaluations", nfiles)
    ctx.add("distinct_nontrivial", len(distinct))
    vlib.report_failures(ctx, fails, describe)
    ctx.cov["rule"] = ("seeded histories of 12 (quick) / 20 (thorough) calls over {Mempool.Add, HandleAppGossip of 1-2 "
                       "transactions (1 in 8 undecodable), Force with a random proposer subset of {me,n1,n2,n3} (1 in 10 with a "
                       "failing lookup)}; 3-5 transactions with random size (1 in 12 larger than GossipMaxSize), life class "
                       "(expired / below GossipMinLife / long) and assignment; 4 configurations. non-trivial = at least one "
                       "message reached the network; distinct = distinct recorded traces")
    ctx.assumptions += ["Force / HandleAppGossip called sequentially (the run loop, Queue and BlockVerified are not driven)",
                        "expiry classes are seconds away from the boundaries; a scenario lasts milliseconds",
                        "the mempool never reaches its item or sponsor limit", "Mempool.Top's time budget is not reached (1 h)"]
