"""Shared helper for the gate-level concurrency checks (C08, C24; C26 has its own copy of the same logic).
record(): runs a gated Go recorder; confirm_hangs(): the "no hang" rule of DESIGN 1.4 - a watchdog verdict
counts only if the same scenario hangs again when replayed alone."""
import json
import os
import shutil
import vlib


def record(ctx, pkg, files, test, prefix, scenarios, watchdog=30, only=None, scripts=None, env=None):
    out = os.path.join(ctx.work, "out")
    shutil.rmtree(out, ignore_errors=True)
    e = {"VERIF_SCENARIOS": scenarios, "VERIF_WATCHDOG_S": watchdog}
    if only is not None:
        e["VERIF_ONLY"] = only
    if scripts:
        e["VERIF_SCRIPTS"] = scripts
    if env:
        e.update(env)
    rc, outp = vlib.go_driver(ctx, pkg, test, files=files, env=e, timeout=watchdog * 4 + 900)
    sp = os.path.join(out, prefix + "_summary.json")
    if rc != 0 or not os.path.exists(sp):
        pn = vlib.panic_in_repo(outp) if hasattr(vlib, "panic_in_repo") else None
        if pn:
            rp = vlib.save_replay(ctx, {"property": ctx.prop, "seed": ctx.seed, "tier": ctx.tier, "panic": pn,
                                        "output_tail": outp[-3000:]}, name="panic.json")
            raise vlib.Violation("the code under test panicked while running a gated scenario: " + pn, replay=rp,
                                 signature="panic")
        raise vlib.Infra("recorder %s failed:\n%s" % (test, outp[-3000:]))
    return json.load(open(sp)), vlib.scenario_files(ctx, prefix)


def single(ctx):
    """True when this run replays one scenario (--replay); vlib.ALL (second pass without vacuity guards) is a full run."""
    return ctx.only is not None and ctx.only is not getattr(vlib, "ALL", None)


def sig(contract):
    def f(fail):
        ev = fail.get("event", {})
        if ev.get("ev") == "hang":
            return "hang:" + str(ev.get("what", "")).split(":")[0]
        return "%s:%s" % (ev.get("ev"), fail.get("invariant") or "not-allowed-by-" + contract)
    return f


def confirm_hangs(ctx, fails, rerun):
    """rerun(idx) -> summary of a run of scenario idx alone.  Returns the failures that count."""
    confirmed = []
    for f in fails:
        idx = f["reset"].get("sc")
        try:
            r = json.load(open(f["replay"]))
            r["only"] = idx
            json.dump(r, open(f["replay"], "w"), indent=1)
        except Exception:
            pass
        if f["event"].get("ev") != "hang" or single(ctx):
            confirmed.append(f)
            continue
        s2 = rerun(idx)
        if idx in (s2.get("hangs") or []):
            ctx.add("hangs_confirmed_by_replay", 1)
            confirmed.append(f)
        else:
            raise vlib.Infra("watchdog fired in scenario %s but the replay of the same schedule did not hang" % idx)
    return confirmed


def describe(f):
    return "scenario %s (%s) line %s" % (f["reset"].get("sc"), f["reset"].get("label", ""),
                                         json.dumps(f.get("event"))[:300])
