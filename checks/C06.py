"""C06 - token supply is conserved except for burned fees (reference VM).
design : Transfer_MC - blocks of transfer transactions executed call by call (CanDeduct, Deduct, OpIndex, SubBalance with
         delete-at-zero, AddBalance with create, Rollback, Commit) on the implementation-shaped view of TStateView.tla must
         refine the numeric ledger of Transfer.tla and conserve the supply                                 [TLC exhaustive]
         + the same machine with the pre-fix TStateView.Remove must violate conservation (sensitivity)
binding: (tv)  real actions.Transfer + storage balance handler + chain.Processor on a merkledb parent; every
               Processor.Execute call is one trace line validated by TLC against Transfer.tla (per-account balances,
               success flags, supply = previous supply - fees, no balance record outside the known accounts)
         (num) blocks with balances near 2^64 (overflow rejection) evaluated by Apalache over the same Transfer.tla text"""
import json
import os
import re
import shutil
import vlib

LEVEL = "model_checking"
MOD = os.path.join(vlib.REPO, "examples", "morpheusvm")
PKG = "actions"
FILES = ["verif_transfer_test.go"]
MAXU64 = 2 ** 64 - 1


def sig(f):
    d = f.get("diag") or ""
    names = sorted(set(re.findall(r'"([^"]+)"', d)))
    return "+".join(names) if names else (f.get("invariant") or "unexplained-line")


def describe(f):
    ev = f.get("event") or {}
    out = ev.get("out") or {}
    return "diag=%s bid=%s cores=%s err=%r pre=%s txs=%s post=%s" % (
        f.get("diag"), ev.get("bid"), ev.get("cores"), out.get("err"), json.dumps(ev.get("pre")),
        json.dumps(ev.get("txs"))[:600], json.dumps(out.get("post")))


def record(ctx, scenarios, nbig):
    mode = "small+big"
    def drive():
        return vlib.go_driver(ctx, PKG, "^TestVerifTransferBlocks$", module_dir=MOD, files=FILES, timeout=1500,
                              env={"VERIF_SCENARIOS": scenarios, "VERIF_BIG": nbig})
    rc, out = drive()
    if rc != 0 and re.search(r"HANG: .*", out):
        # a watchdog verdict counts only if the (seeded) recording hangs again: a stall of a loaded machine does not repeat
        print("note: %s - recording again to confirm" % re.search(r"HANG: .*", out).group(0))
        rc, out = drive()
    if rc != 0:
        m = re.search(r"HANG: .*", out)
        if m:
            rp = vlib.save_replay(ctx, {"property": ctx.prop, "seed": ctx.seed, "tier": ctx.tier, "hang": m.group(0),
                                        "output_tail": out[-3000:]}, name="hang.json")
            raise vlib.Violation("real code hung (twice in two recordings): " + m.group(0), replay=rp, signature="hang")
        pn = vlib.panic_in_repo(out)
        if pn:
            rp = vlib.save_replay(ctx, {"property": ctx.prop, "seed": ctx.seed, "tier": ctx.tier, "mode": mode, "panic": pn,
                                        "output_tail": out[-3000:]}, name="panic-%s.json" % mode)
            raise vlib.Violation("the code under test panicked while executing a recorded block: " + pn, replay=rp,
                                 signature="panic")
        raise vlib.Infra("transfer recorder failed (%s):\n%s" % (mode, out[-3000:]))
    fs, bfs = vlib.scenario_files(ctx, "sm"), vlib.scenario_files(ctx, "big")
    if not fs or (nbig and not bfs):
        raise vlib.Infra("transfer recorder wrote no scenarios")
    return fs, bfs


def count_overflows(l):
    """coverage statistic only (never an oracle): transfers of an accepted 64-bit block whose sender could pay but whose
    receiver would exceed 2^64-1, found by replaying the block on the recorded numbers"""
    bal = {a: int(v) for a, v in l["pre"].items()}
    n = 0
    for t, r in zip(l["txs"], l["out"]["results"]):
        bal[t["sponsor"]] -= int(r["fee"])
        snap = dict(bal)
        for a in t["actions"]:
            v = int(a["value"])
            if v == 0 or a["memo"] > 256 or bal[t["actor"]] < v:
                bal = snap
                break
            if bal[a["to"]] + (0 if a["to"] == t["actor"] else v) > MAXU64:
                n += 1
                bal = snap
                break
            bal[t["actor"]] -= v
            bal[a["to"]] += v
    return n


def drain_refill(l):
    """coverage statistic only: replay an accepted block on the recorded numbers (success flags as recorded) and look at
    the balances at transaction boundaries: (an account that owned something before the block is at zero after one
    transaction and back at exactly its pre-block balance after a later one, ... is at zero, non-zero, zero again)"""
    pre = {a: int(v) for a, v in l["pre"].items()}
    bal = dict(pre)
    hist = {a: [] for a in pre}
    for t, r in zip(l["txs"], l["out"]["results"]):
        bal[t["sponsor"]] -= int(r["fee"])
        if r["ok"]:
            for a in t["actions"]:
                bal[t["actor"]] -= int(a["value"])
                bal[a["to"]] += int(a["value"])
        for a in bal:
            hist[a].append(bal[a])
    exact = again = 0
    for a, h in hist.items():
        if pre[a] == 0:
            continue
        zeros = [i for i, v in enumerate(h) if v == 0]
        if zeros and any(v == pre[a] for v in h[zeros[0] + 1:]):
            exact = 1
        if len(zeros) >= 2 and any(v > 0 for v in h[zeros[0]:zeros[-1]]):
            again = 1
    return exact, again


def stats(ctx, files, big=False):
    feats = {"blocks": 0, "txs": 0, "actions": 0, "failed_tx": 0, "rejected_blocks": 0, "self_transfers": 0,
             "sponsor_is_not_actor": 0, "records_deleted": 0, "records_created": 0, "txs_with_ge8_actions": 0,
             "delete_then_recreate_in_one_tx": 0,
             "accounts_emptied": 0, "accounts_funded_from_zero": 0,
             "overflow_rejections": 0, "drain_then_exact_refill_across_txs": 0, "drain_refill_drain_across_txs": 0}
    shapes = set()
    sample = None
    n_lines = 0
    iv = (lambda x: int(x))
    for f in files:
        lines = vlib.read_ndjson(f)
        rec = dict(lines[0]["rec"])
        for l in lines[1:]:
            if l.get("ev") != "block":
                continue
            n_lines += 1
            out = l["out"]
            if l["rep"] != 0:
                if l["advance"] and not out["err"]:
                    rec = dict(out["rec"])
                continue
            feats["blocks"] += 1
            if out["err"]:
                feats["rejected_blocks"] += 1
                continue
            nontrivial = False
            ex, ag = drain_refill(l)
            feats["drain_then_exact_refill_across_txs"] += ex
            feats["drain_refill_drain_across_txs"] += ag
            if big:
                feats["overflow_rejections"] += count_overflows(l)
            for t, r in zip(l["txs"], out["results"]):
                feats["txs"] += 1
                feats["actions"] += len(t["actions"])
                feats["failed_tx"] += 0 if r["ok"] else 1
                feats["sponsor_is_not_actor"] += 1 if t["sponsor"] != t["actor"] else 0
                feats["txs_with_ge8_actions"] += 1 if len(t["actions"]) >= 8 else 0
                selfs = [a for a in t["actions"] if a["to"] == t["actor"]]
                feats["self_transfers"] += len(selfs)
                # the sender's whole balance moved to itself and afterwards moved again: record deleted, re-created, deleted
                outs = r["outs"]
                for i, a in enumerate(t["actions"][:len(outs)]):
                    if a["to"] == t["actor"] and iv(outs[i]["sender"]) == 0 and i + 1 < len(outs):
                        feats["delete_then_recreate_in_one_tx"] += 1
                        break
                if len(t["actions"]) >= 2 or not r["ok"] or selfs:
                    nontrivial = True
            for a in l["pre"]:
                was, now = iv(l["pre"][a]), iv(out["post"][a])
                feats["accounts_emptied"] += 1 if was > 0 and now == 0 else 0
                feats["accounts_funded_from_zero"] += 1 if was == 0 and now > 0 else 0
            for a, had in rec.items():
                now = out["rec"].get(a, had)
                if had and not now:
                    feats["records_deleted"] += 1
                if not had and now:
                    feats["records_created"] += 1
            if nontrivial:
                shapes.add(json.dumps([l["pre"], l["txs"]], sort_keys=True))
            if sample is None and len(l["txs"]) >= 2 and any(not r["ok"] for r in out["results"]):
                sample = {"kind": "recorded block" + (" (64-bit)" if big else ""), "pre": l["pre"], "txs": l["txs"][:3],
                          "results": [{"ok": r["ok"], "fee": r["fee"]} for r in out["results"][:3]], "post": out["post"]}
    ctx.add("evaluations", n_lines)
    ctx.add("distinct_nontrivial", len(shapes))
    for k, v in feats.items():
        ctx.add(("big_" if big else "") + k, v)
    if sample:
        ctx.sample(sample)
    return feats


# --------------------------------------------------------------------------- num engine (Apalache)
APA_FOLDS = r"""------------------------------- MODULE VFolds -------------------------------
(* Apalache flavour of spec/VFolds.tla: same operator names, native folds *)
EXTENDS Sequences, FiniteSets, Apalache

\* @type: ((a, b) => a, a, Seq(b)) => a;
FoldSeqL(Op(_, _), base, seq) == ApaFoldSeqLeft(Op, base, seq)

\* @type: ((a, b) => a, a, Set(b)) => a;
FoldSetL(Op(_, _), base, S) == ApaFoldSet(Op, base, S)
=============================================================================
"""


def tla_fun(m):
    ks = sorted(m)
    body = " ELSE ".join('IF a = "%s" THEN %d' % (k, int(m[k])) for k in ks[:-1])
    last = "%d" % int(m[ks[-1]])
    return "[a \\in {%s} |-> %s]" % (", ".join('"%s"' % k for k in ks), (body + " ELSE " + last) if body else last)


def tla_row(l):
    """one recorded block -> body of a TLA+ definition over Transfer.tla with 64-bit literals
    (sequence literals get Apalache type annotations through LET definitions)"""
    out = l["out"]
    fees = [t["fee"] for t in l["txs"]] if out["err"] else [r["fee"] for r in out["results"]]
    defs, txs = [], []
    for i, (t, fee) in enumerate(zip(l["txs"], fees)):
        acts = ", ".join('[to |-> "%s", value |-> %d, memo |-> %d]' % (a["to"], int(a["value"]), a["memo"]) for a in t["actions"])
        defs.append("    \\* @type: Seq($act);\n    acts%d == <<%s>>" % (i, acts))
        txs.append('[sponsor |-> "%s", actor |-> "%s", fee |-> %d, actions |-> acts%d]' % (t["sponsor"], t["actor"], int(fee), i))
    defs.append("    \\* @type: Seq($tx);\n    txs == <<%s>>" % ", ".join(txs))
    pre = tla_fun(l["pre"])
    if out["err"]:
        call = "RowRejected(%s, txs)" % pre
    else:
        defs.append("    \\* @type: Seq(Bool);\n    oks == <<%s>>" % ", ".join("TRUE" if r["ok"] else "FALSE" for r in out["results"]))
        call = "RowAccepted(%s, txs, %s, oks)" % (pre, tla_fun(out["post"]))
    return "\n  LET\n" + "\n".join(defs) + "\n  IN " + call


APA_HEAD = r"""---------------------------- MODULE C06Rows ----------------------------
EXTENDS Integers, Sequences, Transfer
MAXU64 == 18446744073709551615
VARIABLE
  \* @type: Int;
  x
Init == x = 0
Next == UNCHANGED x

\* an accepted block: per-account balances, success flags and the supply equation, all with 64-bit values
RowAccepted(pre, txs, post, oks) ==
  LET r == RunBlockA(pre, txs, MAXU64) IN
  /\ r.valid
  /\ r.oks = oks
  /\ \A a \in DOMAIN pre : r.bal[a] = post[a]
  /\ SumBal(post) = SumBal(pre) - r.fees
  /\ \A a \in DOMAIN post : post[a] >= 0 /\ post[a] <= MAXU64

\* a rejected block: the ledger agrees that some sponsor cannot pay
RowRejected(pre, txs) == ~RunBlockA(pre, txs, MAXU64).valid
"""


def binding_num(ctx, files):
    """Every block line of the 64-bit scenarios is one invariant Row<i> evaluated by Apalache (length 0)."""
    rows = []
    for f in files:
        lines = vlib.read_ndjson(f)
        for i, l in enumerate(lines):
            if l.get("ev") == "block":
                if l["out"]["err"] not in ("", "insufficient"):
                    rows.append((f, i, l, None))
                else:
                    rows.append((f, i, l, tla_row(l)))
    fails = []
    todo, seen = [], set()
    for r in rows:
        if r[3] is not None and r[3] not in seen:      # the same block run with another core count: same conjunct
            seen.add(r[3])
            todo.append(r)
    ctx.add("apalache_block_lines", len([r for r in rows if r[3] is not None]))
    for f, i, l, _ in rows:
        if _ is None:
            fails.append({"event": l, "invariant": "error-class", "diag": '{"error-class"}', "signature": "error-class",
                          "replay": vlib.save_replay(ctx, {"property": ctx.prop, "seed": ctx.seed, "tier": ctx.tier, "line": l},
                                                     name="num-%s-%d.json" % (os.path.basename(f), i))})
    if not todo:
        raise vlib.Infra("no 64-bit rows recorded")
    with open(os.path.join(vlib.SPEC, "Transfer.tla")) as fh:
        transfer = fh.read()

    def run(sub, label):
        text = APA_HEAD + "\n".join("Row%d == %s" % (k, c[3]) for k, c in enumerate(sub)) + \
            "\nAllRows == " + " /\\ ".join("Row%d" % k for k in range(len(sub))) + "\n" + "=" * 77 + "\n"
        d = ctx.sub("apa-" + label)
        with open(os.path.join(d, "Transfer.tla"), "w") as fh:
            fh.write(transfer)
        with open(os.path.join(d, "VFolds.tla"), "w") as fh:
            fh.write(APA_FOLDS)
        ok, out = vlib.apalache_check(ctx, text, "C06Rows", "AllRows", label=label, timeout=1500)
        return ok

    def bisect(sub, label):
        if run(sub, label):
            return []
        if len(sub) == 1:
            return sub
        h = len(sub) // 2
        return bisect(sub[:h], label + "a") + bisect(sub[h:], label + "b")

    bad = []
    chunk = 16
    for c in range(0, len(todo), chunk):
        bad += bisect(todo[c:c + chunk], "c%d" % (c // chunk))
    for f, i, l, conj in bad:
        fails.append({"event": l, "invariant": "Row", "diag": '{"64-bit-ledger-row"}', "signature": "64-bit-ledger-row",
                      "replay": vlib.save_replay(ctx, {"property": ctx.prop, "seed": ctx.seed, "tier": ctx.tier, "line": l,
                                                       "conjunct": conj, "scenario_trace": vlib.read_ndjson(f)},
                                                 name="num-%s-%d.json" % (os.path.basename(f), i))})
    ctx.add("apalache_rows", len(todo))
    ctx.add("traces_validated_against_impl", len(todo) - len(bad))
    return fails


def stage(ctx, name):
    import time
    now = time.time()
    ctx.cov.setdefault("stage_wall_s", {})[name] = round(now - getattr(ctx, "_c06_t", ctx.t0), 1)
    ctx._c06_t = now


def run(ctx):
    import threading
    files, bfiles = record(ctx, ctx.pick(400, 6000), 0 if ctx.only is not None else ctx.pick(4, 60))
    feats = stats(ctx, files)
    stage(ctx, "record(go)")
    num = {"fails": [], "exc": None}
    th = None
    if bfiles:
        bfeats = stats(ctx, bfiles, big=True)
        if ctx.only is None and bfeats["overflow_rejections"] == 0:
            raise vlib.Infra("vacuous: no 64-bit block contains a transfer rejected for overflowing the receiver")

        def work():
            try:
                num["fails"] = binding_num(ctx, bfiles)
            except BaseException as e:      # re-raised in the main thread
                num["exc"] = e
        th = threading.Thread(target=work)
        th.start()                          # Apalache runs while TLC does the design step and the trace validation
    try:
        if ctx.only is None:
            for cfg in ctx.pick(["Transfer_MC_quick2.cfg"], ["Transfer_MC_quick.cfg", "Transfer_MC.cfg"]):
                mc = vlib.tlc_mc(ctx, "Transfer_MC", cfg, label="design-" + cfg[:-4], workers=ctx.pick(6, None))
                if mc["violated"]:
                    raise vlib.Infra("design step: the implementation-shaped transfer machine does not refine the ledger: " + mc["violated"])
            if not ctx.quick:
                r = vlib.tlc_mc(ctx, "Transfer_MC", "Transfer_MC_original.cfg", label="orig", expect_violation=True)
                ctx.cov["design_step_detects_pre_fix_Remove"] = bool(r["violated"])
                if not r["violated"]:
                    raise vlib.Infra("sensitivity: the machine with the pre-fix Remove no longer violates Conserved")
                r = vlib.tlc_mc(ctx, "Transfer_MC", "Transfer_MC_blockdelete.cfg", label="blockdelete", expect_violation=True)
                ctx.cov["design_step_detects_insert_ignoring_block_level_delete"] = bool(r["violated"])
                if not r["violated"]:
                    raise vlib.Infra("sensitivity: Insert ignoring a block-level delete no longer violates the refinement")
            for k in ("failed_tx", "self_transfers", "accounts_emptied", "accounts_funded_from_zero", "delete_then_recreate_in_one_tx",
                      "drain_then_exact_refill_across_txs", "drain_refill_drain_across_txs"):
                if feats[k] == 0:
                    raise vlib.Infra("vacuous: no recorded block exercised " + k)
        stage(ctx, "design(tlc)")
        fails = vlib.validate_scenarios(ctx, "Transfer_Trace", "Transfer_Trace.cfg", files, label="tv", signature_fn=sig)
        stage(ctx, "validate(tlc)")
    finally:
        if th:
            th.join()
    if num["exc"]:
        raise num["exc"]
    fails += num["fails"]
    stage(ctx, "64-bit(apalache, overlapped)")
    for f in files + bfiles:
        os.remove(f)
    vlib.report_failures(ctx, fails, describe)
    ctx.cov["rule"] = ("seeded chains of 1-3 blocks x 1-4 transactions x 1-16 real Transfer actions among 3-4 accounts (ed25519 auth "
                       "with sponsor = actor, or test auth with any sponsor); genesis allocations absent / zero / one fee / a few "
                       "fees / random; values chosen around the running balances (whole balance, one more, one less, 1, 0, "
                       "self-transfers 25%, over-long memo); every block executed with 1 core and with 2-4 cores; "
                       "distinct_nontrivial = distinct (balances, transactions) of blocks containing a multi-action, failing or "
                       "self-transfer transaction. big_* = scenarios with balances near 2^64 evaluated by Apalache")
    ctx.assumptions += ["TLC-validated scenarios keep every value below 2^30, so overflow rejection is decided only in the "
                        "Apalache-evaluated 64-bit scenarios",
                        "fees are taken as reported in Result.Fee (the rule fee = units x prices is bound by C03/C12/C13)"]
