"""C20 - the consensus wrapper (package snow) drives the chain through a valid block lifecycle.
design : SnowVM_MC - every snowman-consistent engine schedule over a 7-block forking tree with small caches,
         async accept processing at every interleaving                                  [TLC exhaustive]
binding: (tv) seeded snowman-consistent engine runs on the real snow.VM (gated async accepter, cache sizes 1..4),
         every call/callback/notification/lookup validated line by line against SnowVM, all invariants evaluated
         on every step"""
import importlib.util
import os
import vlib

LEVEL = "model_checking"
_spec = importlib.util.spec_from_file_location("_snowvm", os.path.join(os.path.dirname(__file__), "_snowvm.py"))
S = importlib.util.module_from_spec(_spec)
_spec.loader.exec_module(S)


def run(ctx):
    if ctx.only is None:
        vlib.tlc_mc(ctx, "SnowVM_MC", ctx.pick("SnowVM_MC_quick.cfg", "SnowVM_MC.cfg"), timeout=3000)
        if not ctx.quick:
            vlib.tlc_mc(ctx, "SnowVM_MC", "SnowVM_MC_backlog2.cfg", label="backlog2", timeout=3000)
            # sensitivity / observation: an accepted window smaller than the accept backlog hands Chain.AcceptBlock a zero parent
            r = vlib.tlc_mc(ctx, "SnowVM_MC", "SnowVM_MC_smallfifo.cfg", label="smallfifo", expect_violation=True)
            ctx.cov["design_step_detects_fifo_smaller_than_backlog"] = bool(r["violated"] and "AcceptParentPopulated" in r["violated"])
            if not ctx.cov["design_step_detects_fifo_smaller_than_backlog"]:
                raise vlib.Infra("sensitivity: SnowVM_MC_smallfifo no longer violates AcceptParentPopulated")
    fails, stats = S.record_and_validate(ctx, ["ready"], ctx.pick(80, 1200), ctx.pick(50, 70), "ready")
    if ctx.only is None:
        for k in ("ev_reject", "ev_build", "ev_dequeue", "ev_process", "ev_accept", "ev_acceptfail", "mid_accept_probes"):
            if not stats.get(k):
                raise vlib.Infra("vacuous run: no %s event recorded" % k)
    vlib.report_failures(ctx, fails, S.describe)
    ctx.cov["rule"] = ("tv: seeded snowman-consistent engine schedules (parse new/known/orphan blocks, build, verify, accept with "
                       "transitive rejection of conflicts, set preference, gated async accept processing with backlog up to "
                       "cache-1; lookups from a second goroutine while Accept is inside the chain index write; the chain index refusing a write once, "
                       "then the accept retried) against a real snow.VM with parsed-cache 1..3 and accepted-window 2..4; a scenario is "
                       "non-trivial when a fork was decided (an accept followed by a rejection); distinct = distinct "
                       "(event,result,#callbacks,#notifications) sequences")
    ctx.assumptions += ["the engine is snowman-consistent: verifies only children of processing/last-accepted blocks, accepts only a "
                        "processing child of the last accepted block, rejects every conflicting block (parents first) before its "
                        "next decision, never finalises an invalid block",
                        "async accept processing interleaves with engine calls at call boundaries (Chain.AcceptBlock is gated by the driver)",
                        "the accepted-window cache is larger than the accept backlog (observation in notes/C20.md)"]
