"""C19 - the block index keeps a complete, bounded window of accepted blocks.
design : ChainIndex_MC - tables written/pruned as UpdateLastAccepted / SaveHistorical / cleanupOnStartup do, stepped
         with the property monitor (window, last accepted, must-be-retrievable set); invariants AcceptSucceeds,
         WindowRetrievable, Consistent, Bounded                                              [TLC exhaustive]
         (thorough: the model of UpdateLastAccepted as originally coded must violate AcceptSucceeds)
         crash points: CrashAccept / CrashSave (the durable step of a call is atomic: reopened image = before or after
         the whole call); thorough: a crash between two batch writes (seeded variant) must violate WindowRetrievable
binding: (tv) crash family: the database handed to the index fails every durable write after the k-th one of an
         accept / gap accept / historical save (k = 0..3), the index is reopened on the underlying memdb and observed;
         every history of N steps over {accept next, accept after a gap, save below the tip (inside / below
         the window), restart with same / other window} for windows 0..3, plus seeded random long histories, run
         on the real ChainIndex over memdb; after every call all four getters are queried for every height and
         the observed tables are loaded into the specification's variables, on which the invariants are evaluated"""
import json
import os
import vlib

LEVEL = "model_checking"
PKG = "chainindex"
FILES = ["verif_chainindex_test.go"]
KF_W0 = "bounded:window-0-keeps-every-block"


def window_at(fail):
    w = fail.get("reset", {}).get("w")
    for l in fail.get("scenario", []):
        if l.get("ev") in ("restart", "reset", "crash"):
            w = l.get("w")
    return w


def sig(fail):
    ev = fail.get("event", {})
    inv = fail.get("invariant")
    if inv == "AcceptSucceeds":
        return "accept:fails-with-not-found" if "not found" in ev.get("errtext", "") else "accept:fails"
    if inv == "BoundedAll" and window_at(fail) == 0:
        return KF_W0
    return "%s:%s" % (ev.get("ev"), inv or "observation-rejected")


def describe(f):
    ev = dict(f.get("event", {}))
    hist = [(l.get("ev"), l.get("h", l.get("w"))) for l in f.get("scenario", [])][-12:]
    return "window=%s history(tail)=%s failing line %s" % (window_at(f), hist, json.dumps(ev)[:400])


def binding_tv(ctx, scenarios, depth, sysdepth):
    rc, out = vlib.go_driver(ctx, PKG, "^TestVerifChainIndexRecord$", files=FILES, timeout=ctx.pick(300, 900),
                             env={"VERIF_SCENARIOS": scenarios, "VERIF_DEPTH": depth, "VERIF_SYSDEPTH": sysdepth})
    if rc != 0:
        raise vlib.Infra("chainindex recorder failed:\n" + out[-3000:])
    sp = os.path.join(ctx.work, "out", "record_stats.json")
    stats = json.load(open(sp))
    os.remove(sp)
    crs = vlib.scenario_files(ctx, "crs-")
    files = vlib.scenario_files(ctx, "sys-") + crs + vlib.scenario_files(ctx, "rnd-")
    expect = 4 * 7 ** sysdepth + scenarios + 500
    if len(files) < (1 if ctx.only is not None else expect):
        raise vlib.Infra("recorder wrote %d of %d scenarios" % (len(files), expect))
    distinct = set()
    w0 = []
    for f in files:
        lines = vlib.read_ndjson(f)
        evs = [l["ev"] for l in lines]
        gap = any(a["ev"] == "accept" and a["h"] > b["last"] + 1 for a, b in zip(lines[2:], lines[1:]))
        if gap or "save" in evs or "restart" in evs or "crash" in evs:
            distinct.add(hash(json.dumps([(l["ev"], l.get("h", l.get("w"))) for l in lines])))
        if lines[0]["w"] == 0 and "restart" not in evs and len(lines) > 3 and len(w0) < 1:
            w0.append(f)
    ctx.add("evaluations", len(files))
    ctx.add("distinct_nontrivial", len(distinct))
    ctx.sample({"kind": "recorded-trace", "first_lines": vlib.read_ndjson(files[len(files) // 2])[:5]})
    ctx.add("crash_histories", len(crs))
    ctx.add("tv_crash_hit_but_call_took_effect", stats.get("crash_hit_but_call_took_effect", 0))
    for k in ("accept_with_prune_target_missing", "save_below_window", "restart_with_other_window", "crash_events",
              "crash_injected_failure_hit", "crash_hit_and_call_lost"):
        ctx.add("tv_" + k, stats.get(k, 0))
        if ctx.only is None and stats.get(k, 0) == 0:
            raise vlib.Infra("vacuity: recorded histories never exercised " + k)
    ctx.add("tv_accept_errors_observed", stats.get("accept_errors", 0))
    fails = vlib.validate_scenarios(ctx, "ChainIndex_Trace", "ChainIndex_Trace.cfg", files, label="tv", signature_fn=sig)
    # known finding (window 0): the same module with the un-exempted bound on one window-0 history
    if w0 and ctx.only is None:
        before = ctx.cov.get("traces_validated_against_impl", 0)
        fails += vlib.validate_scenarios(ctx, "ChainIndex_Trace", "ChainIndex_Trace_strict.cfg", w0, label="tv-strict",
                                         signature_fn=sig)
        ctx.cov["traces_validated_against_impl"] = before      # not counted twice
    for f in files:
        os.remove(f)
    return fails


def run(ctx):
    if ctx.only is None:
        vlib.tlc_mc(ctx, "ChainIndex", ctx.pick("ChainIndex_MC_quick.cfg", "ChainIndex_MC.cfg"), coverage=True,
                    allow_zero=("AcceptO", "IAcceptAsOriginallyCoded", "NextO", "CrashAcceptTwoBatches", "NextT"))
        if not ctx.quick:
            r = vlib.tlc_mc(ctx, "ChainIndex", "ChainIndex_MC_original.cfg", label="orig", expect_violation=True)
            ctx.cov["design_step_detects_pre_fix_UpdateLastAccepted"] = bool(r["violated"])
            if not r["violated"] or "AcceptSucceeds" not in r["violated"]:
                raise vlib.Infra("sensitivity: the model of the pre-fix UpdateLastAccepted no longer violates AcceptSucceeds")
            r = vlib.tlc_mc(ctx, "ChainIndex", "ChainIndex_MC_twobatch.cfg", label="twobatch", expect_violation=True)
            ctx.cov["design_step_detects_non_atomic_accept"] = bool(r["violated"])
            if not r["violated"] or "WindowRetrievable" not in r["violated"]:
                raise vlib.Infra("sensitivity: a crash between two batch writes of an accept no longer violates WindowRetrievable")
    fails = binding_tv(ctx, ctx.pick(300, 3000), ctx.pick(40, 60), ctx.pick(3, 4))
    vlib.report_failures(ctx, fails, describe)
    ctx.cov["rule"] = ("tv: (a) all 7^N op sequences (N=3 quick, 4 thorough) after accept(0) over {accept tip+1, accept tip+3, "
                       "save tip-1, save tip-3, restart same window, restart window 1, restart window 3} for initial windows "
                       "0..3; (b) seeded random histories of 40-60 ops, windows 0..5, gaps 2..7, saves anywhere below the tip. "
                       "non-trivial = contains a gap accept, a historical save or a restart; distinct = distinct (op, arg) sequences")
    ctx.assumptions += ["healthy database except for the injected crash (memdb behind a write-counting wrapper; a crash = every "
                        "durable write after the k-th one of the call fails, then reopen on the underlying memdb)",
                        "one chain: a height has one block (id is a function of height); accepted heights increase; "
                        "the first accepted block is genesis; historical saves are below the last accepted height",
                        "the bound on retained blocks is evaluated after an accept or a restart (the points where pruning "
                        "runs), not between a historical save and the next accept",
                        "background db.Compact goroutines are not synchronised with (memdb compaction is a no-op)"]
