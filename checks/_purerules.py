"""Helpers shared by the "pure rule" checks (C28, C33, C34, C39, C40) - checks/_purerules.py.

These checks bind a stateless Go function to a TLA+ operator row by row:
  * rows_tv():   the Go driver logs one ndjson line per call of the real function ({"ev":"row", ...}); a
                 <Mod>_Trace spec evaluates the operator / property on every line.  Unlike a stateful trace a bad
                 row does not make the rest unexplainable, so the trace spec prints
                 <<"ROW_REJECTED", line, reason>> and keeps going; every rejected row is reported.
                 The file is split into parts validated by parallel TLC processes (-workers 1 each).
  * rows_num():  rows whose values exceed TLC's 32-bit integers are rendered as literal conjuncts over the
                 same operator module and evaluated by Apalache (one verification condition per row; the first
                 FALSE row is named by Apalache and confirmed alone, the rows behind it are re-run, up to a cap).
Nothing here decides a verdict in Python: a row is good or bad because TLC / Apalache evaluated the TLA+ text.
"""
import concurrent.futures
import json
import os
import re
import shutil

import vlib

_REJ = re.compile(r'<<"ROW_REJECTED", (\d+), "([^"]*)">>')
_NOTE = re.compile(r'<<"ROW_(DRIFT|NOTE)", (\d+)(?:, "([^"]*)")?>>')


def stage(ctx, name):
    """log elapsed wall time per stage (also kept in the evidence) - the machine is shared, timings vary"""
    import time
    now = time.time()
    last = getattr(ctx, "_stage_t", ctx.t0)
    ctx._stage_t = now
    ctx.cov.setdefault("stage_wall_s", {})[name] = round(now - last, 1)
    vlib.log("stage %-14s %.1fs" % (name, now - last))


class Background:
    """run fn(*a, **kw) in a thread; result() re-raises its exception (Infra stays Infra)"""

    def __init__(self, fn, *a, **kw):
        self._ex = concurrent.futures.ThreadPoolExecutor(max_workers=1)
        self._f = self._ex.submit(fn, *a, **kw)

    def result(self):
        try:
            return self._f.result()
        finally:
            self._ex.shutdown(wait=False)


def read_rows(path):
    with open(path) as fh:
        return [l for l in fh.read().splitlines() if l.strip()]


def rows_tv(ctx, module, cfg, path, label, parts=4, timeout=900, min_part=4000):
    """Validate every row of an ndjson file (first line {"ev":"reset"}) with the row-wise trace spec.
    Returns (rejected, notes, nrows): rejected = [(row_obj, reason, line_no)], notes likewise (non-verdict)."""
    lines = read_rows(path)
    if not lines or json.loads(lines[0]).get("ev") != "reset":
        raise vlib.Infra("row file %s does not start with a reset line" % path)
    rows = lines[1:]
    if not rows:
        raise vlib.Infra("driver produced no rows in %s" % path)
    parts = max(1, min(parts, len(rows) // min_part or 1))
    size = (len(rows) + parts - 1) // parts
    jobs = []
    for p in range(parts):
        chunk = rows[p * size:(p + 1) * size]
        if not chunk:
            continue
        pp = os.path.join(ctx.work, "rows-%s-%d.ndjson" % (label, p))
        with open(pp, "w") as fh:
            fh.write(lines[0] + "\n" + "\n".join(chunk) + "\n")
        jobs.append((p, pp, p * size, len(chunk)))

    def one(job):
        p, pp, off, n = job
        return job, vlib.run_tlc(ctx, "tv-%s-%d" % (label, p), module, cfg, workers=1, env={"TRACE": pp},
                                 timeout=timeout, heap="4g")

    rejected, notes, states = [], [], 0
    with concurrent.futures.ThreadPoolExecutor(max_workers=len(jobs)) as ex:
        results = list(ex.map(one, jobs))
    for (p, pp, off, n), res in results:
        out = res["out"]
        m = re.search(r'TRACE_HWM"?,? ?(\d+)', out)
        if not m or int(m.group(1)) != n + 1 or "Error:" in out:
            raise vlib.Infra("row validation (%s part %d) did not consume its %d rows:\n%s" % (module, p, n, out[-2500:]))
        states += res.get("distinct", 0)
        for mm in _REJ.finditer(out):
            ln = int(mm.group(1))          # line in the part file: 1 = reset, row i is line i+1
            rejected.append((json.loads(rows[off + ln - 2]), mm.group(2), off + ln - 1))
        for mm in _NOTE.finditer(out):
            ln = int(mm.group(2))
            notes.append((json.loads(rows[off + ln - 2]), mm.group(1) + (":" + mm.group(3) if mm.group(3) else ""),
                          off + ln - 1))
        os.remove(pp)
    ctx.add("trace_events_validated", len(rows))
    ctx.add("trace_states", states)
    rejected.sort(key=lambda r: r[2])
    return rejected, notes, len(rows)


def failures_from(ctx, rejected, signature_fn, label, cap=5, only_base=0):
    """Turn rejected rows into the failure dicts vlib.report_failures expects (one replay artefact per
    distinct signature, at most `cap`).  Row numbers are 1-based and double as VERIF_ONLY for --replay."""
    fails, seen = [], set()
    for row, reason, no in rejected:
        sig = signature_fn(row, reason)
        if sig in seen:
            continue
        seen.add(sig)
        f = {"event": row, "invariant": reason, "signature": sig}
        if len(fails) < cap:
            f["replay"] = vlib.save_replay(ctx, {"property": ctx.prop, "seed": ctx.seed, "tier": ctx.tier,
                                                "only": ctx.only if ctx.only is not None else only_base + no, "engine": label, "reason": reason,
                                                "signature": sig, "row": row},
                                           name="%s-seed%d-%s-row%d.json" % (ctx.tier, ctx.seed, label, no))
        fails.append(f)
    return fails


# ----------------------------------------------------------------------------------------------- Apalache
def _apalache_module(name, extends, conj, prelude=""):
    t = ["---- MODULE %s ----" % name, "EXTENDS " + ", ".join(extends), "VARIABLE", "  \\* @type: Int;", "  dummy",
         prelude, "Init == dummy = 0", "Next == UNCHANGED dummy"]
    # One invariant holding every row.  Apalache splits the top-level conjunction into one verification condition
    # per conjunct, in order; "(row) = TRUE" keeps it from splitting a row further, so the index in "state invariant
    # K violated" is the index of the row.  (With several --inv names the conditions are interleaved across the
    # invariants, which is why a single one is used - probed with Apalache 0.58.)
    t.append("AllRows ==\n  /\\ " + "\n  /\\ ".join("(%s) = TRUE" % c for c in conj))
    t.append("====")
    return "\n".join(t) + "\n"


def _apalache(ctx, name, extends, spec_files, conj, label, timeout, prelude=""):
    """Returns None when every row holds, else the index of a row Apalache evaluated to FALSE."""
    d = ctx.sub("apa-" + label)
    for f in spec_files:
        shutil.copy(os.path.join(vlib.SPEC, f), d)
    text = _apalache_module(name, extends, conj, prelude)
    ok, out = vlib.apalache_check(ctx, text, name, "AllRows", label=label, timeout=timeout)
    m = re.search(r"Checking (\d+) state invariants", out)
    if not m or int(m.group(1)) != len(conj):
        raise vlib.Infra("apalache checked %s verification conditions for %d rows:\n%s"
                         % (m.group(1) if m else "no", len(conj), out[-1500:]))
    if ok:
        return None
    m = re.search(r"state invariant (\d+) violated", out)
    if not m:
        raise vlib.Infra("apalache reported an error without naming the invariant:\n" + out[-2000:])
    # Apalache 0.58 checks the verification conditions in the lexicographic order of their numbers
    # (0, 1, 10, 11, ..., 19, 2, 20, ...): position K is row sorted(range(n), key=str)[K] (probed; every row named
    # this way is confirmed alone by rows_num)
    return sorted(range(len(conj)), key=str)[int(m.group(1))]


def rows_num(ctx, extends, spec_files, rows, label, chunk=25, cap=2, timeout=900, procs=4, prelude=""):
    """rows = [(conjunct_text, row_obj)].  Returns list of row_objs whose conjunct Apalache evaluated to FALSE
    (at most `cap` per process; the number of rows left unevaluated after reaching the cap is recorded).
    Every row named as FALSE is confirmed by evaluating it alone."""
    if not rows:
        raise vlib.Infra("no rows for the num engine (%s)" % label)
    procs = max(1, min(procs, (len(rows) + chunk - 1) // chunk))
    groups = [rows[i::procs] for i in range(procs)]

    def run_group(gi):
        mybad, done, pending, rnd = [], 0, list(groups[gi]), 0
        while pending:
            rnd += 1
            k = _apalache(ctx, "Rows", extends, spec_files, [c for c, _ in pending], "%s-g%d-r%d" % (label, gi, rnd),
                          timeout, prelude)
            if k is None:
                return mybad, done + len(pending), 0
            if _apalache(ctx, "Rows", extends, spec_files, [pending[k][0]], "%s-g%d-r%d-confirm" % (label, gi, rnd),
                         timeout, prelude) != 0:
                raise vlib.Infra("apalache named row %d as violated but the row alone holds: %s" % (k, pending[k][0]))
            mybad.append(pending[k][1])
            done += 1
            pending = pending[:k] + pending[k + 1:]     # nothing is assumed about the other rows: all are re-run
            if len(mybad) >= cap:
                return mybad, done, len(pending)
        return mybad, done, 0

    with concurrent.futures.ThreadPoolExecutor(max_workers=len(groups)) as ex:
        res = list(ex.map(run_group, range(len(groups))))
    bad, evaluated = [], 0
    for mybad, done, left in res:
        bad += mybad
        evaluated += done
        if left:
            ctx.add("num_rows_unevaluated_after_failures", left)
    ctx.add("num_rows_evaluated_by_apalache", evaluated)
    return bad


def tla_seq(xs):
    return "<<" + ", ".join(tla_seq(x) if isinstance(x, list) else str(x) for x in xs) + ">>"
