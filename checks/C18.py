"""C18 - a restarted node recovers the accepted chain after a crash at any point.
design : SnowVMRestart_MC - accept pipeline (index write, queue, results write, state commit, notification, lastProcessed)
         with Crash enabled in every state and Restart as implemented; known-finding regions delimited by KF_ predicates;
         the restart the reprocessing design intends satisfies the pure properties                 [TLC exhaustive]
binding: (tv) the real hypersdk VM on an on-disk data directory in child processes that are killed with os.Exit (no
         Shutdown, no Close) while the async accepter is parked at a chosen block with 0..d further blocks accepted, then
         restarted on the same directory; every incarnation's Initialize result, last accepted block, state root,
         execution results and notifications are validated against SnowVMRestart"""
import json
import os
import re
import vlib

LEVEL = "model_checking"
PKG = "vm"
FILES = ["verif_crash_test.go"]
KF = {  # spec slug -> (KNOWN_FINDINGS signature, text the failure message must contain)
    "C18_restart_panics_one_uncommitted_block": ("restart-panics-one-accepted-block-uncommitted", "nil pointer"),
    "C18_restart_refused_uncommitted_blocks": ("restart-refused-two-or-more-accepted-blocks-uncommitted",
                                               "cannot extract latest output block from invalid state"),
    "C18_committed_block_not_reannounced": ("committed-block-not-reannounced-after-restart", ""),
}
SNOW_FILES = ["verif_snowvm_test.go", "verif_snowcrash_test.go"]


def sig(f):
    ev = f.get("event", {})
    if f.get("invariant"):
        return "%s:%s" % (ev.get("ev"), f["invariant"])
    if ev.get("ev") == "start" and ev.get("res") != "ok":
        if "Compact start" in ev.get("msg", ""):
            return "restart-fails-after-any-unclean-shutdown-compact-nil-limit"
        return "restart-fails:%s" % ev.get("res")
    return "%s:%s:step-not-a-behaviour-of-SnowVMRestart" % (ev.get("ev"), ev.get("res"))


def describe(f):
    return "scenario %s line %s: %s (phases %s)" % (os.path.basename(f.get("scenario_file", "?")), f.get("line_in_scenario"),
                                                     json.dumps(f.get("event"))[:400], json.dumps(f.get("reset", {}).get("phases")))


def validate(ctx, files, label):
    """vlib.validate_scenarios plus collection of the KF_HIT marks the trace spec prints when it explains a line by a
    recorded finding (the spec keeps validating the rest of the run)."""
    failures, hits = [], []
    pending = list(files)
    ok = 0
    rounds = 0
    while pending:
        rounds += 1
        path, index, n = vlib.concat_traces(ctx, pending, out_name="trace-%s-%d.ndjson" % (label, rounds))
        res = vlib.tlc_trace(ctx, "SnowVMRestart_Trace", "SnowVMRestart_Trace.cfg", path, n, label="%s-%d" % (label, rounds))
        for slug, line in set(re.findall(r'"KF_HIT", "(\w+)", (\d+)', res["out"])):
            first, f, cnt = vlib.scenario_of(index, int(line))
            lines = vlib.read_ndjson(f)
            hits.append({"slug": slug, "scenario_file": f, "line_in_scenario": int(line) - first + 1,
                         "event": lines[int(line) - first], "reset": lines[0], "scenario_trace": lines})
        if res["accepted"]:
            ok += len(index)
            break
        bad = min(res["hwm"] + 1, n) if res["hwm"] >= 0 else 1
        first, f, cnt = vlib.scenario_of(index, bad)
        lines = vlib.read_ndjson(f)
        rel = bad - first
        ev = lines[rel] if 0 <= rel < len(lines) else {}
        fail = {"scenario_file": f, "line_in_scenario": rel + 1, "event": ev, "invariant": res["invariant"], "reset": lines[0]}
        fail["signature"] = sig(fail)
        fail["replay"] = vlib.save_replay(ctx, {"property": ctx.prop, "seed": ctx.seed, "tier": ctx.tier, "only": lines[0].get("no"),
                                               "failing_line": ev, "invariant": res["invariant"], "signature": fail["signature"],
                                               "scenario_trace": lines, "tlc_tail": res["out"][-2000:]},
                                     name="%s-seed%d-%s.json" % (ctx.tier, ctx.seed, os.path.basename(f)))
        failures.append(fail)
        k = [i for i, (a, ff, c) in enumerate(index) if ff == f][0]
        ok += k
        pending = [ff for (a, ff, c) in index[k + 1:]]
        if len(failures) >= 5 and pending:
            vlib.log("more than 5 rejected scenarios; %d scenarios left unvalidated" % len(pending))
            ctx.cov["scenarios_unvalidated_after_failures"] = len(pending)
            break
    ctx.add("traces_validated_against_impl", ok)
    return failures, hits


def run(ctx):
    if ctx.only is None:
        vlib.tlc_mc(ctx, "SnowVMRestart_MC", ctx.pick("SnowVMRestart_MC_quick.cfg", "SnowVMRestart_MC.cfg"))
        vlib.tlc_mc(ctx, "SnowVMRestart_MC", "SnowVMRestart_MC_snow.cfg", label="snow")
        if not ctx.quick:
            r = vlib.tlc_mc(ctx, "SnowVMRestart_MC", "SnowVMRestart_MC_nokf.cfg", label="nokf", expect_violation=True)
            if not (r["violated"] and "RestartSucceeds" in r["violated"]):
                raise vlib.Infra("sensitivity: the as-coded restart model no longer violates RestartSucceeds outside the KF allowance")
            ctx.cov["design_step_as_coded_restart_violates_RestartSucceeds"] = True
            vlib.tlc_mc(ctx, "SnowVMRestart_MC", "SnowVMRestart_MC_intended.cfg", label="intended")
            r = vlib.tlc_mc(ctx, "SnowVMRestart_MC", "SnowVMRestart_MC_snow_nokf.cfg", label="snow-nokf", expect_violation=True)
            if not (r["violated"] and "AtLeastOnceInOrder" in r["violated"]):
                raise vlib.Infra("sensitivity: the snow-level restart model no longer violates AtLeastOnceInOrder without the KF allowance")
    run_vm = ctx.only is None or ctx.only < 1000
    run_snow = ctx.only is None or ctx.only >= 1000
    outdir = os.path.join(ctx.work, "out")
    files = []
    stats = {}
    if run_snow:
        # snow-level family: driver-owned durable image, crash = snapshot between any two durable writes
        snow_n = ctx.pick(40, 600)
        rc, out = vlib.go_driver(ctx, "snow", "^TestVerifSnowCrashRecord$", files=SNOW_FILES, timeout=900,
                                 env={"VERIF_SCENARIOS": snow_n, "VERIF_BLOCKS": ctx.pick(4, 6)})
        if rc != 0:
            raise vlib.Infra("snow-level crash driver failed:\n" + out[-3000:])
        sfiles = vlib.scenario_files(ctx, "sn")
        if len(sfiles) < (1 if ctx.only is not None else snow_n):
            raise vlib.Infra("snow-level driver wrote %d of %d scenarios" % (len(sfiles), snow_n))
        sstats = json.load(open(os.path.join(outdir, "stats_snow.json")))
        for k, v in sstats.items():
            ctx.add("snowlevel_" + k, v)
        if ctx.only is None and not sstats.get("crash_with_uncommitted_blocks"):
            raise vlib.Infra("vacuous run: no snow-level crash with accepted-but-uncommitted blocks")
        files += sfiles
    scenarios = ctx.pick(14, 90)
    for attempt in (1, 2):
        if not run_vm:
            rc = 0
            break
        # the reference chain is built with vmtest helpers that give the builder 1 s to react: on an overloaded machine the
        # harness itself can time out, so one retry before giving up (a harness failure is never a verdict)
        if os.path.isdir(outdir):
            for f in os.listdir(outdir):
                if (f.endswith(".ndjson") and f.startswith("sc")) or f == "stats.json":
                    os.remove(os.path.join(outdir, f))
        rc, out = vlib.go_driver(ctx, PKG, "^TestVerifCrashRecord$", files=FILES, timeout=1500,
                                 env={"VERIF_SCENARIOS": scenarios, "VERIF_BLOCKS": ctx.pick(5, 8), "VERIF_PAR": 8})
        if rc == 0:
            break
        vlib.log("crash driver attempt %d failed (harness):\n%s" % (attempt, out[-1500:]))
    if rc != 0:
        raise vlib.Infra("crash driver failed:\n" + out[-3000:])
    if run_vm:
        vfiles = vlib.scenario_files(ctx, "sc")
        if len(vfiles) < (1 if ctx.only is not None else scenarios):
            raise vlib.Infra("driver wrote %d of %d scenarios" % (len(vfiles), scenarios))
        files += vfiles
    if run_vm:
        stats = json.load(open(os.path.join(outdir, "stats.json")))
        for k, v in stats.items():
            ctx.add("driver_" + k, v)
        if ctx.only is None and (not stats.get("ev_crash") or stats.get("ev_start", 0) <= stats.get("ev_reset", 0)):
            raise vlib.Infra("vacuous run: no crash/restart recorded")
    shapes = set()
    for f in files:
        lines = vlib.read_ndjson(f)
        if any(l["ev"] == "crash" for l in lines):
            shapes.add(json.dumps(lines[0]["phases"]))
    ctx.add("evaluations", len(files))
    ctx.add("distinct_nontrivial", len(shapes))
    ctx.sample({"kind": "recorded-crash-run", "lines": vlib.read_ndjson(files[min(5, len(files) - 1)])[:12]})
    fails, hits = validate(ctx, files, "crash")
    restarts_ok = 0
    for f in files:
        lines = vlib.read_ndjson(f)
        restarts_ok += sum(1 for i, l in enumerate(lines) if l["ev"] == "start" and l["res"] == "ok" and i > 1)
    ctx.cov["restarts_succeeded"] = restarts_ok
    ctx.cov["restarts_explained_by_known_findings"] = len(hits)
    for h in hits:
        known_sig, needle = KF[h["slug"]]
        h["invariant"] = None
        h["signature"] = known_sig if needle in h["event"].get("msg", "") else "%s:unexpected-message" % known_sig
        h["replay"] = vlib.save_replay(ctx, {"property": ctx.prop, "seed": ctx.seed, "tier": ctx.tier, "only": h["reset"].get("no"),
                                            "failing_line": h["event"], "signature": h["signature"],
                                            "scenario_trace": h["scenario_trace"]},
                                      name="%s-seed%d-kf-%s.json" % (ctx.tier, ctx.seed, os.path.basename(h["scenario_file"])))
    for f in files:
        os.remove(f)
    vlib.report_failures(ctx, fails + hits, describe)
    ctx.cov["rule"] = ("tv: crash matrix over a chain of N fee-paying blocks: kill (os.Exit, no Shutdown/Close) with the accepter idle "
                       "after m blocks, or parked inside the notification of block k - before (state of k committed, subscriber not "
                       "told) or after the subscriber saw k - with 0..d further blocks accepted and queued; restart on the same "
                       "directory, continue to N, clean stop; seeded double-crash runs. snow level: real snow.VM over a driver-owned durable "
                       "image (chainindex on memdb, committed state height, subscriber log) whose index write / state commit / "
                       "notification are gates released by a seeded scheduler; crash = snapshot of the image between any two durable "
                       "writes, restart from the snapshot; distinct = distinct phase lists containing a crash")
    ctx.assumptions += ["crash = process death (pebble writes are synchronous): no torn writes / lost fsyncs",
                        "snow-level family: the Chain commits state in AcceptBlock and restarts from its committed state, as vm.VM does",
                        "crash points inside vm.AcceptBlock (between the execution-result write, validityWindow.Accept and CommitToDB) "
                        "are covered by the design step only; on disk they differ from the covered points only in resH = stateH + 1",
                        "single chain (no forks), blocks are valid"]
