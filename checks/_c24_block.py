"""Block-level part of C24: the set of keys real Processor.Execute requests from the parent view (recording wrapper)
must lie inside chain metadata + declared keys + sponsor balance keys, and an injected read failure on a needed key
must fail the block (validated by Block_Trace: ReadDiag / FailDiag)."""
import importlib.util, os
import vlib
_s = importlib.util.spec_from_file_location("_chain", os.path.join(os.path.dirname(__file__), "_chain.py"))
ch = importlib.util.module_from_spec(_s)
_s.loader.exec_module(ch)


def run_block_level(ctx, scenarios):
    files = ch.record(ctx, "^TestVerifChainExec$", "c24", scenarios, maxtxs=5)
    nfail = 0
    for f in files:
        for l in vlib.read_ndjson(f):
            if l.get("ev") == "block" and l.get("failkey"):
                nfail += 1
    ctx.add("block_runs_with_injected_read_failure", nfail)
    ch.stats(ctx, files)
    if ctx.only is None and nfail == 0:
        raise vlib.Infra("vacuous: no read failure was injected")
    return ch.validate(ctx, files, "c24-block")
