"""C33 - the largest-fitting-set selector returns a consistent fitting subset (fees/set.go:LargestSet).
design : RulesLargestSet_MC - TLC evaluates the postcondition Post on the statement-level transcription for every
         input of the boundary domain (<= MaxN vectors, 2 active dimensions 0..3, limits 0..3)      [TLC exhaustive]
binding: (tv)  the Go driver runs the real fees.LargestSet on the *same complete domain*, on the recorded leads and
               on seeded random 5-dimensional rows and logs (dims, lim, idx, tot); TLC evaluates Post on every row
         (num) rows with values around 2^63 / 2^64 are evaluated against the same Post module by Apalache"""
import json
import os
import sys

sys.path.insert(0, os.path.dirname(os.path.abspath(__file__)))
import _purerules as _rules  # noqa: E402
import vlib  # noqa: E402

LEVEL = "model_checking"
PKG = "fees"
FILES = ["verif_largestset_test.go"]


# typed constructors: Apalache's type checker is several times faster on V(1,2,3,4,5) than on the ambiguous
# tuple-or-sequence literal <<1,2,3,4,5>> (probed)
def _ctor(name, n, elem, res):
    args = ",".join("a%d" % i for i in range(n))
    return "\\* @type: (%s) => %s;\n%s%s == <<%s>>" % (",".join([elem] * n), res, name, "(%s)" % args if n else "", args)


PRELUDE = "\n".join([_ctor("V", 5, "Int", "Seq(Int)")] + [_ctor("I%d" % n, n, "Int", "Seq(Int)") for n in range(0, 5)]
                    + [_ctor("L%d" % n, n, "Seq(Int)", "Seq(Seq(Int))") for n in range(0, 5)])


def _v(x):
    return "V(%s)" % ",".join(map(str, x))


def _i(x):
    return "I%d" % len(x) + ("(%s)" % ",".join(map(str, x)) if x else "")


def _l(x):
    return "L%d" % len(x) + ("(%s)" % ",".join(_v(v) for v in x) if x else "")


def sig(row, reason):
    return "largestset:" + reason


def run(ctx):
    max_n, max_v = 3, ctx.pick(2, 3)

    def design():
        # the cfg whose input domain the driver replays completely (quick: values 0..2, thorough: 0..3)
        mc = vlib.tlc_mc(ctx, "RulesLargestSet_MC", ctx.pick("RulesLargestSet_MC_quick.cfg", "RulesLargestSet_MC_mid.cfg"))
        runs = [mc]
        if not ctx.quick:   # design only: 4 vectors (1.1M inputs)
            runs.append(vlib.tlc_mc(ctx, "RulesLargestSet_MC", "RulesLargestSet_MC.cfg", label="n4"))
        for r in runs:
            if r["violated"]:
                raise vlib.Infra("design step: the transcription of the (fixed) selector violates its postcondition: %s"
                                 % r["violated"])
        if not ctx.quick:
            r = vlib.tlc_mc(ctx, "RulesLargestSet_MC", "RulesLargestSet_MC_original.cfg", label="orig", expect_violation=True)
            ctx.cov["design_step_detects_pre_fix_compaction"] = bool(r["violated"])
            if not r["violated"]:
                raise vlib.Infra("sensitivity: the model of the pre-fix compaction loop no longer violates Post")
        return mc

    mcjob = _rules.Background(design) if ctx.only is None else None
    rc, out = vlib.go_driver(ctx, PKG, "^TestVerifLargestSetRecord$", files=FILES,
                             env={"VERIF_MAXN": max_n, "VERIF_MAXV": max_v, "VERIF_MAXL": 3,
                                  "VERIF_RANDOM": ctx.pick(2000, 40000), "VERIF_BIG": ctx.pick(15, 300)})
    outd = os.path.join(ctx.work, "out")
    sp = os.path.join(outd, "largestset_summary.json")
    if rc != 0 or not os.path.exists(sp):
        raise vlib.Infra("largest-set recorder failed:\n" + out[-3000:])
    summ = json.load(open(sp))
    _rules.stage(ctx, "go-driver")
    mc = mcjob.result() if mcjob else None
    _rules.stage(ctx, "design(tlc)")
    if mc and summ["small"].get("domain") != mc["distinct"]:
        raise vlib.Infra("driver enumerated %s domain rows, the TLC design step %d inputs - domains differ"
                         % (summ["small"].get("domain"), mc["distinct"]))
    fails = []
    small = os.path.join(outd, "rows_small.ndjson")
    big = os.path.join(outd, "rows_big.ndjson")
    nsmall = len(_rules.read_rows(small)) - 1
    # num: rows with 64-bit values, evaluated by Apalache in the background while TLC validates the small rows
    bigrows = [json.loads(l) for l in _rules.read_rows(big)[1:]]
    conj = [("Post(%s, %s, %s, %s)" % (_l(r["dims"]), _v(r["lim"]), _i(r["idx"]), _v(r["tot"])), (i, r))
            for i, r in enumerate(bigrows)]
    num = _rules.Background(_rules.rows_num, ctx, ["RulesLargestSetPost"], ["RulesLargestSetPost.tla"], conj, "big",
                            procs=ctx.pick(1, 6), prelude=PRELUDE) if bigrows else None
    if nsmall > 0:
        rejected, notes, n = _rules.rows_tv(ctx, "RulesLargestSet_Trace", "RulesLargestSet_Trace.cfg", small, "small",
                                            parts=ctx.pick(3, 10))
        _rules.stage(ctx, "tv(tlc)")
        rows = [json.loads(l) for l in _rules.read_rows(small)[1:]]
        nontrivial = set()
        for r in rows:
            if 0 < len(r["idx"]) < len(r["dims"]):
                nontrivial.add(json.dumps([r["dims"], r["lim"]]))
        ctx.add("evaluations", n)
        ctx.add("distinct_nontrivial", len(nontrivial))
        ctx.add("rows_rejected_by_spec", len(rejected))
        ctx.add("rows_equal_to_transcription", n - len(rejected) - len(notes))
        ctx.add("rows_satisfying_post_but_differing_from_transcription", len(notes))
        ctx.add("traces_validated_against_impl", n - len(rejected))
        ctx.cov["exhaustive"] = ctx.only is None
        ctx.sample({"kind": "row (real LargestSet)", "row": rows[min(len(rows) - 1, 4000)]})
        ctx.sample({"kind": "row (real LargestSet)", "row": rows[-1]})
        if notes:
            vlib.log("note: %d rows satisfy the property but differ from the transcription (order drift), e.g. %s"
                     % (len(notes), json.dumps(notes[0][0])[:300]))
        fails += _rules.failures_from(ctx, rejected, sig, "tv")
    if num:
        bad = num.result()
        _rules.stage(ctx, "num(apalache)")
        ctx.add("evaluations", len(bigrows))
        ctx.add("traces_validated_against_impl", len(bigrows) - len(bad))
        ctx.sample({"kind": "64-bit row (Apalache)", "row": bigrows[0]})
        rej = [(r, "post-violated-on-64-bit-row", nsmall + i + 1) for i, r in bad]
        fails += _rules.failures_from(ctx, rej, sig, "num")
    vlib.report_failures(ctx, fails, lambda f: "%s on row %s" % (f["invariant"], json.dumps(f["event"])[:500]))
    ctx.cov["rule"] = ("tv: complete domain of RulesLargestSet_MC (all lists of <= %d vectors <<a,b,0,0,0>>, a,b in 0..%d, "
                       "limits in 0..3, row count cross-checked against TLC's state count) + leads + seeded random rows "
                       "(<= 8 vectors, 5 dimensions, values <= 40); num: seeded rows around 2^32/2^63/2^64. A row is "
                       "non-trivial when the real selector skipped at least one vector and selected at least one; "
                       "distinct by (dims, lim)" % (max_n, max_v))
    ctx.assumptions += ["TLC / Apalache evaluate the TLA+ text correctly; JSON transport of uint64 is exact",
                        "order of the returned indices is not part of the statement (transcription equality is "
                        "reported as evidence only)"]
