"""C28 - address text encoding round-trips and rejects malformed input (codec/address.go).
design : RulesAddress_MC - the complete decision table (prefix x hex validity x decoded length x checksum x case);
         the step-by-step model of the parser conforms to the property on every row                 [TLC exhaustive]
binding: (tv) the Go driver instantiates every row of the same table K times with seeded bytes and the real checksum
         function and records what StringToAddress / UnmarshalText did; strings with checksum / hash material of a full
         address in the wrong place (address ++ any hash suffix, checksum in front / middle / doubled ...) are added; seeded addresses are formatted, lexed back
         into the table's features and re-parsed; TLC decides every recorded row"""
import json
import os
import sys

sys.path.insert(0, os.path.dirname(os.path.abspath(__file__)))
import _purerules as _rules  # noqa: E402
import vlib  # noqa: E402

LEVEL = "model_checking"
PKG = "codec"
FILES = ["verif_address_test.go"]
TOTALS = [0, 1, 3, 4, 5, 9, 36, 37, 38, 44, 70]     # must equal Totals in spec/RulesAddress_MC.cfg


def feat(r):
    return (r["pfx"], r["hex"], r["total"], r["sum"], r["case"])


def sig(row, reason):
    return "address:%s:%s" % (row["kind"], reason)


def run(ctx):
    mc = None
    if ctx.only is None:
        cfg = open(os.path.join(vlib.SPEC, "RulesAddress_MC.cfg")).read()
        if "{%s}" % ", ".join(map(str, TOTALS)) not in cfg:
            raise vlib.Infra("TOTALS in checks/C28.py differs from Totals in RulesAddress_MC.cfg")
        mc = vlib.tlc_mc(ctx, "RulesAddress_MC", "RulesAddress_MC.cfg")
        if mc["violated"]:
            raise vlib.Infra("design step: the model of the (fixed) parser violates the property: " + mc["violated"])
        r = vlib.tlc_mc(ctx, "RulesAddress_MC", "RulesAddress_MC_original.cfg", label="orig", expect_violation=True)
        ctx.cov["design_step_detects_pre_fix_parser"] = bool(r["violated"])
        if not r["violated"]:
            raise vlib.Infra("sensitivity: the model of the pre-fix parser no longer violates the property")
    _rules.stage(ctx, "design(tlc)")
    rc, out = vlib.go_driver(ctx, PKG, "^TestVerifAddressRecord$", files=FILES,
                             env={"VERIF_K": ctx.pick(5, 60), "VERIF_FORMAT": ctx.pick(1000, 20000),
                                  "VERIF_MISPLACED": ctx.pick(20, 400),
                                  "VERIF_TOTALS": ",".join(map(str, TOTALS))})
    outd = os.path.join(ctx.work, "out")
    sp = os.path.join(outd, "address_summary.json")
    if rc != 0 or not os.path.exists(sp):
        raise vlib.Infra("address recorder failed:\n" + out[-3000:])
    summ = json.load(open(sp))
    _rules.stage(ctx, "go-driver")
    path = os.path.join(outd, "rows_address.ndjson")
    rows = [json.loads(l) for l in _rules.read_rows(path)[1:]]
    if not rows:
        raise vlib.Infra("address recorder wrote no rows")
    covered = {feat(r) for r in rows if r["kind"] == "parse"}
    unin = [u for u in summ["uninstantiable"] if u]
    if mc:
        # the table of the design step is covered completely, except rows no string can instantiate:
        # 4 decoded bytes with a right checksum are always 7852b855 - a single hex letter cannot be mixed-case
        for u in unin:
            if not u.endswith("/4/right/mixed"):
                raise vlib.Infra("driver could not instantiate table row " + u)
        if len(covered) + len(unin) != mc["distinct"]:
            raise vlib.Infra("driver covered %d + %d uninstantiable table rows, the design step has %d"
                             % (len(covered), len(unin), mc["distinct"]))
    rejected, notes, n = _rules.rows_tv(ctx, "RulesAddress_Trace", "RulesAddress_Trace.cfg", path, "addr",
                                        parts=ctx.pick(1, 4))
    _rules.stage(ctx, "tv(tlc)")
    ctx.add("evaluations", n)
    # distinct strings; non-trivial = everything but the plain canonical accept path
    nontrivial = {r["s"] for r in rows if r["kind"] in ("parse", "parse-x")
                  and feat(r) != ("0x", "valid", 37, "right", "lower")}
    ctx.add("distinct_nontrivial", len(nontrivial))
    ctx.add("table_rows_covered", len(covered))
    ctx.add("table_rows_uninstantiable", len(unin))
    ctx.add("format_roundtrips", sum(1 for r in rows if r["kind"] == "format"))
    ctx.add("wrong_length_right_checksum_strings", sum(1 for r in rows if r["kind"] == "parse" and r["hex"] == "valid"
                                                       and r["sum"] == "right" and r["total"] != 37))
    ctx.add("misplaced_checksum_strings", sum(1 for r in rows if r["kind"] == "parse-x" and r["sum"] == "wrong"))
    ctx.add("one_digit_off_strings", sum(1 for r in rows if r["kind"] == "parse-x" and r["hex"] == "odd"))
    ctx.add("rows_rejected_by_spec", len(rejected))
    ctx.add("traces_validated_against_impl", n - len(rejected))
    ctx.cov["exhaustive"] = mc is not None
    if ctx.only is None and not (ctx.cov["wrong_length_right_checksum_strings"] and ctx.cov["misplaced_checksum_strings"]
                                 and ctx.cov["one_digit_off_strings"]):
        raise vlib.Infra("vacuity: no wrong-length string with a right checksum / no misplaced-checksum string was tried")
    ctx.sample({"kind": "parse row", "row": next((r for r in rows if r["kind"] == "parse" and r["total"] == 38), rows[0])})
    ctx.sample({"kind": "misplaced-checksum row", "row": next((r for r in rows if r["kind"] == "parse-x"), rows[0])})
    ctx.sample({"kind": "format row", "row": rows[-1]})
    fails = _rules.failures_from(ctx, rejected, sig, "tv")
    vlib.report_failures(ctx, fails, lambda f: "%s: %s" % (f["invariant"], json.dumps(f["event"])[:400]))
    ctx.cov["rule"] = ("every row of the decision table of RulesAddress_MC (2 prefixes x 3 hex kinds x decoded lengths %s x "
                       "checksum right/wrong x case lower/upper/mixed; coverage of the table is cross-checked against "
                       "TLC's state count) instantiated with seeded random bytes and the real checksum, plus strings "
                       "that carry checksum / hash material of a full address in the wrong place (address ++ hash suffix "
                       "of every length 0..32 but 4, hash prefix / middle, checksum in front / in the middle / reversed / "
                       "doubled / followed by extra bytes; features lexed from the string) and canonical texts with one hex "
                       "digit removed or added at the front / back / middle (addresses with and without a leading 0 "
                       "nibble), plus seeded "
                       "address format->lex->parse round trips. distinct = distinct input strings; non-trivial = not the "
                       "canonical well-formed encoding" % TOTALS)
    ctx.assumptions += ["hashing.Checksum (avalanchego) is the definition of the checksum",
                        "the driver's lexer (prefix / case / length / checksum of a formatted string) is trusted",
                        "missing 0x prefix and upper-case digits are not malformed (statement lists wrong length, bad "
                        "checksum, invalid hex); such rows may be accepted or rejected but must parse to the payload"]
