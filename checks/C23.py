"""C23 - the mempool keeps its bounds and ordering under any operation sequence.
design : Mempool_MC - every call sequence over a small universe; invariants UniqueIDs, WithinLimits, SizeIsSum,
         OwnedIsCount, StreamedNotReaddable, PreparedAreStreamed + action properties ExpiryProp, HandOutProp [TLC]
binding: (tv) seeded random single-threaded call sequences (add/remove/expire/pop/has/start/prepare/stream/finish
         with restorable items) recorded from the real Mempool, validated line by line against Mempool.tla with
         every invariant evaluated on every state"""
import json
import os
import vlib

LEVEL = "model_checking"
PKG = "internal/mempool"
FILES = ["verif_mempool_test.go"]
NEED = ("add_of_streamed_item", "add_at_item_limit", "expiry_evicts", "streams", "prepares", "stream_handouts",
        "finish_with_restorable", "finish_with_prepared_batch", "restore_dropped_by_limit", "top_with_visits",
        "top_give_backs", "top_with_concurrent_call")


def sig(fail):
    ev = fail.get("event", {})
    return "%s:%s" % (ev.get("ev"), fail.get("invariant") or "observable-differs-from-Mempool-spec")


def binding_tv(ctx, scenarios, depth):
    rc, out = vlib.go_driver(ctx, PKG, "^TestVerifMempoolRecord$", files=FILES, timeout=ctx.pick(240, 600),
                             env={"VERIF_SCENARIOS": scenarios, "VERIF_DEPTH": depth})
    if rc != 0:
        raise vlib.Infra("mempool recorder failed:\n" + out[-3000:])
    sp = os.path.join(ctx.work, "out", "record_stats.json")
    stats = json.load(open(sp))
    os.remove(sp)
    files = vlib.scenario_files(ctx, "sc-")
    if len(files) < (1 if ctx.only is not None else scenarios):
        raise vlib.Infra("recorder wrote %d of %d scenarios" % (len(files), scenarios))
    distinct = set()
    for f in files:
        lines = vlib.read_ndjson(f)
        evs = [l["ev"] for l in lines]
        restored = any(l["ev"] == "finish" and l["restore"] for l in lines)
        handed = any(l["ev"] == "stream" and l["out"] for l in lines)
        if restored and handed and "add" in evs and ("top" in evs or "topc" in evs):
            distinct.add(hash(json.dumps(lines, sort_keys=True)))
    ctx.add("evaluations", len(files))
    ctx.add("distinct_nontrivial", len(distinct))
    ctx.sample({"kind": "recorded-trace", "first_lines": vlib.read_ndjson(files[0])[:6]})
    for k in NEED:
        ctx.add("tv_" + k, stats.get(k, 0))
        if ctx.only is None and stats.get(k, 0) == 0:
            raise vlib.Infra("vacuity: recorded scenarios never exercised " + k)
    # with a correct mempool the overlapping call blocks until Top returns; informational (not a guard, not an oracle)
    ctx.add("tv_concurrent_call_returned_after_top", stats.get("concurrent_call_returned_after_top", 0))
    fails = vlib.validate_scenarios(ctx, "Mempool_Trace", "Mempool_Trace.cfg", files, label="tv", signature_fn=sig)
    for f in files:
        os.remove(f)
    return fails


def describe(f):
    return "line %s" % json.dumps(f.get("event"))[:500]


def run(ctx):
    if ctx.only is None:
        vlib.tlc_mc(ctx, "Mempool_MC", ctx.pick("Mempool_MC_quick.cfg", "Mempool_MC.cfg"), coverage=ctx.quick,
                    timeout=1500)
    fails = binding_tv(ctx, ctx.pick(200, 4000), ctx.pick(60, 100))
    vlib.report_failures(ctx, fails, describe)
    ctx.cov["rule"] = ("tv: seeded random single-threaded call sequences over 3-8 items, 1-3 sponsors, sizes 1-3, "
                       "expiries 1-5, item limit 1-6, sponsor limit 1..item limit; a scenario is non-trivial when it adds, "
                       "streams at least one item out and finishes a stream with restorable items; distinct = distinct "
                       "full line sequences")
    ctx.assumptions += ["single-threaded callers (the concurrent variant of DESIGN.md is not built; every public call is "
                        "one critical section under m.mu, which the sequential spec models)",
                        "intended streaming protocol: Stream/PrepareStream only between StartStreaming and "
                        "FinishStreaming, one PrepareStream per Stream, restorable items were handed out in this stream",
                        "an item's id determines its sponsor, size and expiry",
                        "Top() is not exercised (not part of the statement's operation list)"]
