"""C34 - balance formatting and parsing round-trip (utils/utils.go:FormatBalance / ParseBalance).
design : RulesBalance_MC - TLC: the decimal rules on balances < 2^31 and every digit count 0..9 (round trip, parse then
         format, trailing zeros)                                                                     [TLC exhaustive]
         RulesBalance_Num - Apalache proves the same round-trip theorems symbolically for ALL uint64 balances and all
         in-range (integer part, fraction, digit count), with a sensitivity invariant that must be violated
binding: (num) the Go driver records FormatBalance / ParseBalance on boundary and seeded 64-bit balances and on decimal
         strings with 0-9 fraction digits; strings are lexed (no arithmetic) into integer part / fraction digits /
         digit count and Apalache evaluates each row against the operators of RulesBalance.tla"""
import json
import os
import re
import shutil
import sys

sys.path.insert(0, os.path.dirname(os.path.abspath(__file__)))
import _purerules as _rules  # noqa: E402
import vlib  # noqa: E402

LEVEL = "model_checking"
PKG = "utils"
FILES = ["verif_balance_test.go"]
_DEC = re.compile(r"^(\d+)(?:\.(\d+))?$")


def lex(s):
    """decimal string -> (integer part, fraction digits as integer, number of fraction digits); (-1,-1,-1) if it is
    not of the form digits[.digits] (notation only: int() of a digit string)"""
    m = _DEC.match(s)
    if not m:
        return -1, -1, -1
    frac = m.group(2) or ""
    return int(m.group(1)), int(frac) if frac else 0, len(frac)


def theorem_64bit(ctx):
    d = ctx.sub("apa-theorem")
    shutil.copy(os.path.join(vlib.SPEC, "RulesBalance.tla"), d)
    text = open(os.path.join(vlib.SPEC, "RulesBalance_Num.tla")).read()
    ok, out = vlib.apalache_check(ctx, text, "RulesBalance_Num", "RoundTripAll64,ParseFormatAll64", label="theorem")
    if not ok:
        raise vlib.Infra("64-bit round-trip theorem does not hold in the specification:\n" + out[-1500:])
    ctx.cov["apalache_64bit_theorem_conditions_proved"] = len(re.findall(r"state invariant \d+ holds", out))
    # non-vacuity: with the same Init a deliberately wrong reading of the digits must be refuted
    ok, out = vlib.apalache_check(ctx, text, "RulesBalance_Num", "SensEightDigits", label="theorem")
    if ok:
        raise vlib.Infra("64-bit theorem run is vacuous: the sensitivity invariant was not violated")
    ctx.cov["apalache_sensitivity_invariant_violated"] = True


def sig(row, reason):
    return "balance:" + reason


def run(ctx):
    thm = None
    if ctx.only is None:
        thm = _rules.Background(theorem_64bit, ctx)
        mc = vlib.tlc_mc(ctx, "RulesBalance_MC", "RulesBalance_MC.cfg")
        if mc["violated"]:
            raise vlib.Infra("design step: the decimal rules violate a theorem: " + mc["violated"])
    rc, out = vlib.go_driver(ctx, PKG, "^TestVerifBalanceRecord$", files=FILES,
                             env={"VERIF_FORMAT": ctx.pick(60, 1500), "VERIF_PARSE": ctx.pick(80, 1500)})
    outd = os.path.join(ctx.work, "out")
    if rc != 0 or not os.path.exists(os.path.join(outd, "balance_summary.json")):
        raise vlib.Infra("balance recorder failed:\n" + out[-3000:])
    _rules.stage(ctx, "design(tlc)+go")
    rows = [json.loads(l) for l in _rules.read_rows(os.path.join(outd, "rows_balance.ndjson"))[1:]]
    if not rows:
        raise vlib.Infra("balance recorder wrote no rows")
    conj = []
    for i, r in enumerate(rows):
        ip, fp, nd = lex(r["s"])
        r["lexed"] = [ip, fp, nd]
        if r["kind"] == "format":
            conj.append(("FormatRowOK(%d, %d, %d, %d)" % (r["bal"], ip, fp, nd), (i, r, "format-not-exact")))
            conj.append(("RoundTripRowOK(%d, %d, %d)" % (r["bal"], r["ok"], r["out"]), (i, r, "round-trip-changes-balance")))
        else:
            if nd < 0:
                raise vlib.Infra("driver generated a non-decimal parse input %r" % r["s"])
            conj.append(("ParseRowOK(%d, %d, %d, %d, %d)" % (ip, fp, nd, r["ok"], r["out"]), (i, r, "parse-not-exact")))
    bad = _rules.rows_num(ctx, ["RulesBalance"], ["RulesBalance.tla"], conj, "rows", procs=ctx.pick(3, 8), cap=2)
    _rules.stage(ctx, "num(apalache)")
    if thm:
        thm.result()
        _rules.stage(ctx, "theorem(apalache)")
    ctx.add("evaluations", len(conj))
    nontrivial = set()
    for r in rows:
        if r["kind"] == "format" and (r["bal"] >= 2 ** 53 or r["lexed"][1] != 0):
            nontrivial.add(("f", r["bal"]))
        elif r["kind"] == "parse" and r["lexed"][2] >= 1:
            nontrivial.add(("p", r["s"]))
    ctx.add("distinct_nontrivial", len(nontrivial))
    ctx.add("format_rows", sum(1 for r in rows if r["kind"] == "format"))
    ctx.add("parse_rows", sum(1 for r in rows if r["kind"] == "parse"))
    ctx.add("balances_above_2^53", sum(1 for r in rows if r["kind"] == "format" and r["bal"] >= 2 ** 53))
    ctx.add("rows_rejected_by_spec", len(bad))
    ctx.add("traces_validated_against_impl", len(conj) - len(bad))
    for kind, pred in (("format", lambda r: r["bal"] >= 2 ** 53), ("parse", lambda r: r["lexed"][2] >= 3)):
        s = next((r for r in rows if r["kind"] == kind and pred(r)), None) or next((r for r in rows if r["kind"] == kind), None)
        if s:
            ctx.sample({"kind": kind + " row", "row": s})
    rejected = [(r, reason, i + 1) for i, r, reason in bad]
    fails = _rules.failures_from(ctx, rejected, sig, "num")
    vlib.report_failures(ctx, fails, lambda f: "%s: %s" % (f["invariant"], json.dumps(f["event"])[:300]))
    ctx.cov["rule"] = ("boundary balances (powers of ten, 2^53-1..2^53+3, 2^63, 2^64-1, ...) and seeded uint64 balances "
                       "through FormatBalance and back through ParseBalance; hand-written and seeded decimal strings "
                       "'<integer part>[.<1-9 digits>]' (integer part < 18446744072 so every fraction is in range) through "
                       "ParseBalance; each row becomes 1-2 literal conjuncts over RulesBalance.tla evaluated by Apalache. "
                       "non-trivial = balance >= 2^53 or non-zero fraction (format), >= 1 fraction digit (parse); distinct "
                       "by balance / string")
    ctx.assumptions += ["Apalache's integer arithmetic; exact JSON transport of uint64 (Go encoding/json, Python int)",
                        "lexing a decimal string into integer part / fraction digits (regex + int()) is notation, not "
                        "arithmetic",
                        "numeric accuracy of a stateless function: claimed only as row-wise checking against its TLA+ "
                        "definition plus the symbolic 64-bit round-trip theorem of that definition"]
