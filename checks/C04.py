"""C04 - the transactional state view behaves like a key-value map with checkpoints.
design: TStateView_MC (implementation-shaped model refines KV)      [TLC exhaustive]
binding: (tv) seeded random op sequences recorded from the real TStateView validated against KV
         (mbt) TLC-generated behaviours of KV replayed on the real TStateView"""
import json
import os
import vlib

LEVEL = "model_checking"
PKG = "state/tstate"
FILES = ["verif_tstate_test.go"]


def sig(f):
    ev = f.get("event", {})
    return "%s:%s" % (ev.get("ev"), f.get("invariant") or "observable-differs-from-KV")


def binding_tv(ctx, restricted, scenarios, depth, label):
    rc, out = vlib.go_driver(ctx, PKG, "^TestVerifTStateRecord$", files=FILES,
                             env={"VERIF_SCENARIOS": scenarios, "VERIF_DEPTH": depth,
                                  "VERIF_SCOPES": "1" if restricted else "0"})
    if rc != 0:
        raise vlib.Infra("tstate recorder failed:\n" + out[-3000:])
    files = vlib.scenario_files(ctx, "sc")
    if len(files) < (1 if ctx.only is not None else scenarios):
        raise vlib.Infra("recorder wrote %d of %d scenarios" % (len(files), scenarios))
    # distinct non-trivial scenarios: contain a remove or rollback after an insert on the same key
    distinct = set()
    for f in files:
        lines = vlib.read_ndjson(f)
        ctx.add("denied_ops_observed", sum(1 for l in lines if l.get("res") == "denied"))
        shape = tuple((l["ev"], l.get("k", ""), l.get("res", "")) for l in lines[1:])
        evs = [l["ev"] for l in lines]
        if "insert" in evs and ("remove" in evs or "rollback" in evs):
            distinct.add(hash(shape))
    ctx.add("evaluations", len(files))
    ctx.add("distinct_nontrivial", len(distinct))
    ctx.sample({"kind": "recorded-trace", "first_lines": vlib.read_ndjson(files[0])[:6]})
    fails = vlib.validate_scenarios(ctx, "TStateView_Trace", "TStateView_Trace.cfg", files, label=label,
                                    signature_fn=sig)
    for f in files:
        os.remove(f)
    return fails


def binding_mbt(ctx, cfg, num, label):
    behs = vlib.tlc_behaviours(ctx, "TStateView_Gen", cfg, num=num, depth=16, label=label)
    uniq = {json.dumps(b, sort_keys=True): b for b in behs}
    behs = list(uniq.values())
    p = os.path.join(ctx.work, "behaviours-%s.json" % label)
    with open(p, "w") as fh:
        json.dump(behs, fh)
    rc, out = vlib.go_driver(ctx, PKG, "^TestVerifTStateReplay$", env={"VERIF_BEHAVIOURS": p}, files=FILES)
    rp = os.path.join(ctx.work, "out", "replay_result.json")
    if rc != 0 or not os.path.exists(rp):
        raise vlib.Infra("tstate replayer failed:\n" + out[-3000:])
    r = json.load(open(rp))
    os.remove(rp)
    if r["behaviours"] != len(behs):
        raise vlib.Infra("replayer consumed %d of %d behaviours" % (r["behaviours"], len(behs)))
    ctx.add("behaviours_replayed_on_impl", r["behaviours"])
    ctx.add("behaviour_steps_replayed", r["steps"])
    ctx.add("traces_validated_against_impl", r["behaviours"] - len(r["mismatches"] or []))
    ctx.sample({"kind": "tlc-behaviour", "steps": [{k: s[k] for k in ("op", "k", "v", "i", "res")} for s in behs[0][:8]]})
    fails = []
    for m in (r["mismatches"] or []):
        b = behs[m["behaviour"]]
        f = {"event": {"ev": m["op"]["op"], "what": m["what"], "got": m["got"], "expected": m["op"]["cur"]},
             "invariant": None}
        f["signature"] = "%s:%s" % (m["op"]["op"], "observable-differs-from-KV")
        f["replay"] = vlib.save_replay(ctx, {"property": ctx.prop, "seed": ctx.seed, "tier": ctx.tier,
                                            "behaviour": b[: m["step"] + 1], "mismatch": m},
                                       name="%s-seed%d-beh%d.json" % (ctx.tier, ctx.seed, m["behaviour"]))
        fails.append(f)
    return fails[:5]


def describe(f):
    return "line %s" % json.dumps(f.get("event"))[:400]


def run(ctx, restricted=False):
    if ctx.only is None:
        vlib.tlc_mc(ctx, "TStateView_MC", ctx.pick("TStateView_MC_quick.cfg", "TStateView_MC.cfg"), coverage=False)
        vlib.tlc_mc(ctx, "TStateView_MC", "TStateView_MC_masks.cfg", label="masks")
        if not ctx.quick:
            r = vlib.tlc_mc(ctx, "TStateView_MC", "TStateView_MC_original.cfg", label="orig", expect_violation=True)
            ctx.cov["design_step_detects_pre_fix_Remove"] = bool(r["violated"])
            if not r["violated"]:
                raise vlib.Infra("sensitivity: the model of the pre-fix Remove no longer violates Refines")
    fails = binding_tv(ctx, restricted, ctx.pick(300, 4000), ctx.pick(40, 80), "tv")
    if ctx.only is None:
        fails += binding_mbt(ctx, "TStateView_Gen.cfg", ctx.pick(300, 3000), "full")
    vlib.report_failures(ctx, fails, describe)
    ctx.cov["rule"] = ("tv: seeded random get/insert/remove/checkpoint/rollback/commit/discard sequences over 1-4 keys, "
                       "3 values, random parent and block-pending values; a scenario is non-trivial when it inserts and "
                       "later removes or rolls back; distinct = distinct (event,key,result) sequences. "
                       "mbt: random walks of KV generated by TLC -simulate, deduplicated")
    ctx.assumptions += ["value sizes fit the key's chunk suffix (C40 covers sizes)",
                        "storage reads succeed (error paths of the parent are exercised by C24)"]
