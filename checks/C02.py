"""C02 - every block the builder produces verifies identically (also binds the builder / admission gates of C07, C09,
C10, C12).  real mempool + real chain.Builder + real TimeValidityWindow; each built block is re-verified by a fresh
Processor in normal operation on the same parent; TLC validates every admit / build line against Block.tla."""
import importlib.util
import os
import vlib

LEVEL = "model_checking"
_s = importlib.util.spec_from_file_location("_chain", os.path.join(os.path.dirname(__file__), "_chain.py"))
ch = importlib.util.module_from_spec(_s)
_s.loader.exec_module(ch)
FILES = ["verif_harness_test.go", "verif_exec_test.go", "verif_rules_test.go", "verif_build_test.go"]


def record_builds(ctx, scenarios):
    files = ch.record(ctx, "^TestVerifChainBuild$", "build", scenarios, files=FILES, prefix="bd")
    nb = nbuilt = pool = skipped = admit_ok = admit_no = 0
    shapes = set()
    sample = None
    for f in files:
        for l in vlib.read_ndjson(f):
            if l["ev"] == "build":
                nb += 1
                nbuilt += len(l["built"])
                pool += len(l["pool"])
                skipped += len(set(l["poolids"])) - len(l["built"])
                if len(l["built"]) >= 1:
                    shapes.add(hash(str([(t["sponsor"], sorted(t["decl"].items()), t["maxfee"], len(t["actions"])) for t in l["txs"]])))
                if sample is None and len(l["built"]) >= 2:
                    sample = {"pool": l["poolids"], "built": l["built"], "hdr": l["hdr"], "cfg": l["cfg"],
                              "build_results": l["bout"]["results"][:3], "verify_err": l["vout"]["err"], "sameroot": l["sameroot"]}
            elif l["ev"] == "admit":
                admit_ok += l["res"] == ""
                admit_no += l["res"] != ""
    ctx.add("evaluations", nb)
    ctx.add("distinct_nontrivial", len(shapes))
    ctx.add("transactions_offered", pool)
    ctx.add("transactions_built", nbuilt)
    ctx.add("transactions_left_out", skipped)
    ctx.add("admitted", admit_ok)
    ctx.add("refused_at_admission", admit_no)
    if sample:
        ctx.sample(sample)
    if ctx.only is None and (nbuilt == 0 or skipped == 0 or admit_no == 0):
        raise vlib.Infra("vacuous: nothing built / nothing left out / nothing refused at admission")
    return files


def run(ctx):
    if ctx.only is None:
        vlib.tlc_mc(ctx, "BlockPar_MC", "BlockPar_MC_quick.cfg", timeout=1500)
    files = record_builds(ctx, ctx.pick(40, 600))
    fails = ch.validate(ctx, files, "build")
    vlib.report_failures(ctx, fails, lambda f: "diag=%s ev=%s built=%s builderr=%r" % (
        f.get("diag"), (f.get("event") or {}).get("ev"), (f.get("event") or {}).get("built"), (f.get("event") or {}).get("builderr")))
    ctx.cov["rule"] = ("seeded chains of 2-4 builds; each mempool holds 0-8 transactions (valid, conflicting on keys/sponsors, the "
                       "same transaction twice, already included by an ancestor, expired, too far in the future, wrong chain id, "
                       "underfunded, max fee below the fee, failing / undeclared actions) under tight or loose block unit limits "
                       "and 1-16 cores; distinct_nontrivial = distinct non-empty built blocks")
