"""Shared helpers of the chain-level checks (C01 C03 C07 C10 C11 C12 C24 ...): run drivers/chain recorders on the
real Processor/Builder and validate the traces against spec/Block.tla through spec/Block_Trace.tla."""
import json
import os
import re
import vlib

PKG = "chain"
HARNESS = ["verif_harness_test.go", "verif_exec_test.go"]


def sig(f):
    """signature = clause(s) of the property the rejected line broke (diag set printed by TLC)"""
    d = f.get("diag") or ""
    names = sorted(set(re.findall(r'"([^"]+)"', d)))
    return "+".join(names) if names else (f.get("invariant") or "unexplained-line")


def describe(f):
    ev = f.get("event") or {}
    out = ev.get("out") or {}
    return "diag=%s bid=%s rep=%s cfg=%s err=%r ntxs=%s" % (f.get("diag"), ev.get("bid"), ev.get("rep"), ev.get("cfg"),
                                                            out.get("err"), len(ev.get("txs") or []))


def record(ctx, run, mode, scenarios, maxtxs=6, files=None, extra_env=None, prefix="sc"):
    env = {"VERIF_MODE": mode, "VERIF_SCENARIOS": scenarios, "VERIF_MAXTXS": maxtxs}
    env.update(extra_env or {})
    rc, out = vlib.go_driver(ctx, PKG, run, env=env, files=files or HARNESS, timeout=1500)
    if rc != 0 and re.search(r"HANG: .*", out):
        # a call that did not return within 60 s is a verdict only if it does so again: the drivers are seeded, so a real
        # deadlock repeats, while a stall of an overloaded machine does not (one unrepeatable alarm discredits every real one)
        first = re.search(r"HANG: .*", out).group(0)
        print("note: %s - recording again to confirm" % first)
        for f in vlib.scenario_files(ctx, prefix):
            os.remove(f)
        rc, out = vlib.go_driver(ctx, PKG, run, env=env, files=files or HARNESS, timeout=1500)
        ctx.cov["unrepeated_stalls"] = ctx.cov.get("unrepeated_stalls", 0) + (0 if re.search(r"HANG: .*", out) else 1)
    if rc != 0:
        m = re.search(r"HANG: .*", out)
        if m:
            rp = vlib.save_replay(ctx, {"property": ctx.prop, "seed": ctx.seed, "tier": ctx.tier, "mode": mode,
                                        "hang": m.group(0), "output_tail": out[-3000:]}, name="hang-%s.json" % mode)
            raise vlib.Violation("real code hung (twice in two recordings): " + m.group(0), replay=rp, signature="hang")
        pn = vlib.panic_in_repo(out)
        if pn:
            rp = vlib.save_replay(ctx, {"property": ctx.prop, "seed": ctx.seed, "tier": ctx.tier, "mode": mode,
                                        "panic": pn, "output_tail": out[-3000:]}, name="panic-%s.json" % mode)
            raise vlib.Violation("the code under test panicked while executing a recorded scenario: " + pn, replay=rp,
                                 signature="panic")
        raise vlib.Infra("chain recorder failed (%s):\n%s" % (mode, out[-3000:]))
    fs = vlib.scenario_files(ctx, prefix)
    if not fs:
        raise vlib.Infra("chain recorder wrote no scenarios")
    return fs


def stats(ctx, files):
    """measured coverage numbers from the recorded block lines"""
    n_blocks = n_lines = 0
    shapes = set()
    feats = {"failed_tx": 0, "invalid_block": 0, "undeclared_or_denied": 0, "max_parallel_ge2": 0, "multi_tx": 0}
    sample = None
    for f in files:
        for l in vlib.read_ndjson(f):
            if l.get("ev") != "block":
                continue
            n_lines += 1
            out = l["out"]
            if l["rep"] == 0:
                n_blocks += 1
                shape = json.dumps([[t["sponsor"], sorted(t["decl"].items()), [[o["op"], o["k"]] for a in t["actions"] for o in a["ops"]]]
                                    for t in l["txs"]], sort_keys=True)
                if len(l["txs"]) >= 1:
                    shapes.add(hash(shape))
                if len(l["txs"]) >= 2:
                    feats["multi_tx"] += 1
                if out["err"]:
                    feats["invalid_block"] += 1
                if any(not r["ok"] for r in out["results"]):
                    feats["failed_tx"] += 1
                if sample is None and len(l["txs"]) >= 2 and not out["err"]:
                    sample = {"hdr": l["hdr"], "cfg": l["cfg"], "txs": [{"sponsor": t["sponsor"], "decl": t["decl"],
                              "actions": [a["ops"] for a in t["actions"]]} for t in l["txs"][:3]],
                              "results": out["results"][:3], "post": out["post"]}
            if out.get("maxpar", 0) >= 2:
                feats["max_parallel_ge2"] += 1
    ctx.add("evaluations", n_lines)
    ctx.add("distinct_nontrivial", len(shapes))
    ctx.add("blocks", n_blocks)
    for k, v in feats.items():
        ctx.add(k, v)
    if sample:
        ctx.sample(sample)
    return feats


def validate(ctx, files, label):
    fails = vlib.validate_scenarios(ctx, "Block_Trace", "Block_Trace.cfg", files, label=label, signature_fn=sig)
    for f in files:
        os.remove(f)
    return fails
