"""Shared binding step of C20 / C21: record runs of the real snow.VM with drivers/snow/verif_snowvm_test.go and
validate them against spec/SnowVM_Trace.tla."""
import json
import os
import vlib

PKG = "snow"
FILES = ["verif_snowvm_test.go"]


def sig(f):
    ev = f.get("event", {})
    if f.get("invariant"):
        return "%s:%s" % (ev.get("ev"), f["invariant"])
    if ev.get("ev") == "finishsync" and ev.get("res") == "err" and "failed to fetch parent block" in ev.get("msg", ""):
        return "finishsync-fails-when-parent-of-processing-block-already-rejected"
    return "%s:%s:step-not-a-behaviour-of-SnowVM" % (ev.get("ev"), ev.get("res"))


def describe(f):
    ev = dict(f.get("event", {}))
    for k in ("found", "byh", "tree"):
        ev.pop(k, None)
    return "scenario %s line %s: %s" % (os.path.basename(f.get("scenario_file", "?")), f.get("line_in_scenario"),
                                        json.dumps(ev)[:600])


def record_and_validate(ctx, kinds, scenarios, steps, label, cfg="SnowVM_Trace.cfg", tail_kind="", tail=0):
    """returns (failures, stats)"""
    out = os.path.join(ctx.work, "out")
    if os.path.isdir(out):
        for f in os.listdir(out):
            os.remove(os.path.join(out, f))
    rc, txt = vlib.go_driver(ctx, PKG, "^TestVerifSnowVMRecord$", files=FILES,
                             env={"VERIF_SCENARIOS": scenarios, "VERIF_STEPS": steps, "VERIF_KINDS": ",".join(kinds),
                                  "VERIF_TAIL_KIND": tail_kind, "VERIF_TAIL": tail})
    if rc != 0:
        raise vlib.Infra("snow recorder failed:\n" + txt[-3000:])
    files = vlib.scenario_files(ctx, "sc")
    if len(files) < (1 if ctx.only is not None else scenarios):
        raise vlib.Infra("recorder wrote %d of %d scenarios" % (len(files), scenarios))
    stats = json.load(open(os.path.join(out, "stats.json")))
    shapes = set()
    for f in files:
        lines = vlib.read_ndjson(f)
        evs = [l["ev"] for l in lines]
        # non-trivial: at least one fork was decided (an accept that forced a rejection) or a sync hand-over happened
        if ("accept" in evs and "reject" in evs) or "finishsync" in evs:
            shapes.add(hash(tuple((l["ev"], l.get("res"), len(l.get("cc", [])), len(l.get("nn", []))) for l in lines[1:])))
        stats["mid_accept_probes"] = stats.get("mid_accept_probes", 0) + sum(len(l.get("midfound", [])) for l in lines)
        stats["mid_health_probes"] = stats.get("mid_health_probes", 0) + sum(len(l.get("midh", [])) for l in lines)
    ctx.add("evaluations", len(files))
    ctx.add("distinct_nontrivial", len(shapes))
    for k, v in stats.items():
        ctx.add("driver_" + k, v)
    first = vlib.read_ndjson(files[0])
    ctx.sample({"kind": "recorded-trace:" + label,
                "lines": [{k: l[k] for k in ("ev", "b", "res", "cc", "nn", "la", "lp", "health") if k in l} for l in first[1:7]]})
    fails = vlib.validate_scenarios(ctx, "SnowVM_Trace", cfg, files, label=label, signature_fn=sig)
    for f in files:
        os.remove(f)
    return fails, stats
