"""C03 - transactions are atomic and always pay their fee.
design: TxKV.tla executes a transaction's actions op by op on the KV machine with the checkpoint / rollback steps of
        Transaction.Execute and TLC checks that the outcome is the all-or-nothing fold RunActions of Block.tla (every
        transaction of <=2 actions x <=2 ops over 2 keys, 4 scopes, every parent / block-pending state); TStateView_MC
        establishes that the real view structure refines KV.
binding: real Processor.Execute on single-transaction blocks with 1-6 scripted actions that write, delete, re-create,
        read balances (so the fee debit is observable from inside the first action) and fail at any point; each trace
        line is validated by TLC against RunTx: fee = prices x units charged exactly once, all-or-nothing effects,
        success flag, outputs of the actions that ran."""
import importlib.util
import os
import vlib

LEVEL = "model_checking"
_s = importlib.util.spec_from_file_location("_chain", os.path.join(os.path.dirname(__file__), "_chain.py"))
ch = importlib.util.module_from_spec(_s)
_s.loader.exec_module(ch)


def run(ctx):
    if ctx.only is None:
        vlib.tlc_mc(ctx, "TxKV_MC", ctx.pick("TxKV_MC_quick.cfg", "TxKV_MC.cfg"), label="txkv", timeout=1500)
        vlib.tlc_mc(ctx, "TStateView_MC", "TStateView_MC_quick.cfg", label="view")
    files = ch.record(ctx, "^TestVerifChainExec$", "c03", ctx.pick(120, 1500))
    feats = ch.stats(ctx, files)
    if ctx.only is None and feats["failed_tx"] == 0:
        raise vlib.Infra("vacuous: no failing transaction was recorded")
    fails = ch.validate(ctx, files, "c03")
    vlib.report_failures(ctx, fails, ch.describe)
    ctx.cov["rule"] = ("seeded chains of 1-3 single-transaction blocks; each transaction has 1-6 scripted actions over 4 keys "
                       "(random permission masks, undeclared accesses 15%, scripted failure 25% per action, reads of account "
                       "balance keys); executed under 4 configurations; distinct_nontrivial = distinct transaction shapes")
    ctx.assumptions += ["fee charged = sum(units x unit prices) with the units and prices the block reports; the unit formula is "
                        "bound by C12 and the price rule by C13"]
