"""C39 - metadata prefix conflict detection is exact (state/metadata/state_manager.go:HasConflictingPrefixes).
design : RulesPrefix_MC - every list of <= 4 (thorough 5) byte strings over {0,1} of length <= 2: the pairwise loop as
         coded equals the property "some entry is a prefix of another", order-independent, monotone  [TLC exhaustive]
binding: (tv) the Go driver calls the real function on every list of that domain the API can express (>= 3 entries,
         the first three through metadata.NewManager) and on seeded random lists; TLC decides every row"""
import json
import os
import sys

sys.path.insert(0, os.path.dirname(os.path.abspath(__file__)))
import _purerules as _rules  # noqa: E402
import vlib  # noqa: E402

LEVEL = "model_checking"
PKG = "state/metadata"
FILES = ["verif_prefix_test.go"]


def sig(row, reason):
    return "prefix:" + reason


def run(ctx):
    max_n = ctx.pick(4, 5)
    mc = None
    if ctx.only is None:
        mc = vlib.tlc_mc(ctx, "RulesPrefix_MC", ctx.pick("RulesPrefix_MC.cfg", "RulesPrefix_MC_thorough.cfg"))
        if mc["violated"]:
            raise vlib.Infra("design step: the transcription of the loop is not exact: " + mc["violated"])
        if not ctx.quick:
            r = vlib.tlc_mc(ctx, "RulesPrefix_MC", "RulesPrefix_MC_sens.cfg", label="sens", expect_violation=True)
            ctx.cov["design_step_detects_one_directional_loop"] = bool(r["violated"])
            if not r["violated"]:
                raise vlib.Infra("sensitivity: a one-directional loop is not distinguished from the property")
    _rules.stage(ctx, "design(tlc)")
    rc, out = vlib.go_driver(ctx, PKG, "^TestVerifPrefixRecord$", files=FILES,
                             env={"VERIF_MAXN": max_n, "VERIF_MAXLEN": 2, "VERIF_RANDOM": ctx.pick(3000, 40000)})
    outd = os.path.join(ctx.work, "out")
    sp = os.path.join(outd, "prefix_summary.json")
    if rc != 0 or not os.path.exists(sp):
        raise vlib.Infra("prefix recorder failed:\n" + out[-3000:])
    summ = json.load(open(sp))
    _rules.stage(ctx, "go-driver")
    if mc:
        # lists of 0..2 entries cannot be expressed through the API (the manager always holds three prefixes)
        s = summ["strings"]
        expect = mc["distinct"] - (1 + s + s * s)
        if summ["counts"].get("domain") != expect:
            raise vlib.Infra("driver enumerated %s domain rows, the design step has %d lists with >= 3 entries"
                             % (summ["counts"].get("domain"), expect))
    path = os.path.join(outd, "rows_prefix.ndjson")
    rows = [json.loads(l) for l in _rules.read_rows(path)[1:]]
    rejected, notes, n = _rules.rows_tv(ctx, "RulesPrefix_Trace", "RulesPrefix_Trace.cfg", path, "prefix",
                                        parts=ctx.pick(2, 6))
    _rules.stage(ctx, "tv(tlc)")
    ctx.add("evaluations", n)
    # non-trivial: lists without exact duplicates and without an empty entry (the verdict needs a real prefix test)
    nontrivial = set()
    for r in rows:
        t = [tuple(p) for p in r["p"]]
        if len(set(t)) == len(t) and all(t):
            nontrivial.add(tuple(t))
    ctx.add("distinct_nontrivial", len(nontrivial))
    ctx.add("rows_with_conflict", sum(r["res"] for r in rows))
    ctx.add("rows_without_conflict", sum(1 - r["res"] for r in rows))
    ctx.add("rows_rejected_by_spec", len(rejected))
    ctx.add("traces_validated_against_impl", n - len(rejected))
    ctx.cov["exhaustive"] = mc is not None
    if ctx.only is None and (not ctx.cov["rows_with_conflict"] or not ctx.cov["rows_without_conflict"]):
        raise vlib.Infra("vacuity: only one verdict was observed")
    ctx.sample({"kind": "domain row", "row": rows[min(len(rows) - 1, 1500)]})
    ctx.sample({"kind": "random row", "row": rows[-1]})
    fails = _rules.failures_from(ctx, rejected, sig, "tv")
    vlib.report_failures(ctx, fails, lambda f: "%s: %s" % (f["invariant"], json.dumps(f["event"])[:400]))
    ctx.cov["rule"] = ("all lists of 3..%d byte strings over {0,1} of length <= 2 (empty string and duplicates included; "
                       "count cross-checked against TLC's state count) + seeded random lists (3-10 entries, alphabets "
                       "2/3/256, length <= 6, some entries derived from earlier ones). distinct by list; non-trivial = no "
                       "empty entry and no exact duplicate" % max_n)
    ctx.assumptions += ["lists with fewer than three entries cannot be passed to the real function"]
