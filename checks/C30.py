"""C30 - read-only action APIs agree with on-chain execution.
design : ActionAPI_MC - ExecuteActions (one scoped view per action, committed in turn), SimulateActions (one recording view,
         keys reported and cleared per action) and on-chain execution (one view scoped to the union of the declared keys,
         all-or-nothing) over the abstract view semantics with permissions, for every small state / actor / list of up to 3
         transfers: all agree with Transfer.tla's ActionFold and the simulated keys are sufficient          [TLC exhaustive]
         + sensitivity: without the allocate permission the simulated keys are NOT sufficient (expected violation)
binding: (tv) a real morpheusvm VM (vmtest) - per round the real JSONRPCServer.ExecuteActions and SimulateActions replies and
         the result of a real transaction with the same actions submitted, built, verified and accepted on the same accepted
         state (every other round declaring exactly the simulated keys) are validated by TLC against ActionFold / RunTxA
         (tv, fault dimension) the same two API methods over a driver-implemented api.VM whose read of one balance record fails
         once with a transient error: either an error is reported or exactly the fold's outputs; never "record absent"."""
import json
import os
import re
import vlib

LEVEL = "model_checking"
MOD = os.path.join(vlib.REPO, "examples", "morpheusvm")
PKG = "vm"
FILES = ["verif_actionapi_test.go", "verif_actionapi_fault_test.go"]


def sig(f):
    d = f.get("diag") or ""
    names = sorted(set(re.findall(r'"([^"]+)"', d)))
    return "+".join(names) if names else (f.get("invariant") or "unexplained-line")


def describe(f):
    ev = f.get("event") or {}
    if ev.get("ev") == "fault":
        return "diag=%s actor=%s pre=%s actions=%s unreadable=%s at read %s (hit: execute=%s simulate=%s) exec=%s sim.ok=%s sim.outs=%s" % (
            f.get("diag"), ev.get("actor"), json.dumps(ev.get("pre")), json.dumps(ev.get("actions"))[:400], ev.get("failkey"),
            ev.get("failcall"), ev.get("execfault"), ev.get("simfault"), json.dumps(ev.get("exec"))[:400],
            (ev.get("sim") or {}).get("ok"), json.dumps((ev.get("sim") or {}).get("outs"))[:200])
    return "diag=%s kind=%s actor=%s sponsor=%s pre=%s actions=%s exec=%s sim.ok=%s sim.outs=%s chain=%s" % (
        f.get("diag"), ev.get("kind"), ev.get("actor"), ev.get("sponsor"), json.dumps(ev.get("pre")),
        json.dumps(ev.get("actions"))[:500], json.dumps(ev.get("exec"))[:400], (ev.get("sim") or {}).get("ok"),
        json.dumps((ev.get("sim") or {}).get("outs"))[:300], json.dumps(ev.get("chain"))[:400])


def record(ctx, groups, rounds):
    rc, out = vlib.go_driver(ctx, PKG, "^TestVerifActionAPI(Faults)?$", module_dir=MOD, files=FILES, timeout=2400,
                             env={"VERIF_SCENARIOS": groups, "VERIF_ROUNDS": rounds,
                                  "VERIF_FAULT_FILES": ctx.pick(6, 40), "VERIF_FAULT_CASES": ctx.pick(80, 250)})
    if rc != 0:
        pn = vlib.panic_in_repo(out)
        if pn:
            rp = vlib.save_replay(ctx, {"property": ctx.prop, "seed": ctx.seed, "tier": ctx.tier, "panic": pn,
                                        "output_tail": out[-3000:]}, name="panic.json")
            raise vlib.Violation("the code under test panicked while serving a recorded round: " + pn, replay=rp, signature="panic")
        raise vlib.Infra("action API recorder failed:\n%s" % out[-3000:])
    fs = vlib.scenario_files(ctx, "api")
    if not fs:
        raise vlib.Infra("action API recorder wrote no scenarios")
    return fs + vlib.scenario_files(ctx, "flt")


def stats(ctx, files):
    feats = {"fault_cases": 0, "read_faults_hit_in_execute": 0, "read_faults_hit_in_simulate": 0,
             "execute_answered_despite_fault": 0, "fault_on_first_load_of_existing_recipient": 0, "rounds": 0, "actions": 0, "failing_lists": 0, "scoped_rounds": 0, "scoped_rounds_needing_allocate": 0,
             "sponsor_is_actor": 0, "self_transfers": 0, "lists_with_ge5_actions": 0, "recipient_without_record": 0}
    shapes = set()
    sample = None
    for f in files:
        for l in vlib.read_ndjson(f):
            if l.get("ev") == "fault":
                feats["fault_cases"] += 1
                feats["read_faults_hit_in_execute"] += 1 if l["execfault"] else 0
                feats["read_faults_hit_in_simulate"] += 1 if l["simfault"] else 0
                feats["execute_answered_despite_fault"] += 1 if l["execfault"] and not l["exec"]["failed"] else 0
                k = l["failkey"]
                firsts = [i + 1 for i, a in enumerate(l["actions"]) if a["to"] == k]
                if l["execfault"] and k != l["actor"] and l["pre"].get(k, 0) > 0 and firsts and firsts[0] == l["failcall"]:
                    feats["fault_on_first_load_of_existing_recipient"] += 1
                if l["execfault"] or l["simfault"]:
                    shapes.add(json.dumps([l["pre"], l["actor"], l["actions"], l["failkey"], l["failcall"]], sort_keys=True))
                continue
            if l.get("ev") != "round":
                continue
            feats["rounds"] += 1
            feats["actions"] += len(l["actions"])
            feats["failing_lists"] += 1 if l["exec"]["failed"] else 0
            feats["sponsor_is_actor"] += 1 if l["sponsor"] == l["actor"] else 0
            feats["self_transfers"] += sum(1 for a in l["actions"] if a["to"] == l["actor"])
            feats["lists_with_ge5_actions"] += 1 if len(l["actions"]) >= 5 else 0
            alloc = any("a" in k["p"] for ks in l["sim"]["keys"] for k in ks)
            if l["kind"] == "scoped":
                feats["scoped_rounds"] += 1
                feats["scoped_rounds_needing_allocate"] += 1 if alloc else 0
            feats["recipient_without_record"] += 1 if any(l["pre"][a["to"]] == 0 for a in l["actions"]) else 0
            if len(l["actions"]) >= 2 or l["exec"]["failed"]:
                shapes.add(json.dumps([l["pre"], l["actor"], l["actions"], l["kind"]], sort_keys=True))
            if sample is None and l["kind"] == "scoped" and alloc:
                sample = {"kind": "recorded round", "actor": l["actor"], "sponsor": l["sponsor"], "pre": l["pre"],
                          "actions": l["actions"][:4], "execute": l["exec"]["outs"][:4], "simulated_keys": l["sim"]["keys"][:4],
                          "chain": {"ok": l["chain"]["ok"], "outs": l["chain"]["outs"][:4], "fee": l["chain"]["fee"]}}
    ctx.add("evaluations", feats["rounds"] + feats["fault_cases"])
    ctx.add("distinct_nontrivial", len(shapes))
    for k, v in feats.items():
        ctx.add(k, v)
    if sample:
        ctx.sample(sample)
    return feats


def run(ctx):
    import threading
    design = {"exc": None}
    th = None
    if ctx.only is None:
        def work():
            try:
                mc = vlib.tlc_mc(ctx, "ActionAPI_MC", ctx.pick("ActionAPI_MC_quick.cfg", "ActionAPI_MC.cfg"), label="design",
                                 workers=ctx.pick(4, 8))
                if mc["violated"]:
                    raise vlib.Infra("design step: the API models disagree with ActionFold: " + mc["violated"])
                r = vlib.tlc_mc(ctx, "ActionAPI_MC", "ActionAPI_MC_weak.cfg", label="weak", expect_violation=True, workers=2)
                ctx.cov["design_step_needs_allocate_in_simulated_keys"] = bool(r["violated"])
                if not r["violated"]:
                    raise vlib.Infra("sensitivity: dropping the allocate permission no longer breaks sufficiency in the model")
            except BaseException as e:
                design["exc"] = e
        th = threading.Thread(target=work)
        th.start()                       # TLC design step runs while the VM scenarios are recorded
    try:
        files = record(ctx, ctx.pick(12, 300), ctx.pick(14, 16))
    finally:
        if th:
            th.join()
    if design["exc"]:
        raise design["exc"]
    feats = stats(ctx, files)
    if ctx.only is None:
        for k in ("failing_lists", "scoped_rounds", "scoped_rounds_needing_allocate", "self_transfers",
                  "read_faults_hit_in_execute", "read_faults_hit_in_simulate", "fault_on_first_load_of_existing_recipient"):
            if feats[k] == 0:
                raise vlib.Infra("vacuous: no recorded round exercised " + k)
    fails = vlib.validate_scenarios(ctx, "ActionAPI_Trace", "ActionAPI_Trace.cfg", files, label="tv", signature_fn=sig)
    for f in files:
        os.remove(f)
    vlib.report_failures(ctx, fails, describe)
    ctx.cov["rule"] = ("per VM (genesis: rich sponsor, 3-4 accounts with zero/small/medium allocations, one address without a record) "
                       "12-16 rounds; a round = actor + list of 1-16 real Transfer actions with values around the actor's balance "
                       "(whole balance, one less, self-transfers 25%, a quarter of the lists contain a failing action), answered by "
                       "ExecuteActions, SimulateActions and one accepted transaction (odd rounds: declaring exactly the simulated "
                       "keys); distinct_nontrivial = distinct (state, actor, actions, kind) with >= 2 actions or a failing action, plus distinct "
                       "fault cases (state, actor, 1-5 transfers, unreadable record, read index) in which the injected failure was hit")
    ctx.assumptions += ["SimulateActions answering with an error (and no outputs) for a list that contains a failing action is "
                        "accepted: the statement speaks about the outputs it returns",
                        "action ids and timestamps differ between the APIs and a transaction by construction; Transfer ignores both",
                        "values stay below 2^31 (TLC); 64-bit transfer arithmetic is bound by C06"]
