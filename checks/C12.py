"""C12 - block resource use is metered from declared keys and capped per block.
spec: Block.tla Units (size; base + action + auth compute; per declared key read/allocate/write cost scaled by the
      key's chunk suffix, the sponsor's balance key counted once), Fits / UnitsOverflow (per-dimension block maximum),
      consumed = sum of the transactions' units.
binding: real Processor.Execute with random rule unit costs, chunk suffixes 1-3, duplicate declarations across actions
      and the sponsor key, and tight per-block maxima; TLC recomputes every transaction's units, the block verdict
      (ErrInvalidUnitsConsumed exactly when the running sum exceeds a maximum) and UnitsConsumed from the logged
      declarations and compares them with what the real call returned."""
import importlib.util
import os
import vlib

LEVEL = "model_checking"
_s = importlib.util.spec_from_file_location("_chain", os.path.join(os.path.dirname(__file__), "_chain.py"))
ch = importlib.util.module_from_spec(_s)
_s.loader.exec_module(ch)


def run(ctx):
    if ctx.only is None:
        vlib.tlc_mc(ctx, "BlockRules_MC", "BlockRules_c12.cfg", label="consume")
    files = ch.record(ctx, "^TestVerifChainExec$", "c12", ctx.pick(60, 1000), maxtxs=6)
    n_units_err = 0
    for f in files:
        for l in vlib.read_ndjson(f):
            if l.get("ev") == "block" and l["rep"] == 0 and l["out"]["err"] == "units":
                n_units_err += 1
    ctx.add("blocks_rejected_for_units", n_units_err)
    feats = ch.stats(ctx, files)
    if ctx.only is None and n_units_err == 0:
        raise vlib.Infra("vacuous: no block exceeded a per-dimension maximum")
    fails = ch.validate(ctx, files, "c12")
    vlib.report_failures(ctx, fails, ch.describe)
    ctx.cov["rule"] = ("seeded chains of blocks with random rule unit costs (0..25), key chunk suffixes 1..3 (and off-by-one "
                       "suffix variants of the same key name), 0-6 transactions, per-block maxima drawn so that roughly a third "
                       "of the blocks overflow some dimension; distinct_nontrivial = distinct block shapes")
    ctx.assumptions += ["64-bit overflow of the unit arithmetic (rule costs near 2^64) is outside TLC's integers and not covered "
                        "by this check", "the bandwidth unit is the transaction's encoded size as reported by Transaction.Size()"]
