"""C12 - block resource use is metered from declared keys and capped per block.
spec: Block.tla Units (size; base + action + auth compute; per declared key read/allocate/write cost scaled by the
      key's chunk suffix, the sponsor's balance key counted once), Fits / UnitsOverflow (per-dimension block maximum),
      consumed = sum of the transactions' units.
binding: real Processor.Execute with random rule unit costs, chunk suffixes 1-3, duplicate declarations across actions
      and the sponsor key, and tight per-block maxima; TLC recomputes every transaction's units, the block verdict
      (ErrInvalidUnitsConsumed exactly when the running sum exceeds a maximum) and UnitsConsumed from the logged
      declarations and compares them with what the real call returned."""
import importlib.util
import os
import vlib

LEVEL = "model_checking"
_s = importlib.util.spec_from_file_location("_chain", os.path.join(os.path.dirname(__file__), "_chain.py"))
ch = importlib.util.module_from_spec(_s)
_s.loader.exec_module(ch)


def run(ctx):
    if ctx.only is None:
        vlib.tlc_mc(ctx, "BlockRules_MC", "BlockRules_c12.cfg", label="consume")
    files = ch.record(ctx, "^TestVerifChainExec$", "c12", ctx.pick(60, 1000), maxtxs=6)
    n_units_err = 0
    for f in files:
        for l in vlib.read_ndjson(f):
            if l.get("ev") == "block" and l["rep"] == 0 and l["out"]["err"] == "units":
                n_units_err += 1
    ctx.add("blocks_rejected_for_units", n_units_err)
    feats = ch.stats(ctx, files)
    if ctx.only is None and n_units_err == 0:
        raise vlib.Infra("vacuous: no block exceeded a per-dimension maximum")
    fails = ch.validate(ctx, files, "c12")
    # overflow rows: real Transaction.Units with rule costs that are multiples of 2^60
    ofiles = ch.record(ctx, "^TestVerifUnitsOverflow$", "c12o", 1, prefix="ov", extra_env={"VERIF_ROWS": ctx.pick(300, 5000)},
                       files=["verif_harness_test.go", "verif_exec_test.go", "verif_rules_test.go"])
    rows = [l for l in vlib.read_ndjson(ofiles[0]) if l.get("ev") == "unitsrow"]
    ctx.add("overflow_rows", len(rows))
    ctx.add("overflow_rows_rejected", sum(1 for l in rows if l["err"]))
    if not any(l["err"] for l in rows) or all(l["err"] for l in rows):
        raise vlib.Infra("vacuous overflow rows")
    fails += ch.validate(ctx, ofiles, "c12-overflow")
    # per-block consumption is all-or-nothing: direct Consume sequences on the real fees.Manager ...
    rc, out = vlib.go_driver(ctx, "internal/fees", "^TestVerifConsume$", env={"VERIF_SCENARIOS": ctx.pick(200, 3000)},
                             files=["verif_consume_test.go"])
    if rc != 0:
        raise vlib.Infra("consume recorder failed:\n" + out[-2000:])
    cfiles = vlib.scenario_files(ctx, "cs")
    nref = sum(1 for f in cfiles for l in vlib.read_ndjson(f) if l.get("ev") == "consume" and not l["ok"])
    ctx.add("consume_calls_refused", nref)
    cf = vlib.validate_scenarios(ctx, "FeeConsume_Trace", "FeeConsume_Trace.cfg", cfiles, label="consume", signature_fn=ch.sig)
    for f in cfiles:
        os.remove(f)
    # ... and through the builder, which skips transactions that do not fit (builder-side consumption must equal the
    # sum of the included transactions' units: Block_Trace "build-units-consumed")
    _b = importlib.util.spec_from_file_location("c02", os.path.join(os.path.dirname(__file__), "C02.py"))
    c02 = importlib.util.module_from_spec(_b)
    _b.loader.exec_module(c02)
    bfiles = c02.record_builds(ctx, ctx.pick(25, 300))
    fails += ch.validate(ctx, bfiles, "c12-build")
    vlib.report_failures(ctx, fails, ch.describe)
    vlib.report_failures(ctx, cf, lambda f: "diag=%s line=%s" % (f.get("diag"), str(f.get("event"))[:200]))
    ctx.cov["rule"] = ("seeded chains of blocks with random rule unit costs (0..25), key chunk suffixes 1..3 (and off-by-one "
                       "suffix variants of the same key name), 0-6 transactions, per-block maxima drawn so that roughly a third "
                       "of the blocks overflow some dimension; distinct_nontrivial = distinct block shapes")
    ctx.assumptions += ["overflow of the unit arithmetic is checked on rule costs that are multiples of 2^60 with zero per-key "
                        "costs (exact in TLC's integers); compute-unit overflow is not covered", "the bandwidth unit is the transaction's encoded size as reported by Transaction.Size()"]
