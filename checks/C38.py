"""C38 - fee bonds are released exactly once per bonded transaction.
design : Bond_MC (implementation-shaped model of Bonder under fdsmr.Node refines the BondLedger)  [TLC exhaustive]
         + sensitivity: the model of Bond as originally coded (no early return for a recorded tx) must violate
binding: (tv) seeded histories of BuildChunk / Accept / SetMaxBalance on the real Bonder under the real
         fdsmr.Node, pending balances read from the bonder db after every call, validated against BondLedger"""
import json
import os
import vlib

LEVEL = "model_checking"
PKG = "internal/chain"
FILES = ["verif_bond_test.go"]


def classify(lines):
    """mini ledger over the log, only to *count* what a scenario exercised and to name a rejected line
    (the verdict is TLC's)."""
    info = lines[0]["txs"]
    mx = dict(lines[0]["max"])
    open_ = {}
    c = {"rebonds": 0, "dup_in_chunk": 0, "refusals": 0, "expired": 0, "accepted": 0, "overflow_rate": 0, "setmax": 0,
         "exceeds": 0, "inner_build_failures": 0, "bond_errors": 0, "bonded_in_failed_build": 0,
         "crash_retries_in_bond": 0, "crash_retries_in_unbond": 0}
    for l in lines[1:]:
        c["crash_retries_in_bond"] += l.get("crashb", 0)
        c["crash_retries_in_unbond"] += l.get("crashu", 0)
        if l["ev"] == "build":
            if len(set(l["txs"])) < len(l["txs"]):
                c["dup_in_chunk"] += 1
            if l["rate"] < 0:
                c["overflow_rate"] += 1
            if l.get("err") == "inner":
                c["inner_build_failures"] += 1
            elif l.get("err") == "bond":
                c["bond_errors"] += 1
            for n, ok in zip(l["txs"], l["oks"]):
                if not ok:
                    c["refusals"] += 1
                elif n in open_:
                    c["rebonds"] += 1
                else:
                    sp = info[n]["sp"]
                    fee = info[n]["size"] * max(l["rate"], 0)
                    due = sum(f for t, f in open_.items() if info[t]["sp"] == sp)
                    if due + fee > mx[sp] or (l["rate"] < 0 and info[n]["size"] > 0):
                        c["exceeds"] += 1
                    open_[n] = fee
                    if l.get("err", "none") != "none":
                        c["bonded_in_failed_build"] += 1
        elif l["ev"] == "accept":
            for n in list(open_):
                if n in l["incl"]:
                    c["accepted"] += 1
                    del open_[n]
                elif info[n]["exp"] < l["ts"]:
                    c["expired"] += 1
                    del open_[n]
        elif l["ev"] == "setmax":
            c["setmax"] += 1
            mx[l["s"]] = l["m"]
    return c


def sig(f):
    ev = f.get("event", {})
    if f.get("invariant"):
        return "%s:%s" % (ev.get("ev"), f["invariant"])
    kind = "pending-differs-from-ledger"
    if ev.get("ev") == "accept":
        # is a tx that should have been settled by this accept one that was bonded by a failed build?
        try:
            lines = vlib.read_ndjson(f["scenario_file"])[: f["line_in_scenario"]]
            info, failed_bond = lines[0]["txs"], set()
            for l in lines[1:-1]:
                if l["ev"] == "build":
                    for n, ok in zip(l["txs"], l["oks"]):
                        if ok:
                            (failed_bond.add if l.get("err", "none") != "none" else failed_bond.discard)(n)
            if any(n in failed_bond and (n in ev["incl"] or info[n]["exp"] < ev["ts"]) for n in info):
                kind = "bond-of-failed-build-not-released:" + kind
        except Exception:
            pass
    if ev.get("ev") == "build":
        # was some transaction of this build already bonded (re-submission) or repeated inside the chunk?
        try:
            lines = vlib.read_ndjson(f["scenario_file"])[: f["line_in_scenario"]]
            c_before, c_after = classify(lines[:-1]), classify(lines)
        except Exception:
            c_before = c_after = None
        if c_after and c_after["exceeds"] > c_before["exceeds"]:
            kind = "bond-accepted-above-max"
        elif c_after and c_after["rebonds"] > c_before["rebonds"]:
            kind = "rebond-of-open-tx:" + kind
    if ev.get("crashb", 0) + ev.get("crashu", 0) > 0:
        kind = "after-crash-and-retry:" + kind.replace("bond-of-failed-build-not-released:", "")
    return "%s:%s" % (ev.get("ev"), kind)


def describe(f):
    return "line %d of %s: %s" % (f.get("line_in_scenario", -1), os.path.basename(f.get("scenario_file", "")),
                                  json.dumps(f.get("event"))[:500])


def binding_tv(ctx, scenarios, depth):
    rc, out = vlib.go_driver(ctx, PKG, "^TestVerifBondRecord$", files=FILES,
                             env={"VERIF_SCENARIOS": scenarios, "VERIF_DEPTH": depth})
    if rc != 0:
        raise vlib.Infra("bond recorder failed:\n" + out[-3000:])
    files = vlib.scenario_files(ctx, "bond")
    if len(files) < (1 if ctx.only is not None else scenarios):
        raise vlib.Infra("recorder wrote %d of %d scenarios" % (len(files), scenarios))
    distinct = set()
    for f in files:
        lines = vlib.read_ndjson(f)
        c = classify(lines)
        for k, v in c.items():
            if k != "exceeds":
                ctx.add(k + "_observed", v)
        if c["rebonds"] > 0 and (c["expired"] > 0 or c["accepted"] > 0):
            distinct.add(hash(tuple((l["ev"], tuple(l.get("txs", [])) if l["ev"] == "build" else tuple(l.get("incl", [])),
                                     tuple(l.get("oks", [])), l.get("rate", l.get("ts", l.get("m", 0)))) for l in lines[1:])))
    ctx.add("evaluations", len(files))
    ctx.add("distinct_nontrivial", len(distinct))
    ctx.sample({"kind": "recorded-history", "first_lines": vlib.read_ndjson(files[0])[:5]})
    if ctx.only is None:
        for k in ("rebonds_observed", "refusals_observed", "expired_observed", "accepted_observed", "dup_in_chunk_observed",
                  "inner_build_failures_observed", "bond_errors_observed", "bonded_in_failed_build_observed",
                  "crash_retries_in_bond_observed", "crash_retries_in_unbond_observed"):
            if ctx.cov.get(k, 0) == 0:
                raise vlib.Infra("vacuity: no %s in %d scenarios" % (k, len(files)))
    if os.environ.get("VERIF_CORRUPT"):   # self-test of the binding: falsify one recorded balance
        lines = vlib.read_ndjson(files[0])
        lines[len(lines) // 2]["pend"]["s1"] += 1
        with open(files[0], "w") as fh:
            fh.write("".join(json.dumps(l) + "\n" for l in lines))
    fails = vlib.validate_scenarios(ctx, "Bond_Trace", "Bond_Trace.cfg", files, label="tv", signature_fn=sig)
    for f in files:
        os.remove(f)
    return fails


def run(ctx):
    if ctx.only is None:
        vlib.tlc_mc(ctx, "Bond_MC", ctx.pick("Bond_MC_quick.cfg", "Bond_MC.cfg"), timeout=ctx.pick(600, 1500))
        if not ctx.quick:
            vlib.tlc_mc(ctx, "Bond_MC", "Bond_MC_chunk3.cfg", label="chunk3", coverage=True, timeout=1500)
        r = vlib.tlc_mc(ctx, "Bond_MC", "Bond_MC_original.cfg", label="orig", expect_violation=True)
        ctx.cov["design_step_detects_double_bond_as_originally_coded"] = bool(r["violated"])
        if not r["violated"]:
            raise vlib.Infra("sensitivity: the model of Bond as originally coded no longer violates the ledger")
        if not ctx.quick:
            r = vlib.tlc_mc(ctx, "Bond_MC", "Bond_MC_tornunbond.cfg", label="tornunbond", expect_violation=True)
            ctx.cov["design_step_detects_non_atomic_unbond_under_crash_retry"] = bool(r["violated"])
            if not r["violated"]:
                raise vlib.Infra("sensitivity: the model of a two-write Unbond no longer violates under crash + retry")
            r = vlib.tlc_mc(ctx, "Bond_MC", "Bond_MC_latetrack.cfg", label="latetrack", expect_violation=True)
            ctx.cov["design_step_detects_heap_add_after_inner_build"] = bool(r["violated"])
            if not r["violated"]:
                raise vlib.Infra("sensitivity: the model that tracks bonded txs only after a successful inner build no longer violates")
    fails = binding_tv(ctx, ctx.pick(400, 4000), ctx.pick(30, 60))
    vlib.report_failures(ctx, fails, describe)
    ctx.cov["rule"] = ("tv: seeded histories (30/60 calls) over 6 real transactions of 1-3 sponsors: BuildChunk with 1-4 txs "
                       "(duplicates inside the chunk and re-submission of recently built txs are biased in), fee rates "
                       "0,1,2,3,5 and an overflowing one, 1/6 of the builds with a failing inner DSMR.BuildChunk and 1/12 with a Bond "
                       "error at a random position (what was bonded before stays bonded), a quarter of the Node calls with a crash "
                       "point (one of the first three Bond / Unbond calls dies after 0-2 durable writes, the Bonder is "
                       "re-created on the same database and the call retried), Accept with even timestamps (expiries are odd) and 0-3 included "
                       "txs, SetMaxBalance around multiples of a tx fee; a history is non-trivial when a still-bonded "
                       "transaction is bonded again and something is later settled by accept or expiry; distinct = distinct "
                       "(call, args, bond answers) sequences")
    ctx.assumptions += ["a Bond error is injected by the recording decorator before the real Bonder is called (equivalent to a failing first "
                        "database read, which happens before any write); other database failures are not exercised",
                        "expiry boundary (expiry == block timestamp) is not exercised: the statement does not fix < versus <=",
                        "a re-bond of a still-bonded transaction must leave the first fee in force (a 'replace the fee' "
                        "policy would be flagged); refusing any bond is always accepted",
                        "pending balances are read from the bonder db under the sponsor address (calibrated at start; a "
                        "changed layout ends as INFRA)"]
