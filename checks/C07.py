import importlib.util, os
import vlib
_s = importlib.util.spec_from_file_location("_rules", os.path.join(os.path.dirname(__file__), "_rules.py"))
rl = importlib.util.module_from_spec(_s)
_s.loader.exec_module(rl)
LEVEL = "model_checking"


def run(ctx):
    if ctx.only is None:
        vlib.tlc_mc(ctx, "BlockRules_MC", "BlockRules_c07.cfg", label="BlockRules_c07")
        r = vlib.tlc_mc(ctx, "BlockRules_MC", "BlockRules_c07coded.cfg", label="BlockRules_c07coded", expect_violation=True)
        if not r["violated"]:
            raise vlib.Infra("design-step sensitivity lost: the as-coded rule no longer violates the property in the model")
    feats, fails = rl.run_mode(ctx, "c07", ctx.pick(60, 800), "C07")
    if ctx.only is None and feats["invalid_block"] == 0:
        raise vlib.Infra("vacuous: no rejected block recorded")
    # builder and admission gates (same trace spec): real Builder.BuildBlock / PreExecutor.PreExecute
    _b = importlib.util.spec_from_file_location("c02", os.path.join(os.path.dirname(__file__), "C02.py"))
    c02 = importlib.util.module_from_spec(_b)
    _b.loader.exec_module(c02)
    bfiles = c02.record_builds(ctx, ctx.pick(25, 300))
    fails += rl.ch.validate(ctx, bfiles, "gates")
    vlib.report_failures(ctx, fails, rl.ch.describe)
