"""X07 (extra, not in the manifest) - api/ws: transaction and block listeners of the websocket API.
design : WsListeners_MC (RegisterTx / RegisterBlocks / Close / AcceptBlock as coded; action properties AcceptOK (exactly one
         answer - result or expiry notice - per owed registration, nothing else), BlocksOK; invariant NoLeak; the variant that
         keeps listeners after publishing must fail)                                              [TLC exhaustive]
binding: (tv) a real morpheusvm VM (vmtest) with three real ws.WebSocketClient clients: TxMode registrations of fine /
         expired / auth-failing / shared transactions, block registrations, closes; blocks built, verified, accepted; what
         every client received after every block is validated by WsListeners_Trace"""
import json
import os
import vlib

LEVEL = "model_checking"
MOD = vlib.REPO + "/examples/morpheusvm"


def sig(fail):
    d = fail.get("diag") or ""
    return "%s:%s" % (fail.get("event", {}).get("ev"), d.strip("{} ").replace('"', "") or fail.get("invariant"))


def describe(f):
    hist = [(l.get("ev"), l.get("c", l.get("h")), [t.get("id") for t in l.get("txs", [])] if l.get("ev") == "register" else l.get("txs", l.get("tx")))
            for l in f.get("scenario", [])][-8:]
    return "history(tail)=%s failing line %s diag=%s" % (hist, json.dumps(f.get("event"))[:400], f.get("diag"))


def run(ctx):
    if ctx.only is None:
        vlib.tlc_mc(ctx, "WsListeners_MC", ctx.pick("WsListeners_MC_quick.cfg", "WsListeners_MC.cfg"), coverage=True, timeout=2400)
        r = vlib.tlc_mc(ctx, "WsListeners_MC", "WsListeners_MC_keep.cfg", label="keep", expect_violation=True)
        if not r["violated"]:
            raise vlib.Infra("sensitivity: keeping listeners after the result no longer violates anything")
    rc, out = vlib.go_driver(ctx, "vm", "^TestVerifWsListeners$", module_dir=MOD, files=["verif_submit_test.go", "verif_ws_test.go"],
                             timeout=ctx.pick(1200, 3000), env={"VERIF_SCENARIOS": ctx.pick(3, 30), "VERIF_ROUNDS": ctx.pick(7, 12)})
    p = vlib.panic_in_repo(out)
    if p:
        raise vlib.Violation("panic in the code under test: " + p, signature="panic")
    if rc != 0:
        raise vlib.Infra("ws recorder failed:\n" + out[-3000:])
    sp = os.path.join(ctx.work, "out", "ws_stats.json")
    st = json.load(open(sp))
    os.remove(sp)
    files = vlib.scenario_files(ctx, "ws-")
    if ctx.only is None:
        for k in ("register", "register_blocks", "register_expired", "register_invalid", "blocks"):
            ctx.add("tv_" + k, st.get(k, 0))
            if st.get(k, 0) == 0:
                raise vlib.Infra("vacuity: scenarios never exercised " + k)
        ctx.add("tv_register_shared", st.get("register_shared", 0))
        ctx.add("tv_close", st.get("close", 0))
    nrecv, distinct = 0, set()
    for f in files:
        for l in vlib.read_ndjson(f):
            if l["ev"] == "received":
                nrecv += 1
                if l["tx"] or l["blocks"]:      # non-trivial = a client that received something
                    distinct.add(hash(json.dumps([[k for _, k in l["tx"]], len(l["blocks"])])) ^ hash(f) ^ nrecv)
    ctx.add("evaluations", nrecv)
    ctx.add("distinct_nontrivial", len(distinct))
    ctx.sample({"kind": "ws-trace", "first_lines": vlib.read_ndjson(files[0])[:6]})
    fails = vlib.validate_scenarios(ctx, "WsListeners_Trace", "WsListeners_Trace.cfg", files, label="ws", signature_fn=sig)
    for f in files:
        os.remove(f)
    vlib.report_failures(ctx, fails, describe)
    ctx.cov["rule"] = ("per VM 7 (quick) / 12 (thorough) rounds of 1-3 client steps (optional block registration, 0-2 TxMode messages out "
                       "of {fine, already expired, failing auth, somebody's pending transaction again}, one fine marker), sometimes a "
                       "close, then the next block; evaluation = one client's receipt after one block; non-trivial = it received "
                       "something")
    ctx.assumptions += ["registrations are synchronised through a marker transaction on the same connection (the server handles a "
                        "connection's messages in order); a registration not processed within 30 s is reported",
                        "after a block a client that is owed something is waited for up to 30 s, then 150 ms of silence end the read",
                        "expiry notices are only exercised for transactions that were already expired when registered"]
