"""X14 (extra, not in the manifest) - codec.TypeParser (registry of actions / auth types / outputs) and auth.AuthProvider
follow the registration rules.
design : TypeRegistry_MC (indexToDecoder / registeredTypes as Register writes them, lookup by first byte, against the
         sequence of accepted registrations: Unique, LookupExact, TypesInOrder, StepOK; the "overwrite" and
         "early-full" variants must violate them)                                                [TLC exhaustive]
binding: (tv) every history of N calls, seeded long histories and histories that fill all 256 ids on the real
         TypeParser[string]; every and seeded histories on the real AuthProvider with stub factories; the trace spec
         decides acceptance by the statement's rule and names the violated clause in diag"""
import json
import os
import vlib

LEVEL = "model_checking"


def sig(fail):
    d = fail.get("diag") or ""
    return "%s:%s" % (fail.get("event", {}).get("ev"), d.strip("{} ").replace('"', "") or fail.get("invariant"))


def describe(f):
    hist = [(l.get("ev"), l.get("id"), l.get("err")) for l in f.get("scenario", [])][-10:]
    ev = {k: v for k, v in (f.get("event") or {}).items() if k not in ("ids", "decs")}
    return "history(tail)=%s failing line %s diag=%s" % (hist, json.dumps(ev), f.get("diag"))


def record(ctx, pkg, test, files, env):
    rc, out = vlib.go_driver(ctx, pkg, test, files=files, timeout=ctx.pick(300, 900), env=env)
    p = vlib.panic_in_repo(out)
    if p:
        raise vlib.Violation("panic in the code under test: " + p, signature="panic")
    if rc != 0:
        raise vlib.Infra("%s recorder failed:\n%s" % (pkg, out[-3000:]))


def run(ctx):
    part = os.environ.get("VERIF_PART", "")
    if ctx.only is None and not os.environ.get("VERIF_SKIP_MC"):
        vlib.tlc_mc(ctx, "TypeRegistry", "TypeRegistry_MC.cfg", coverage=True, label="reg")
        vlib.tlc_mc(ctx, "TypeRegistry", "TypeRegistry_MC_unbounded.cfg", label="reg-unbounded")
        for v, inv in (("overwrite", "Unique"), ("early-full", "StepOK")):
            r = vlib.tlc_mc(ctx, "TypeRegistry", "TypeRegistry_MC_%s.cfg" % v, label="reg-" + v, expect_violation=True)
            if not r["violated"] or inv not in r["violated"]:
                raise vlib.Infra("sensitivity: the %s variant no longer violates %s" % (v, inv))
    files = []
    if part in ("", "tp"):
        record(ctx, "codec", "^TestVerifTypeParserRecord$", ["verif_typeparser_test.go"],
               {"VERIF_SYSDEPTH": ctx.pick(4, 5), "VERIF_SCENARIOS": ctx.pick(60, 600), "VERIF_FILL": ctx.pick(2, 8)})
        sp = os.path.join(ctx.work, "out", "tp_stats.json")
        st = json.load(open(sp))
        os.remove(sp)
        if ctx.only is None:
            for k, name in (("", "accepted"), ("dup", "duplicate"), ("full", "full")):
                ctx.add("typeparser_" + name, st.get(k, 0))
                if st.get(k, 0) == 0:
                    raise vlib.Infra("vacuity: no %s registration on the TypeParser" % name)
        files += vlib.scenario_files(ctx, "sys-") + vlib.scenario_files(ctx, "rnd-") + vlib.scenario_files(ctx, "fill-")
    if part in ("", "ap") and (ctx.only is None or ctx.only is vlib.ALL):
        record(ctx, "auth", "^TestVerifAuthProviderRecord$", ["verif_provider_test.go"],
               {"VERIF_SYSDEPTH": ctx.pick(4, 5), "VERIF_SCENARIOS": ctx.pick(40, 400)})
        files += vlib.scenario_files(ctx, "apsys-") + vlib.scenario_files(ctx, "aprnd-")
    distinct = set()
    for f in files:
        lines = vlib.read_ndjson(f)
        if any(l["ev"] == "reg" and l["err"] for l in lines):        # non-trivial = contains a refused registration
            distinct.add(hash(json.dumps([os.path.basename(f)[:2]] + [(l["ev"], l.get("id")) for l in lines])))
    ctx.add("evaluations", len(files))
    ctx.add("distinct_nontrivial", len(distinct))
    ctx.sample({"kind": "registry-trace", "lines": [{k: v for k, v in l.items() if k not in ("ids", "decs")}
                                                    for l in vlib.read_ndjson(files[len(files) // 3])[:4]]})
    fails = vlib.validate_scenarios(ctx, "TypeRegistry_Trace", "TypeRegistry_Trace.cfg", files, label="reg", signature_fn=sig)
    for f in files:
        os.remove(f)
    vlib.report_failures(ctx, fails, describe)
    ctx.cov["rule"] = ("TypeParser: all 8^N call sequences over {Register id 0..2, Unmarshal id 0..3, Unmarshal empty} "
                       "(N=4 quick, 5 thorough) + seeded histories over 2..13 ids anywhere in 0..255 + histories that "
                       "fill all 256 ids in a seeded order and go on; AuthProvider: all 6^N sequences + seeded histories; "
                       "non-trivial = contains a refused registration; distinct = distinct (call, id) sequences")
    ctx.assumptions += ["sequential use (registries are filled at start-up by one goroutine)",
                        "the AuthProvider's contents are observed through lookups only (it has no listing)"]
