"""C13 - unit prices follow the fee-market rule exactly.
design : FeeMarket_MC - the rule's algebraic properties (floor at min, direction, at least one unit, exact proportional amount,
         saturation, monotone in usage; window shift / capped sum / monotone) over the complete input table at a small word
         size                                                                                             [TLC exhaustive]
binding: (num) rows recorded from the real fees.Manager.ComputeNext on seeded + boundary 64-bit inputs; every row is a literal
         conjunct over the operators of spec/FeeMarket.tla evaluated by Apalache at MAXU = 2^64-1, W = 10; rows whose values fit
         TLC's integers are additionally validated by TLC against the same module (FeeMarket_Trace)"""
import concurrent.futures
import json
import os
import re
import shutil
import sys

import vlib

sys.path.insert(0, os.path.dirname(os.path.abspath(__file__)))
import _c13rows  # noqa: E402

LEVEL = "model_checking"
PKG = "internal/fees"
FILES = ["verif_feemarket_test.go"]
INT_FIELDS = ("enc_prev", "enc_last", "prev", "last", "target", "denom", "min", "lastSec", "nowMs", "next", "nlast",
              "rt_next", "rt_last", "rt_sec", "prices_d", "consumed_d")
SEQ_FIELDS = ("enc_w", "w", "nw", "rt_w")
SMALL = 1 << 30


def tlc_small(r, total):
    """row can be evaluated with TLC's 32-bit integers at MAXU = 2^30-1 without touching the word limit"""
    vals = [int(r[k]) for k in INT_FIELDS] + [int(x) for k in SEQ_FIELDS for x in r[k]]
    if max(vals) >= (1 << 20):
        return False
    prev, target = int(r["prev"]), int(r["target"])
    return prev * max(total, target) < SMALL and (prev + 1) * 64 < SMALL


def sig_of(r):
    if r.get("ev") == "win":
        return "window:roll-sum-update-differs-from-FeeMarket"
    tags, _, _ = _c13rows.classify(r)
    d = "up" if "up" in tags else "down" if "down" in tags else "equal"
    if "prev-below-min-" + d in tags and int(r["next"]) < int(r["min"]):
        return "next-price:%s:below-the-minimum-price" % d
    if "window-sum-overflows-before-the-last-slot" in tags:
        return "next-price:%s:window-sum-overflows-before-the-last-slot" % d
    if "intermediate-quotient-beyond-64-bits-result-fits" in tags:
        return "next-price:%s:intermediate-quotient-beyond-64-bits-result-fits" % d
    if "product-beyond-64-bits" in tags:
        return "next-price:%s:price-times-delta-beyond-64-bits" % d
    if "elapsed-factor-beyond-64-bits" in tags:
        return "next-price:down:elapsed-windows-factor-beyond-64-bits"
    return "row:%s:differs-from-FeeMarket" % d


def apalache_slice(ctx, idx, rows):
    """validate a slice of rows; returns list of failing rows (at most 3 per slice, the rest of the slice is still checked)"""
    bad = []
    start = 0
    attempt = 0
    while start < len(rows) and len(bad) < 3:
        part = rows[start:]
        mod = "FeeRows_%d_%d" % (idx, attempt)
        d = ctx.sub("apa-" + mod)
        shutil.copy(os.path.join(vlib.SPEC, "FeeMarket.tla"), d)
        txt, names = _c13rows.render(mod, part)
        ok, out = vlib.apalache_check(ctx, txt, mod, ",".join(names), label=mod, timeout=1500)
        m = re.search(r"Checking (\d+) state invariants", out)
        if not m or int(m.group(1)) != len(names):
            raise vlib.Infra("apalache checked %s invariants for %d rows" % (m.group(1) if m else None, len(names)))
        if ok:
            return bad, len(rows) - len(bad)
        m = re.search(r"state invariant (\d+) violated", out)
        if not m:
            raise vlib.Infra("apalache reported an error without naming the invariant:\n" + out[-1500:])
        k = int(m.group(1))
        bad.append(part[k])
        start += k + 1
        attempt += 1
    return bad, start - len(bad)


def run(ctx):
    if ctx.quick:
        # short JVM runs: C1-only JIT and two GC threads halve CPU and wall time on a loaded machine
        os.environ.setdefault("JAVA_TOOL_OPTIONS", "-XX:TieredStopAtLevel=1 -XX:ParallelGCThreads=2")
    if ctx.only is None:
        if ctx.quick:
            vlib.tlc_mc(ctx, "FeeMarket_MC", "FeeMarket_MC_quick.cfg", label="all")          # MAXU = 5, both tables
        else:
            vlib.tlc_mc(ctx, "FeeMarket_MC", "FeeMarket_MC_price.cfg", label="price")        # MAXU = 15
            vlib.tlc_mc(ctx, "FeeMarket_MC", "FeeMarket_MC_window.cfg", label="window")
        ctx.cov["exhaustive_at_small_word_size"] = True
        if not ctx.quick:
            # (violated by an initial state, TLC then prints no state count: run_tlc instead of tlc_mc)
            r = vlib.run_tlc(ctx, "mc-orig", "FeeMarket_MC", "FeeMarket_MC_original.cfg")
            hit = "Invariant OriginalAgrees is violated" in r["out"]
            ctx.cov["design_step_detects_wrapping_product"] = hit
            if not hit:
                raise vlib.Infra("sensitivity: the wrapping rule no longer differs from the exact rule in FeeMarket_MC")
    calls = ctx.pick(2, 400)
    rc, out = vlib.go_driver(ctx, PKG, "^TestVerifFeeMarketRows$", files=FILES, env={"VERIF_CALLS": calls})
    if rc != 0:
        raise vlib.Infra("fee market recorder failed:\n" + out[-3000:])
    rows = vlib.read_ndjson(os.path.join(ctx.work, "out", "rows.ndjson"))
    if ctx.only is None and len(rows) < 5 * (calls + ctx.pick(15, 23)) + ctx.pick(55, 180):
        raise vlib.Infra("recorder wrote %d rows for %d calls" % (len(rows), calls))
    if not rows:
        raise vlib.Infra("recorder wrote no rows")
    # ---- coverage statistics (labels only; the verdict comes from TLC/Apalache evaluating FeeMarket.tla)
    distinct = set()
    tagcount = {}
    small_rows = []
    win_rows = [r for r in rows if r.get("ev") == "win"]
    for r in win_rows:
        ws, rolled = [int(a) for a in r["w"]], [int(a) for a in r["rolled"]]
        tagcount["window-row"] = tagcount.get("window-row", 0) + 1
        if _c13rows.overflow_before_last(ws) or _c13rows.overflow_before_last(rolled):
            tagcount["window-row-sum-overflows-before-the-last-slot"] = \
                tagcount.get("window-row-sum-overflows-before-the-last-slot", 0) + 1
            distinct.add(("win",) + tuple(r["w"]) + (r["roll"], r["slot"], r["units"]))
    for r in rows:
        if r.get("ev") == "win":
            continue
        tags, since, total = _c13rows.classify(r)
        for t in tags:
            tagcount[t] = tagcount.get(t, 0) + 1
        key = tuple(r[k] for k in ("prev", "last", "target", "denom", "min", "lastSec", "nowMs")) + tuple(r["w"])
        if "equal" not in tags and tags & {"product-beyond-64-bits", "since>=window", "total-saturated",
                                           "elapsed-factor-beyond-64-bits"}:
            distinct.add(key)
        if tlc_small(r, total):
            small_rows.append(r)
    ctx.add("evaluations", len(rows))
    ctx.add("distinct_nontrivial", len(distinct))
    ctx.cov["rows_by_class"] = tagcount
    ctx.sample({"kind": "recorded-row", "row": rows[0]})
    ctx.sample({"kind": "recorded-row", "row": rows[len(rows) // 2]})
    if ctx.only is None:
        for t in ("up", "down", "product-beyond-64-bits", "since>=window", "total-saturated", "since-enormous",
                  "elapsed-factor-beyond-64-bits", "intermediate-quotient-beyond-64-bits-result-fits",
                  "window-sum-overflows-before-the-last-slot", "window-row-sum-overflows-before-the-last-slot",
                  "prev-below-min-up", "prev-below-min-equal", "prev-below-min-down"):
            if not tagcount.get(t):
                raise vlib.Infra("vacuity: no recorded row of class " + t)
        if not small_rows:
            raise vlib.Infra("vacuity: no row small enough for TLC")
    fails = []
    # ---- TLC on the small rows
    if small_rows:
        p = os.path.join(ctx.work, "out", "small.ndjson")
        with open(p, "w") as fh:
            fh.write(json.dumps({"ev": "reset"}) + "\n")
            for r in small_rows:
                q = {"ev": "row", "call": r["call"], "d": r["d"]}
                for k in INT_FIELDS:
                    q[k] = int(r[k])
                for k in SEQ_FIELDS:
                    q[k] = [int(x) for x in r[k]]
                fh.write(json.dumps(q) + "\n")
        tf = vlib.validate_scenarios(ctx, "FeeMarket_Trace", "FeeMarket_Trace.cfg", [p], label="tv-small")
        ctx.cov["rows_validated_by_tlc"] = len(small_rows) - (1 if tf else 0)
        for f in tf:
            ev = f["event"]
            orig = [r for r in rows if r["call"] == ev.get("call") and r["d"] == ev.get("d")]
            f["row"] = orig[0] if orig else ev
            f["signature"] = sig_of(f["row"]) if orig else "row:tlc"
            fails.append(f)
    # ---- Apalache on every row, 64-bit
    width = min(8, max(1, vlib.NCPU // 2))
    per = max(1, -(-len(rows) // width))
    slices = [rows[i:i + per] for i in range(0, len(rows), per)]
    validated = 0
    with concurrent.futures.ThreadPoolExecutor(max_workers=width) as ex:
        futs = [ex.submit(apalache_slice, ctx, i, sl) for i, sl in enumerate(slices)]
        for fu in futs:
            bad, okrows = fu.result()
            validated += okrows
            for r in bad:
                rep = vlib.save_replay(ctx, {"property": ctx.prop, "seed": ctx.seed, "tier": ctx.tier, "only": r["call"],
                                            "row": r, "classes": sorted(_c13rows.classify(r)[0]) if r.get("ev") != "win" else ["window-row"],
                                            "conjunct": _c13rows.row_conj(r)},
                                       name="%s-seed%d-call%d-d%d.json" % (ctx.tier, ctx.seed, r["call"], r["d"]))
                fails.append({"event": {"ev": "row", "call": r["call"], "d": r["d"]}, "row": r, "invariant": None,
                              "signature": sig_of(r), "replay": rep})
    ctx.cov["rows_validated_by_apalache"] = validated
    ctx.add("traces_validated_against_impl", validated)

    def describe(f):
        r = f.get("row", {})
        if r.get("ev") == "win":
            return ("window row %s: w=%s roll=%s -> rolled=%s Sum(w)=%s Sum(rolled)=%s; Update(slot %s, %s) -> Sum=%s" % (
                r.get("call"), ",".join(r["w"]), r["roll"], ",".join(r["rolled"]), r["sum_w"], r["sum_rolled"], r["slot"],
                r["units"], r["sum_updated"]))
        return ("call %s dim %s: prev=%s window=%s last=%s target=%s denom=%s min=%s lastSec=%s nowMs=%s -> next=%s "
                "(classes %s)" % (r.get("call"), r.get("d"), r.get("prev"), ",".join(r.get("w", [])), r.get("last"),
                                  r.get("target"), r.get("denom"), r.get("min"), r.get("lastSec"), r.get("nowMs"),
                                  r.get("next"), sorted(_c13rows.classify(r)[0]) if "w" in r else "?"))
    vlib.report_failures(ctx, fails, describe)
    ctx.cov["rule"] = ("hand-picked families (lead, boundary times, intermediate quotient beyond 64 bits, previous price below the minimum "
                       "in the up/equal/down branches, window sum overflowing at "
                       "every slot position, a 7/12-block history whose near-2^64 slot wanders through the window) and direct "
                       "window.Roll/Sum/Update/Last rows with near-max slots at every position, plus seeded "
                       "rows = (ComputeNext call, dimension) on chains of 1-4 blocks from seeded states: 25% small-valued, 75% "
                       "values of random bit length 0..64 / boundary values (0, 1, 2^32+-1, 2^63+-1, 2^64-1..3), elapsed seconds "
                       "in {0..39, 100, 1000, 2^20, 10*2^32, 2^40, 2^50} and time going backwards, consumption set through "
                       "SetLastConsumed; a row is non-trivial when the price moves and the price*delta product exceeds 64 bits, "
                       "or elapsed >= window, or the window total saturates, or the elapsed-windows factor exceeds 64 bits; "
                       "distinct = distinct input tuples")
    ctx.assumptions += ["target = 0 and denominator = 0 are excluded (division by zero in the code: invalid rules)",
                        "block time in milliseconds is non-negative",
                        "since/total passed to the Apalache rows are harness hints that the specification re-checks "
                        "(FM!Since(..) = since, FM!TotalOf(..) = total) before using them"]
