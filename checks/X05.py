"""X05 (extra, not in the manifest) - vm.VM.Submit: a transaction is pending iff Submit said nil, verdicts are per transaction,
everything pending is executable in the next block.
design : Admission_MC (Submit = pending check, PreExecute verdict, one Mempool.Add with its silent limits; Build takes the
         mempool; action properties SubmitOK (with the named exemption KF_X05_limit) and BuildOK, invariants PoolExecutable,
         NoReplay; "nohas" / "norepeat" variants and the un-exempted SubmitStrict must fail)        [TLC exhaustive]
binding: (tv) seeded batches of 1-3 transactions of known classes submitted to a real morpheusvm VM (vmtest), blocks built /
         verified / accepted in between; verdict classes, mempool membership of every transaction after every call and the
         contents / results of every block are validated by Admission_Trace"""
import json
import os
import vlib

LEVEL = "model_checking"
MOD = vlib.REPO + "/examples/morpheusvm"
KF = "admitted-but-dropped-by-mempool-limit"


def sig(fail):
    d = fail.get("diag") or ""
    return "%s:%s" % (fail.get("event", {}).get("ev"), d.strip("{} ").replace('"', "") or fail.get("invariant"))


def describe(f):
    if f.get("kf"):
        return "known: " + f["signature"]
    hist = [(l.get("ev"), [b.get("id") for b in l.get("batch", [])] or l.get("txs"), l.get("errs"), l.get("pool")) for l in f.get("scenario", [])][-5:]
    return "reset=%s history(tail)=%s failing line %s diag=%s" % (json.dumps(f.get("reset")), hist, json.dumps(f.get("event"))[:500], f.get("diag"))


def run(ctx):
    if ctx.only is None:
        vlib.tlc_mc(ctx, "Admission_MC", ctx.pick("Admission_MC_quick.cfg", "Admission_MC.cfg"), coverage=True)
        sens = (("strict", "SubmitStrict"),) if ctx.quick else (("strict", "SubmitStrict"), ("nohas", "SubmitOK"), ("norepeat", "NoReplay"))
        for cfg, inv in sens:
            r = vlib.tlc_mc(ctx, "Admission_MC", "Admission_MC_%s.cfg" % cfg, label=cfg, expect_violation=True)
            if not r["violated"] or inv not in r["violated"]:
                raise vlib.Infra("sensitivity: Admission_MC_%s no longer violates %s" % (cfg, inv))
    rc, out = vlib.go_driver(ctx, "vm", "^TestVerifSubmit$", module_dir=MOD, files=["verif_submit_test.go"], timeout=ctx.pick(900, 2400),
                             env={"VERIF_SCENARIOS": ctx.pick(10, 120), "VERIF_ROUNDS": ctx.pick(14, 20)})
    p = vlib.panic_in_repo(out)
    if p:
        raise vlib.Violation("panic in the code under test: " + p, signature="panic")
    if rc != 0:
        raise vlib.Infra("submit recorder failed:\n" + out[-3000:])
    sp = os.path.join(ctx.work, "out", "submit_stats.json")
    st = json.load(open(sp))
    os.remove(sp)
    files = vlib.scenario_files(ctx, "sub-")
    if ctx.only is None:
        for k in ("nil", "not-added", "duplicate", "expired", "future", "misaligned", "chain-id", "auth", "balance"):
            ctx.add("tv_verdict_" + k, st.get("verdict_" + k, 0))
            if st.get("verdict_" + k, 0) == 0:
                raise vlib.Infra("vacuity: no verdict of class " + k)
        ctx.add("tv_blocks", st.get("blocks", 0))
        other = [k for k in st if k.startswith("verdict_other")]
        if other:
            ctx.cov["tv_unclassified_verdicts"] = other[:5]
    distinct = set()
    nsub = 0
    for f in files:
        for l in vlib.read_ndjson(f):
            if l["ev"] == "submit":
                nsub += 1
                if any(e != "nil" for e in l["errs"]):      # non-trivial = a call with at least one rejection
                    distinct.add(hash(json.dumps([[b["sp"], b["defect"]] for b in l["batch"]] + l["errs"] + [len(l["pool"])])))
    ctx.add("evaluations", nsub)
    ctx.add("distinct_nontrivial", len(distinct))
    ctx.sample({"kind": "submit-trace", "first_lines": vlib.read_ndjson(files[0])[:4]})
    fails = vlib.validate_scenarios(ctx, "Admission_Trace", "Admission_Trace.cfg", files, label="sub", signature_fn=sig)
    for f in files:
        os.remove(f)
    vlib.report_failures(ctx, fails, describe)
    ctx.cov["rule"] = ("per VM 14 (quick) / 20 (thorough) Submit calls of 1-3 transactions drawn from {fine (sponsor a / b), something "
                       "still pending, something already accepted, underfunded sponsor, the previous transaction again in the same "
                       "call, expired / too far ahead / misaligned timestamp / wrong chain id / failing auth}; a block is built and "
                       "accepted after a third of the calls; every other VM has a per-sponsor limit of 2-3 and a mempool of 4-6. "
                       "evaluation = one Submit call; non-trivial = a call with a rejection; distinct = distinct (classes, verdicts, "
                       "mempool size)")
    ctx.assumptions += ["transactions carry at most one defect; expiries are >= 5 s away from the boundaries of their class",
                        "sponsors a / b can pay for everything pending; blocks are large enough for the whole mempool",
                        "manual builder / gossiper of vmtest: gossip hand-off and the build trigger are not observed (X02, X03)",
                        "the driver waits for the builder's asynchronous FinishStreaming before building (notes/C30.md)"]
