import importlib.util, os
import vlib
_s = importlib.util.spec_from_file_location("_c24_block", os.path.join(os.path.dirname(__file__), "_c24_block.py"))
bl = importlib.util.module_from_spec(_s)
_s.loader.exec_module(bl)
LEVEL = "model_checking"


def run(ctx):
    fails = bl.run_block_level(ctx, ctx.pick(40, 500))
    vlib.report_failures(ctx, fails, bl.ch.describe)
