"""C24 - block execution reads exactly the declared keys from parent state.
fetcher level (this file):
  design : spec/Fetcher.tla, the fetcher's goroutine structure (Fetch critical section + task sends, workers, set,
           handleErr/stop, Get, Wait) with Keys.WithoutPermissions in front, checked exhaustively by TLC
  binding: (tv) the real fetcher.Fetcher over a recording / gated / faulting parent state, fed through the real
           state.Keys.WithoutPermissions, under a seeded controller and TLC-generated schedules; every parent read,
           Fetch/Get/Stop/Wait call and return is validated by TLC against spec/FetcherContract.tla
block level (checks/_c24_block.py, written by the lead): real Processor.Execute with a recording parent view."""
import importlib.util
import json
import os
import random
import sys
import vlib
sys.path.insert(0, os.path.dirname(os.path.abspath(__file__)))
import _gated  # noqa: E402

_s = importlib.util.spec_from_file_location("_c24_block", os.path.join(os.path.dirname(__file__), "_c24_block.py"))
bl = importlib.util.module_from_spec(_s)
_s.loader.exec_module(bl)

LEVEL = "model_checking"
PKG = "internal/fetcher"
FILES = ["verif_fetcher_test.go"]
TEST = "^TestVerifFetcherRecord$"


def design(ctx):
    cfgs = ["Fetcher_MC_quick_safety.cfg", "Fetcher_MC_live_quick.cfg"]
    if not ctx.quick:
        cfgs += ["Fetcher_MC_quick.cfg", "Fetcher_MC_w2.cfg", "Fetcher_MC_k3.cfg"]
    for cfg in cfgs:
        r = vlib.tlc_mc(ctx, "Fetcher_MC", cfg, label=cfg[:-4], coverage=(cfg == "Fetcher_MC_quick_safety.cfg"),
                        allow_zero=("Terminating",), timeout=3000)
        if r["violated"]:
            raise vlib.Infra("design step: %s violates %s" % (cfg, r["violated"]))
    if not ctx.quick:
        r = vlib.tlc_mc(ctx, "Fetcher_MC", "Fetcher_MC_original.cfg", label="orig", expect_violation=True)
        ctx.cov["design_step_detects_empty_key_reads_of_WithoutPermissions"] = r["violated"]
        if not r["violated"]:
            raise vlib.Infra("sensitivity: the model of the originally coded WithoutPermissions reads only declared keys")
        r = vlib.tlc_mc(ctx, "Fetcher_MC", "Fetcher_MC_dupid.cfg", label="dupid", expect_violation=True)
        ctx.cov["design_step_detects_waiters_resolved_by_tx_id"] = r["violated"]
        if not r["violated"]:
            raise vlib.Infra("sensitivity: the model of waiters resolved through f.txs[id] no longer violates the contract")


def tlc_scripts(ctx, num):
    behs = vlib.tlc_behaviours(ctx, "FetcherContract_Gen", "FetcherContract_Gen.cfg", num=num, depth=90, label="gen")
    uniq = {json.dumps(b, sort_keys=True): b for b in behs if len(b["script"]) >= 5}
    rng = random.Random(ctx.seed)
    scs = []
    for b in uniq.values():
        calls = [{"tx": i + 1, "keys": sorted(k)} for i, k in enumerate(b["calls"])]
        if rng.random() < 0.3 and len(calls) > 1:          # the same transaction submitted twice
            calls[-1] = {"tx": calls[0]["tx"], "keys": list(calls[0]["keys"])}
        parent = {k: v for k, v in b["parent"].items() if k != "EMPTY"}
        scs.append({"workers": rng.choice([1, 2, 3, 4]), "txcap": rng.choice([1, len(calls), len(calls)]),
                    "calls": calls, "parent": parent, "label": "tlc-behaviour",
                    "script": [{"op": s["op"], "c": s["c"], "k": s["k"]} for s in b["script"]]})
    p = os.path.join(ctx.work, "scripts.json")
    json.dump(scs, open(p, "w"))
    ctx.add("tlc_behaviours_used_as_schedules", len(scs))
    if scs:
        ctx.sample({"kind": "tlc-generated-schedule", "calls": scs[0]["calls"], "script": scs[0]["script"][:10]})
    return p, len(scs)


def sig(f):
    ev = f.get("event", {})
    if ev.get("ev") == "read" and ev.get("k") == "EMPTY":
        return "read:empty-key-not-declared"
    return _gated.sig("FetcherContract")(f)


def fetcher_level(ctx):
    scripts, ns = tlc_scripts(ctx, ctx.pick(30, 400))
    n = ctx.pick(120, 2000) + 4 + ns
    summary, files = _gated.record(ctx, PKG, FILES, TEST, "fe", n, only=ctx.only, scripts=scripts)
    hangs = summary.get("hangs") or []
    if not hangs and ctx.only is None and len(files) < n:
        raise vlib.Infra("recorder wrote %d of %d scenarios" % (len(files), n))
    cnt = {"events": 0, "parent_reads": 0, "keys_read_more_than_once": 0, "with_overlapping_key_sets": 0,
           "with_duplicate_tx_id": 0, "with_read_error": 0, "get_ok": 0, "get_err": 0, "get_stopped": 0,
           "wait_ok": 0, "wait_err": 0, "wait_stopped": 0, "fetch_blocked_on_full_channel": 0}
    distinct = set()
    first = None
    for f in files:
        lines = vlib.read_ndjson(f)
        first = first or lines
        cnt["events"] += len(lines)
        calls = lines[0]["calls"]
        txs = [c["tx"] for c in calls]
        overlap = any(set(a["keys"]) & set(b["keys"]) for i, a in enumerate(calls) for b in calls[i + 1:])
        cnt["with_overlapping_key_sets"] += overlap
        cnt["with_duplicate_tx_id"] += len(set(txs)) < len(txs)
        reads = [l["k"] for l in lines if l["ev"] == "read"]
        cnt["parent_reads"] += len(reads)
        cnt["keys_read_more_than_once"] += len(reads) - len(set(reads))
        cnt["with_read_error"] += any(l["ev"] == "read_ret" and l["res"] == "err" for l in lines)
        for l in lines:
            if l["ev"] == "get_ret" and "get_" + l["res"] in cnt:
                cnt["get_" + l["res"]] += 1
            if l["ev"] == "wait_ret" and "wait_" + l["res"] in cnt:
                cnt["wait_" + l["res"]] += 1
        evs = [l["ev"] for l in lines]
        # a Fetch that returned only after a later gate was opened was blocked on the task channel
        for i, l in enumerate(lines):
            if l["ev"] == "fetch_call":
                j = next((x for x in range(i, len(lines)) if lines[x]["ev"] == "fetch_ret" and lines[x]["c"] == l["c"]), None)
                if j is not None and any(e == "read_ret" for e in evs[i:j]):
                    cnt["fetch_blocked_on_full_channel"] += 1
                    break
        if overlap or len(set(txs)) < len(txs) or any(l["ev"] == "read_ret" and l["res"] == "err" for l in lines):
            distinct.add(hash(json.dumps(lines[1:], sort_keys=True)))
    ctx.add("evaluations", len(files))
    ctx.add("distinct_nontrivial", len(distinct))
    ctx.cov["fetcher_paths"] = cnt
    ctx.sample({"kind": "recorded-fetcher-trace", "lines": (first or [])[:10]})
    fails = vlib.validate_scenarios(ctx, "FetcherContract_Trace", "FetcherContract_Trace.cfg", files, label="tvf",
                                    signature_fn=sig)
    confirmed = _gated.confirm_hangs(
        ctx, fails, lambda idx: _gated.record(ctx, PKG, FILES, TEST, "fe", n, only=idx, scripts=scripts)[0])
    vacuous = ctx.only is None and not confirmed and (cnt["with_overlapping_key_sets"] == 0 or cnt["get_err"] == 0
                                                      or cnt["with_duplicate_tx_id"] == 0 or cnt["get_ok"] == 0)
    if vacuous:
        raise vlib.Infra("vacuous fetcher run: %s" % cnt)
    for f in files:
        if os.path.exists(f):
            os.remove(f)
    return confirmed


def run(ctx):
    if ctx.only is None and not os.environ.get("VERIF_SKIP_DESIGN"):   # (dev aid for mutant self-tests)
        design(ctx)
    fails = fetcher_level(ctx)
    nf = len(fails)
    if not _gated.single(ctx) and not os.environ.get("VERIF_SKIP_BLOCK"):
        fails += bl.run_block_level(ctx, ctx.pick(30, 400))
    vlib.report_failures(ctx, fails, lambda f: _gated.describe(f) if f in fails[:nf] else bl.ch.describe(f))
    ctx.cov["rule"] = ("fetcher level: seeded controller over the real Fetcher: 1-6 Fetch calls over 1-5 keys (overlapping "
                       "sets, repeated transaction ids), fetch concurrency 1-16, task channel capacity 1..#calls, parent "
                       "values / absences / injected read errors, gated reads opened in seeded orders, Stop at a random "
                       "point, plus 4 directed scripts and TLC-generated schedules of FetcherContract; non-trivial = "
                       "overlapping key sets or a duplicate id or an injected error; distinct = distinct event sequences. "
                       "block level: see _c24_block.py")
    ctx.assumptions += ["Fetch is not called after Stop or Wait and Wait not while a Fetch is in flight (API contract)",
                        "a repeated transaction id comes with the same declared key set (a transaction id determines its "
                        "keys)",
                        "reading a declared key more than once is not counted as a violation (measured in evidence)"]
