"""C36 - DSMR chunk storage survives restarts unchanged.
design : DSMRStorage_MC (implementation-shaped model of x/dsmr/storage.go, memory + disk image, Reopen)   [TLC exhaustive]
binding: (tv)  seeded random histories recorded from the real ChunkStorage validated against DSMRStorage
         (mbt) TLC-generated behaviours of DSMRStorage replayed on the real ChunkStorage"""
import json
import os
import vlib

LEVEL = "model_checking"
PKG = "x/dsmr"
FILES = ["verif_storage_test.go"]


def sig(f):
    ev = f.get("event", {})
    if f.get("invariant"):
        return "%s:%s" % (ev.get("ev"), f["invariant"])
    if ev.get("ev") == "crash":
        return "crash-in-%s:reopened-state-is-neither-before-nor-after-the-call" % ev.get("op")
    return "%s:observable-differs-from-DSMRStorage" % ev.get("ev")


def run_driver(ctx, scenarios, depth, behs):
    """one go test invocation (one link of the test binary) runs the recorder and the replayer"""
    env = {"VERIF_SCENARIOS": scenarios, "VERIF_DEPTH": depth, "VERIF_PEBBLE_EVERY": ctx.pick(16, 8)}
    run = "^TestVerifStorageRecord$"
    if behs is not None:
        p = os.path.join(ctx.work, "storage-behaviours.json")
        with open(p, "w") as fh:
            json.dump(behs, fh)
        env["VERIF_BEHAVIOURS"] = p
        run = "^TestVerifStorage(Record|Replay)$"
    rc, out = vlib.go_driver(ctx, PKG, run, files=FILES, env=env)
    if rc != 0:
        raise vlib.Infra("storage driver failed:\n" + out[-3000:])


def binding_tv(ctx, scenarios):
    files = vlib.scenario_files(ctx, "st")
    if len(files) < (1 if ctx.only is not None else scenarios):
        raise vlib.Infra("recorder wrote %d of %d scenarios" % (len(files), scenarios))
    distinct = set()
    for f in files:
        lines = vlib.read_ndjson(f)
        saved_live = 0      # reopen after a chunk was saved as accepted while still unexpired
        seen_save = False
        for l in lines:
            if l["ev"] == "setmin" and l["save"]:
                seen_save = True
                ctx.add("setmin_with_save", 1)
            if l["ev"] == "setmin" and not l["save"]:
                ctx.add("setmin_expire_only", 1)
            if l["ev"] == "reopen":
                ctx.add("reopens", 1)
                if seen_save:
                    saved_live += 1
            if l["ev"] == "remote" and l["res"] == "rejected":
                ctx.add("verifier_rejections", 1)
            if l["ev"] == "crash":
                ctx.add("crashes_in_" + l["op"], 1)
                ctx.add("crashes_after_%d_writes" % l["writes"], 1)
                if l["op"] == "setmin" and l["save"]:
                    ctx.add("crashes_in_setmin_that_saves", 1)
        if saved_live:
            ctx.add("scenarios_reopened_after_save", 1)
            distinct.add(hash(tuple((l["ev"], l.get("c", ""), l.get("t", 0), tuple(l.get("save", [])), tuple(l["pend"]))
                                    for l in lines[1:])))
    ctx.add("evaluations", len(files))
    ctx.add("distinct_nontrivial", len(distinct))
    if ctx.only is None and not ctx.cov.get("scenarios_reopened_after_save"):
        raise vlib.Infra("vacuous: no scenario reopened the storage after saving a chunk")
    for k in ("crashes_in_setmin", "crashes_in_setmin_that_saves", "crashes_in_addlocal", "crashes_in_remote"):
        if ctx.only is None and not ctx.cov.get(k):
            raise vlib.Infra("vacuous: no recorded scenario has %s" % k)
    ctx.sample({"kind": "recorded-trace", "first_lines": vlib.read_ndjson(files[0])[:5]})
    fails = vlib.validate_scenarios(ctx, "DSMRStorage_Trace", "DSMRStorage_Trace.cfg", files, label="tv",
                                    signature_fn=sig)
    for f in files:
        os.remove(f)
    return fails


def generate(ctx, num):
    behs = vlib.tlc_behaviours(ctx, "DSMRStorage_Gen", "DSMRStorage_Gen.cfg", num=num, depth=14, label="gen")
    uniq = {json.dumps(b, sort_keys=True): b for b in behs}
    return list(uniq.values())


def binding_mbt(ctx, behs):
    rp = os.path.join(ctx.work, "out", "storage_replay_result.json")
    if not os.path.exists(rp):
        raise vlib.Infra("storage replayer wrote no result")
    r = json.load(open(rp))
    os.remove(rp)
    if r["behaviours"] != len(behs):
        raise vlib.Infra("replayer consumed %d of %d behaviours" % (r["behaviours"], len(behs)))
    mism = r["mismatches"] or []
    ctx.add("behaviours_replayed_on_impl", r["behaviours"])
    ctx.add("behaviour_steps_replayed", r["steps"])
    ctx.add("traces_validated_against_impl", r["behaviours"] - len(mism))
    ctx.add("evaluations", r["behaviours"])
    nontrivial = sum(1 for b in behs if any(s["op"] == "reopen" for s in b) and any(s["op"] == "setmin" and s["save"] for s in b))
    ctx.add("distinct_nontrivial", nontrivial)
    ctx.sample({"kind": "tlc-behaviour", "steps": [{k: s[k] for k in ("op", "c", "t", "save", "res", "pend")} for s in behs[0][:8]]})
    fails = []
    for m in mism:
        b = behs[m["behaviour"]]
        f = {"event": {"ev": m["op"]["op"], "what": m["what"], "got": m["got"],
                       "expected": {k: m["op"][k] for k in ("res", "pend", "get", "min")}}, "invariant": None}
        f["signature"] = "%s:observable-differs-from-DSMRStorage" % m["op"]["op"]
        f["replay"] = vlib.save_replay(ctx, {"property": ctx.prop, "seed": ctx.seed, "tier": ctx.tier,
                                            "behaviour": b[: m["step"] + 1], "mismatch": m},
                                       name="%s-seed%d-beh%d.json" % (ctx.tier, ctx.seed, m["behaviour"]))
        fails.append(f)
    return fails[:5]


def describe(f):
    return "line %s" % json.dumps(f.get("event"))[:500]


def run(ctx):
    if ctx.only is None:
        vlib.tlc_mc(ctx, "DSMRStorage_MC", ctx.pick("DSMRStorage_MC_quick.cfg", "DSMRStorage_MC.cfg"),
                    coverage=not ctx.quick)
        if not ctx.quick:
            r = vlib.tlc_mc(ctx, "DSMRStorage_MC", "DSMRStorage_MC_original.cfg", label="orig", expect_violation=True)
            ctx.cov["design_step_detects_pre_fix_SetMin"] = bool(r["violated"])
            if not r["violated"]:
                raise vlib.Infra("sensitivity: the model of the pre-fix SetMin no longer violates Durable")
            r = vlib.tlc_mc(ctx, "DSMRStorage_MC", "DSMRStorage_MC_twowrites.cfg", label="twowrites", expect_violation=True)
            ctx.cov["design_step_detects_two_write_SetMin"] = bool(r["violated"])
            if not r["violated"]:
                raise vlib.Infra("sensitivity: a SetMin of two separate durable writes no longer violates CrashAtomic")
    behs = generate(ctx, ctx.pick(20, 400)) if ctx.only is None else None
    scenarios = ctx.pick(150, 2000)
    run_driver(ctx, scenarios, ctx.pick(30, 60), behs)
    fails = binding_tv(ctx, scenarios)
    if behs is not None:
        fails += binding_mbt(ctx, behs)
    vlib.report_failures(ctx, fails, describe)
    ctx.cov["rule"] = ("tv: seeded random addlocal/remote/setcert/setmin(save subset of pending)/reopen histories (one call in five "
                       "with a crash point after 0-2 durable writes: the driver's database refuses the next write, the storage is "
                       "reopened on the image) over 5 chunks "
                       "of 3 producers on memdb (every 16th/8th scenario on pebble with a real close+open); a scenario is "
                       "non-trivial when it reopens after a SetMin that saved a chunk; distinct = distinct "
                       "(event,chunk,t,save,pending) sequences. mbt: TLC -simulate walks of DSMRStorage, deduplicated, "
                       "non-trivial by the same rule")
    ctx.assumptions += ["SetMin is called with ids of pending chunks and a non-decreasing minimum (what Node.Accept does); "
                        "a SetMin that returns an error is outside the histories of the statement",
                        "VerifyRemoteChunk is not called for a pending chunk that has no certificate (documented caller precondition)",
                        "chunk expiry 0 (never tracked by the expiry map) is not generated",
                        "certificates are not required to survive a reopen (the statement does not list them)",
                        "crash = every durable write after the crash point is lost, writes before it are complete (no torn batch: "
                        "database batches are atomic)"]
