"""Window-level part of C09: real TimeValidityWindow driven through seeded block trees (forks, accepts, builder-side
IsRepeat, restarts), every answer validated by spec/ValidityWindow_Trace.tla."""
import os
import re
import vlib

PKG = "internal/validitywindow"
FILES = ["verif_window_test.go"]


def sig(f):
    names = sorted(set(re.findall(r'"([^"]+)"', f.get("diag") or "")))
    return "window:" + ("+".join(names) if names else (f.get("invariant") or "unexplained-line"))


def run_window_level(ctx, scenarios, depth):
    rc, out = vlib.go_driver(ctx, PKG, "^TestVerifWindow$", env={"VERIF_SCENARIOS": scenarios, "VERIF_DEPTH": depth}, files=FILES)
    if rc != 0:
        pn = vlib.panic_in_repo(out)
        if pn:
            raise vlib.Violation("validity window panicked: " + pn, signature="panic")
        raise vlib.Infra("window recorder failed:\n" + out[-3000:])
    files = vlib.scenario_files(ctx, "sc")
    dup = isr = marked = restarts = 0
    shapes = set()
    for f in files:
        ls = vlib.read_ndjson(f)
        for l in ls:
            dup += l.get("res") == "duplicate"
            isr += l["ev"] == "isrepeat"
            marked += len(l.get("marked", []))
            restarts += l["ev"] == "restart"
        shapes.add(hash(tuple((l["ev"], l.get("res", ""), len(l.get("txs", []))) for l in ls)))
    ctx.add("window_scenarios", len(files))
    ctx.add("window_blocks_rejected_as_replay", dup)
    ctx.add("window_isrepeat_calls", isr)
    ctx.add("window_candidates_marked", marked)
    ctx.add("window_restarts", restarts)
    ctx.add("evaluations", len(files))
    ctx.add("distinct_nontrivial", len(shapes))
    ctx.sample({"kind": "window-trace", "lines": vlib.read_ndjson(files[0])[:8]})
    if ctx.only is None and (dup == 0 or marked == 0 or restarts == 0):
        raise vlib.Infra("vacuous: no replay rejected / no candidate marked / no restart in the recorded scenarios")
    fails = vlib.validate_scenarios(ctx, "ValidityWindow_Trace", "ValidityWindow_Trace.cfg", files, label="window", signature_fn=sig)
    for f in files:
        os.remove(f)
    return fails
