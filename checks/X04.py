"""X04 (extra, not in the manifest) - event.NotifyAll / Aggregate / Map / SubscriptionFunc deliver to every sink.
design : EventTree_MC (Notify / Close evaluated as coded over every subscription tree of a bounded shape against the
         flattened reading: every sink once, left to right, value mapped along its path, errors of exactly the failing
         sinks joined; the short-circuiting NotifyAll must violate NotifyConforms)               [TLC exhaustive]
binding: (tv) seeded trees of SubscriptionFunc sinks (failing / not failing, with / without Closer), Aggregate and Map
         built with the real package; Notify (or NotifyAll on an aggregate root's children) twice and Close once;
         what every sink saw and which sentinel errors errors.Is finds in the result are validated by EventTree_Trace"""
import json
import os
import vlib

LEVEL = "model_checking"


def sig(fail):
    d = fail.get("diag") or ""
    return "%s:%s" % (fail.get("event", {}).get("ev"), d.strip("{} ").replace('"', "") or fail.get("invariant"))


def describe(f):
    return "tree=%s failing line %s diag=%s" % (json.dumps(f.get("reset", {}).get("tree"))[:500], json.dumps(f.get("event"))[:300], f.get("diag"))


def run(ctx):
    if ctx.only is None:
        vlib.tlc_mc(ctx, "EventTree_MC", ctx.pick("EventTree_MC_quick.cfg", "EventTree_MC.cfg"))
        r = vlib.tlc_mc(ctx, "EventTree_MC", "EventTree_MC_shortcircuit.cfg", label="short", expect_violation=True)
        if not r["violated"] or "NotifyConforms" not in r["violated"]:
            raise vlib.Infra("sensitivity: the short-circuiting NotifyAll no longer violates NotifyConforms")
    rc, out = vlib.go_driver(ctx, "event", "^TestVerifEventRecord$", files=["verif_event_test.go"], timeout=300,
                             env={"VERIF_SCENARIOS": ctx.pick(600, 6000)})
    p = vlib.panic_in_repo(out)
    if p:
        raise vlib.Violation("panic in the code under test: " + p, signature="panic")
    if rc != 0:
        raise vlib.Infra("event recorder failed:\n" + out[-3000:])
    sp = os.path.join(ctx.work, "out", "event_stats.json")
    st = json.load(open(sp))
    os.remove(sp)
    files = vlib.scenario_files(ctx, "ev-")
    if ctx.only is None:
        for k in ("notify_failed", "close_failed", "several_failures", "three_or_more_sinks"):
            ctx.add("tv_" + k, st.get(k, 0))
            if st.get(k, 0) == 0:
                raise vlib.Infra("vacuity: trees never exercised " + k)
    distinct = set()
    for f in files:
        lines = vlib.read_ndjson(f)
        if any(l.get("errs") for l in lines[1:]) and len(lines[1]["log"]) >= 2:      # non-trivial: >= 2 sinks and a failure
            distinct.add(hash(json.dumps(lines[0])))
    ctx.add("evaluations", len(files))
    ctx.add("distinct_nontrivial", len(distinct))
    ctx.sample({"kind": "event-trace", "lines": vlib.read_ndjson(files[len(files) // 2])[:3]})
    fails = vlib.validate_scenarios(ctx, "EventTree_Trace", "EventTree_Trace.cfg", files, label="ev", signature_fn=sig)
    for f in files:
        os.remove(f)
    vlib.report_failures(ctx, fails, describe)
    ctx.cov["rule"] = ("seeded trees of depth 0-3, aggregates of 0-3 children, maps x -> x + k, sinks failing Notify / Close with "
                       "probability 1/4 and without Closer with probability 1/5; non-trivial = at least two sinks reached and "
                       "at least one failure; distinct = distinct trees")
    ctx.assumptions += ["subscriptions are used sequentially", "sinks are event.SubscriptionFunc values; errors are compared with errors.Is"]
