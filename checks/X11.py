"""X11 (extra, not in the manifest) - snow.VM lifecycle hooks: state starters / SetState, closers / Shutdown, health checkers.
design : VMLifecycle_MC (AddStarter / AddCloser / Register / SetState / Shutdown / Health; action properties SetStateOK,
         ShutdownOK, HealthOK, FirstRegistrationStays; a Shutdown that stops at the first failing closer violates ShutdownOK)
binding: (tv) seeded histories on a real, initialised snow.VM (builder F's harness, read-only): hooks registered for the three
         engine states, closers, named health checkers (duplicates), SetState (incl. an unknown state), HealthCheck, Shutdown
         twice; which hooks ran, in which order, and which errors the results contain are validated by VMLifecycle_Trace.
         Readiness / unresolved blocks are SnowVM.tla's (C18, C20, C21) and not repeated."""
import json
import os
import vlib

LEVEL = "model_checking"
FILES = ["verif_snowvm_test.go", "verif_lifecycle_test.go"]


def sig(fail):
    d = fail.get("diag") or ""
    return "%s:%s" % (fail.get("event", {}).get("ev"), d.strip("{} ").replace('"', "") or fail.get("invariant"))


def describe(f):
    hist = [(l.get("ev"), l.get("state", l.get("name")), l.get("id"), l.get("fails"), l.get("ran")) for l in f.get("scenario", [])][-10:]
    return "history(tail)=%s failing line %s diag=%s" % (hist, json.dumps(f.get("event"))[:300], f.get("diag"))


def run(ctx):
    if ctx.only is None:
        vlib.tlc_mc(ctx, "VMLifecycle", ctx.pick("VMLifecycle_MC_quick.cfg", "VMLifecycle_MC.cfg"), coverage=True)
        r = vlib.tlc_mc(ctx, "VMLifecycle", "VMLifecycle_MC_closerstop.cfg", label="closerstop", expect_violation=True)
        if not r["violated"] or "ShutdownOK" not in r["violated"]:
            raise vlib.Infra("sensitivity: a Shutdown that stops at the first failing closer no longer violates ShutdownOK")
    rc, out = vlib.go_driver(ctx, "snow", "^TestVerifLifecycle$", files=FILES, timeout=ctx.pick(600, 1800),
                             env={"VERIF_SCENARIOS": ctx.pick(40, 400)})
    p = vlib.panic_in_repo(out)
    if p:
        raise vlib.Violation("panic in the code under test: " + p, signature="panic")
    if rc != 0:
        raise vlib.Infra("lifecycle recorder failed:\n" + out[-3000:])
    sp = os.path.join(ctx.work, "out", "lc_stats.json")
    st = json.load(open(sp))
    os.remove(sp)
    files = vlib.scenario_files(ctx, "lc-")
    if ctx.only is None:
        for k in ("setstate", "setstate_failed", "shutdown_failed", "health", "duplicate_checker_refused"):
            ctx.add("tv_" + k, st.get(k, 0))
            if st.get(k, 0) == 0:
                raise vlib.Infra("vacuity: histories never showed " + k)
    distinct = set()
    for f in files:
        lines = vlib.read_ndjson(f)
        if any(l.get("errs") for l in lines):        # non-trivial = some call reported a failing hook
            distinct.add(hash(json.dumps(lines)))
    ctx.add("evaluations", len(files))
    ctx.add("distinct_nontrivial", len(distinct))
    ctx.sample({"kind": "lifecycle-trace", "lines": vlib.read_ndjson(files[0])[1:6]})
    fails = vlib.validate_scenarios(ctx, "VMLifecycle_Trace", "VMLifecycle_Trace.cfg", files, label="lc", signature_fn=sig)
    for f in files:
        os.remove(f)
    vlib.report_failures(ctx, fails, describe)
    ctx.cov["rule"] = ("per VM 14 calls out of {register a starter for sync / bootstrap / normal-op, a closer, a health checker named "
                       "a / b / c (a third of the hooks fail), SetState of one of the three states, SetState(99), HealthCheck}, then "
                       "Shutdown twice; non-trivial = some call reported a failing hook; distinct = distinct traces")
    ctx.assumptions += ["hooks are registered after Initialize on a ready VM; hooks registered by the chain inside Initialize and the "
                        "built-in closers are not observed", "single goroutine"]
