"""C26 - the verification worker pool runs every task and reports the first failure.
design : spec/Workers.tla, the goroutine/channel/wait-group structure of parallel_workers.go, checked
         exhaustively by TLC (safety invariants, deadlock, liveness under weak fairness)
binding: (tv) the real pools run gated closures under a seeded / scripted controller; the recorded
         call/return/start/end events are validated by TLC against spec/WorkersContract.tla.
         "no hang": 30 s watchdog in the driver AND the same scenario must hang again when replayed."""
import json
import os
import shutil
import vlib

LEVEL = "model_checking"
PKG = "internal/workers"
FILES = ["verif_workers_test.go"]
KF_PANIC = "newjob-overlapping-stop-panics-send-on-closed-channel"


def design(ctx):
    runs = [("Workers_MC_safety_w1.cfg", False), ("Workers_MC_live_j1.cfg", False)]
    if not ctx.quick:
        runs += [("Workers_MC_safety_quick.cfg", False), ("Workers_MC_safety_t3.cfg", False),
                 ("Workers_MC_live_quick.cfg", False), ("Workers_MC_live_w1.cfg", False),
                 ("Workers_MC_race.cfg", False)]
    for cfg, _ in runs:
        r = vlib.tlc_mc(ctx, "Workers_MC", cfg, label=cfg[:-4], coverage=(cfg == "Workers_MC_safety_w1.cfg"),
                        allow_zero=("WSkipAsOriginallyCoded", "Terminating"), timeout=1500)
        if r["violated"]:
            raise vlib.Infra("design step: %s violates %s (model of the repaired pool)" % (cfg, r["violated"]))
    if not ctx.quick:
        r = vlib.tlc_mc(ctx, "Workers_MC", "Workers_MC_original.cfg", label="orig", expect_violation=True)
        ctx.cov["design_step_detects_worker_return_on_error"] = r["violated"]
        if not r["violated"]:
            raise vlib.Infra("sensitivity: the model of the originally coded worker loop no longer deadlocks")
        r = vlib.tlc_mc(ctx, "Workers_MC", "Workers_MC_racelead.cfg", label="racelead", expect_violation=True)
        ctx.cov["design_step_shows_newjob_stop_panic"] = r["violated"]


def sig(f):
    ev = f.get("event", {})
    if ev.get("ev") == "hang":
        return "hang:" + str(ev.get("what", "")).split(":")[0]
    return "%s:%s" % (ev.get("ev"), f.get("invariant") or "not-allowed-by-WorkersContract")


def record(ctx, scenarios, watchdog, only=None, scripts=None):
    out = os.path.join(ctx.work, "out")
    shutil.rmtree(out, ignore_errors=True)
    env = {"VERIF_SCENARIOS": scenarios, "VERIF_WATCHDOG_S": watchdog}
    if only is not None:
        env["VERIF_ONLY"] = only
    if scripts:
        env["VERIF_SCRIPTS"] = scripts
    rc, outp = vlib.go_driver(ctx, PKG, "^TestVerifWorkersRecord$", files=FILES, env=env,
                              timeout=watchdog * 4 + 900)
    sp = os.path.join(out, "wk_summary.json")
    if rc != 0 or not os.path.exists(sp):
        raise vlib.Infra("workers recorder failed:\n" + outp[-3000:])
    return json.load(open(sp)), vlib.scenario_files(ctx, "wk")


def run(ctx):
    if ctx.only is None and not os.environ.get("VERIF_SKIP_DESIGN"):   # (dev aid for mutant self-tests)
        design(ctx)
    n = ctx.pick(250, 3000)
    watchdog = 30
    summary, files = record(ctx, n, watchdog, only=ctx.only)
    hangs = summary.get("hangs") or []
    if not hangs and ctx.only is None and len(files) < n:
        raise vlib.Infra("recorder wrote %d of %d scenarios" % (len(files), n))
    # measured coverage of the interesting paths
    distinct = set()
    cnt = {"failed_task_executed": 0, "tasks_skipped_after_failure": 0, "job_reported_shutdown": 0,
           "newjob_rejected": 0, "stop_mid_scenario": 0, "newjob_panic": 0, "serial": 0, "events": 0}
    panics = []
    traces = {}
    for f in files:
        lines = vlib.read_ndjson(f)
        traces[f] = lines
        cnt["events"] += len(lines)
        evs = [(l["ev"], l.get("j", 0), l.get("t", 0), l.get("res", "")) for l in lines]
        nontrivial = False
        if any(e[0] == "end" and e[3] == "fail" for e in evs):
            cnt["failed_task_executed"] += 1
            nontrivial = True
        gone = {(e[1], e[2]) for e in evs if e[0] == "go"}
        st = {(e[1], e[2]) for e in evs if e[0] == "start"}
        if gone - st:
            cnt["tasks_skipped_after_failure"] += 1
        if any(e[0] == "wait_ret" and e[3] == "shutdown" for e in evs):
            cnt["job_reported_shutdown"] += 1
            nontrivial = True
        if sum(1 for e in evs if e[0] == "newjob_ret" and e[3] == "shutdown") > 1:
            cnt["newjob_rejected"] += 1
        names = [e[0] for e in evs]
        if "stop_call" in names and "go" in names[names.index("stop_call"):]:
            cnt["stop_mid_scenario"] += 1
            nontrivial = True
        if any(e[0] == "newjob_ret" and e[3] == "panic" for e in evs):
            cnt["newjob_panic"] += 1
            panics.append(f)
        if lines[0].get("kind") == "serial":
            cnt["serial"] += 1
        if len({e[1] for e in evs if e[0] == "start"}) >= 2:
            nontrivial = True
        if nontrivial:
            distinct.add(hash(tuple(evs)))
    ctx.add("evaluations", len(files))
    ctx.add("distinct_nontrivial", len(distinct))
    ctx.cov["paths"] = cnt
    ctx.sample({"kind": "recorded-trace", "lines": traces[files[min(4, len(files) - 1)]][:10]})
    if ctx.only is None and not hangs and (cnt["failed_task_executed"] == 0 or cnt["job_reported_shutdown"] == 0
                                          or cnt["tasks_skipped_after_failure"] == 0):
        raise vlib.Infra("vacuous run: %s" % cnt)

    fails = vlib.validate_scenarios(ctx, "WorkersContract_Trace", "WorkersContract_Trace.cfg", files, label="tv",
                                    signature_fn=sig)
    # "no hang": a watchdog verdict counts only if the same scenario hangs again
    confirmed = []
    for f in fails:
        idx = f["reset"].get("sc")
        try:
            r = json.load(open(f["replay"]))
            r["only"] = idx
            json.dump(r, open(f["replay"], "w"), indent=1)
        except Exception:
            pass
        if f["event"].get("ev") != "hang":
            confirmed.append(f)
            continue
        if ctx.only is not None:
            confirmed.append(f)      # this run *is* the replay
            continue
        s2, files2 = record(ctx, n, watchdog, only=idx)
        if idx in (s2.get("hangs") or []):
            ctx.add("hangs_confirmed_by_replay", 1)
            confirmed.append(f)
        else:
            raise vlib.Infra("watchdog fired in scenario %s but the replay of the same schedule did not hang" % idx)
    # known deviation accepted by the trace spec (KF_C26_submit_races_stop): report it through the known-findings path
    for f in panics[:1]:
        if not any(x["scenario_file"] == f for x in fails):
            confirmed.append({"event": [l for l in traces[f] if l.get("res") == "panic"][0], "invariant": None,
                              "signature": KF_PANIC, "replay": None, "scenario_file": f, "reset": traces[f][0]})
    vlib.report_failures(ctx, confirmed,
                         lambda f: "scenario %s (%s) line %s" % (f["reset"].get("sc"), f["reset"].get("label", ""),
                                                                 json.dumps(f.get("event"))[:300]))
    if hangs and ctx.only is None:
        ctx.cov["note"] = "driver stopped after the first hang (%s); %d scenarios recorded" % (hangs, len(files))
    ctx.cov["rule"] = ("seeded controller over real NewParallel/NewSerial pools: workers in {1,2,3,4,16}, queue capacity in "
                       "{1,2,5}, 1-4 jobs of 0-5 gated tasks, failing tasks, Done callbacks, Stop at a random point, late "
                       "NewJob after Stop; plus 4 directed scripts. non-trivial = a failing task was executed, or a job "
                       "reported shutdown, or Stop was called before the last Go, or tasks of >=2 jobs ran; distinct = "
                       "distinct (event,job,task,result) sequences")
    ctx.assumptions += ["Stop is called at most once and Go/Done are called by one goroutine per job (API contract)",
                        "the Stop clause is not applied to SerialWorkers (no shutdown state; NewJob after Stop succeeds)",
                        "error identity: Wait must return the error of an executed failing task of the same job; which "
                        "of several concurrent failures is 'first' is not observable from outside"]
