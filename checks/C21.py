"""C21 - dynamic state sync hands over to normal operation consistently.
design : SnowVM_MC with StartSync / FinishSync at every admissible point (target at or behind the tip, accepts, rejects and
         vacuous verifies during sync, valid and invalid processing blocks)                       [TLC exhaustive]
binding: (tv) the C20 driver with sync steps: mid-sync start, sync jump ahead of the tip, finish at/behind the tip, finish
         between the engine's transitive rejections; HealthCheck and ConsensusIndex state logged after every step"""
import importlib.util
import os
import vlib

LEVEL = "model_checking"
_spec = importlib.util.spec_from_file_location("_snowvm", os.path.join(os.path.dirname(__file__), "_snowvm.py"))
S = importlib.util.module_from_spec(_spec)
_spec.loader.exec_module(S)


def run(ctx):
    if ctx.only is None:
        vlib.tlc_mc(ctx, "SnowVM_MC", ctx.pick("SnowVM_MC_sync_quick.cfg", "SnowVM_MC_sync.cfg"), timeout=3000)
        if not ctx.quick:
            r = vlib.tlc_mc(ctx, "SnowVM_MC", "SnowVM_MC_sync_orig.cfg", label="orig", expect_violation=True)
            ctx.cov["design_step_detects_pre_fix_FinishStateSync"] = bool(r["violated"] and "FinishNeverFails" in r["violated"])
            if not ctx.cov["design_step_detects_pre_fix_FinishStateSync"]:
                raise vlib.Infra("sensitivity: the model of the pre-fix verifyProcessingBlocks no longer violates FinishNeverFails")
    # the last scenarios finish state sync between the rejection of a parent and of its child
    races = ctx.pick(4, 40)
    fails, stats = S.record_and_validate(ctx, ["sync0", "syncahead"], ctx.pick(52, 940), ctx.pick(45, 70), "sync",
                                         tail_kind="race", tail=races)
    if ctx.only is None:
        if not stats.get("ev_finishsync") or not stats.get("ev_startsync"):
            raise vlib.Infra("vacuous run: no state sync hand-over recorded")
        if not stats.get("mid_health_probes"):
            raise vlib.Infra("vacuous run: no HealthCheck probe inside FinishStateSync recorded")
        ctx.cov["finish_between_transitive_rejections_scenarios"] = races
    vlib.report_failures(ctx, fails, S.describe)
    ctx.cov["rule"] = ("tv: seeded engine schedules with dynamic state sync: VM started mid-sync (optionally StartStateSync on the last "
                       "accepted block) or StartStateSync 0..3 blocks ahead of a quiescent ready VM; vacuous verifies, accepts and "
                       "rejections during sync; FinishStateSync at a random accepted block between the sync base and the tip, also "
                       "between an accept and its rejections ('race' scenarios: between the rejection of a parent and of its child); "
                       "valid and invalid processing blocks; non-trivial = a hand-over happened or a fork was decided; distinct = "
                       "distinct (event,result,#callbacks,#notifications) sequences")
    ctx.assumptions += ["engine assumptions of C20", "the sync client supplies the executed state of the target it finishes on",
                        "one state sync per VM lifetime; StartStateSync is called before consensus activity (no processing blocks)"]
