"""X13 (extra, not in the manifest) - load/: the gradual load-test orchestrator ramps, stops and reports as specified; the
tracker counts what it is told.
design : LoadRamp_MC (the window loop of GradualOrchestrator.run as written, stepped with monitors that ignore the
         attempts counter: RampShape, AchievedRule, GiveUpRule, WindowIsOnePeriod, IssueRateCoversTarget, StepOK; the
         variant that does not reset attempts must violate GiveUpRule; the code with Terminate = false violates
         WindowIsOnePeriod = known finding) and LoadTracker_MC                                   [TLC exhaustive]
binding: (tv) seeded scenarios of the real GradualOrchestrator against scripted stubs (tracker answers, cancellation,
         issuer / listener errors injected inside stub calls; frozen-target scenarios for the batch size); window TPS
         bounded by measured instants, the trace spec tracks the set of orchestrator states explaining the log;
         real PrometheusTracker histories incl. gathered metrics; real BurstOrchestrator scenarios (LoadBurst_MC /
         LoadBurst_Trace: ExactlyK, DoneIsLast, Verdict, Returns)"""
import json
import os
import vlib

LEVEL = "model_checking"


def sig(fail):
    d = fail.get("diag") or ""
    return "%s:%s" % (fail.get("event", {}).get("ev"), d.strip("{} ").replace('"', "") or fail.get("invariant"))


def describe(f):
    return "reset=%s failing line %s diag=%s" % (json.dumps(f.get("reset")), json.dumps(f.get("event"))[:400], f.get("diag"))


def record(ctx, test, files, env):
    rc, out = vlib.go_driver(ctx, "load", test, files=files, timeout=ctx.pick(300, 900), env=env)
    p = vlib.panic_in_repo(out)
    if p:
        raise vlib.Violation("panic in the code under test: " + p, signature="panic")
    if rc != 0:
        raise vlib.Infra("load recorder failed:\n%s" % out[-3000:])


def ramp(ctx):
    if ctx.only is None and not os.environ.get("VERIF_SKIP_MC"):
        vlib.tlc_mc(ctx, "LoadRamp", ctx.pick("LoadRamp_MC_quick.cfg", "LoadRamp_MC.cfg"), coverage=True, label="ramp")
        vlib.tlc_mc(ctx, "LoadRamp", "LoadRamp_MC_att0.cfg", label="ramp-att0")
        vlib.tlc_mc(ctx, "LoadRamp", "LoadRamp_MC_steady_window.cfg", label="ramp-steady-window")
        for cfg, inv in (("LoadRamp_MC_noreset.cfg", "GiveUpRule"), ("LoadRamp_MC_steady.cfg", "WindowIsOnePeriod")):
            r = vlib.tlc_mc(ctx, "LoadRamp", cfg, label="ramp-" + inv, expect_violation=True)
            if not r["violated"] or inv not in r["violated"]:
                raise vlib.Infra("sensitivity: %s no longer violates %s" % (cfg, inv))
    record(ctx, "^TestVerifRampRecord$", ["verif_ramp_test.go"],
           {"VERIF_SCENARIOS": ctx.pick(160, 900), "VERIF_FREEZE": ctx.pick(24, 120)})
    files = vlib.scenario_files(ctx, "ramp-")
    st = {"reached": 0, "gaveup_or_stopped": 0, "cancel": 0, "issuer_error": 0, "listener_error": 0, "steady": 0,
          "freeze_second_batch": 0, "windows": 0}
    distinct = set()
    for f in files:
        lines = vlib.read_ndjson(f)
        rs, end = lines[0], lines[-1]
        rounds = [x for x in lines if x["ev"] == "round"]
        st["windows"] += max(0, len(rounds) - 1)
        st["reached"] += 1 if (end["ev"] == "end" and not end["failed"]) else 0
        st["gaveup_or_stopped"] += 1 if (end["ev"] == "end" and end["failed"]) else 0
        st["cancel"] += 1 if any(x["cancel"] for x in rounds) else 0
        st["issuer_error"] += 1 if end.get("injI") else 0
        st["listener_error"] += 1 if end.get("injL") else 0
        st["steady"] += 1 if (not rs["term"] and end["ev"] == "end" and not end["failed"]) else 0
        if rs["freeze"] >= 0 and end["ev"] == "end":
            b1 = ((rs["min"] + rs["n"] - 1) // rs["n"]) * rs["mp"] // rs["mq"]
            st["freeze_second_batch"] += 1 if all(a["calls"] > b1 for a in end["agents"]) else 0
        if len(rounds) >= 3:        # non-trivial = at least two evaluated windows
            distinct.add(hash(json.dumps([rs[k] for k in ("min", "max", "step", "att", "term", "n", "mp", "mq")] +
                                         [(x["c"], x["cancel"], x["ierr"]) for x in rounds])))
    if ctx.only is None:
        for k, v in st.items():
            ctx.add("ramp_" + k, v)
            if v == 0:
                raise vlib.Infra("vacuity: no ramp scenario exercised " + k)
    ctx.add("evaluations", len(files))
    ctx.add("distinct_nontrivial", len(distinct))
    if files:
        ctx.sample({"kind": "ramp-trace", "first_lines": vlib.read_ndjson(files[len(files) // 2])[:4]})
    fails = vlib.validate_scenarios(ctx, "LoadRamp_Trace", "LoadRamp_Trace.cfg", files, label="ramp", signature_fn=sig)
    for f in files:
        os.remove(f)
    return fails


def tracker(ctx):
    if ctx.only is None and not os.environ.get("VERIF_SKIP_MC"):
        vlib.tlc_mc(ctx, "LoadTracker", "LoadTracker_MC.cfg", coverage=True, label="tracker")
        r = vlib.tlc_mc(ctx, "LoadTracker", "LoadTracker_MC_dedupe.cfg", label="tracker-dedupe", expect_violation=True)
        if not r["violated"] or "CountsCalls" not in r["violated"]:
            raise vlib.Infra("sensitivity: the de-duplicating tracker no longer violates CountsCalls")
    record(ctx, "^TestVerifTrackerRecord$", ["verif_ramp_test.go", "verif_tracker_test.go"],
           {"VERIF_TRK_SCENARIOS": ctx.pick(60, 400), "VERIF_TRK_DEPTH": ctx.pick(40, 80)})
    files = vlib.scenario_files(ctx, "trk-")
    distinct, rep, unk = set(), 0, 0
    for f in files:
        lines = vlib.read_ndjson(f)
        seen, pend = set(), set()
        for x in lines:
            if x["ev"] == "issue":
                rep += 1 if x["tx"] in pend else 0
                pend.add(x["tx"]); seen.add(x["tx"])
            elif x["ev"] in ("confirm", "fail"):
                unk += 1 if x["tx"] not in pend else 0
                pend.discard(x["tx"])
        if len(lines) > 3:
            distinct.add(hash(json.dumps([(x["ev"], x.get("tx"), x.get("ni")) for x in lines])))
    if ctx.only is None:
        ctx.add("tracker_repeated_issue", rep)
        ctx.add("tracker_unknown_observed", unk)
        if rep == 0 or unk == 0:
            raise vlib.Infra("vacuity: tracker histories without a repeated Issue / an outcome for a non-outstanding transaction")
    ctx.add("evaluations", len(files))
    ctx.add("distinct_nontrivial", len(distinct))
    fails = vlib.validate_scenarios(ctx, "LoadTracker_Trace", "LoadTracker_Trace.cfg", files, label="tracker", signature_fn=sig)
    for f in files:
        os.remove(f)
    return fails


def burst(ctx):
    if ctx.only is None and not os.environ.get("VERIF_SKIP_MC"):
        vlib.tlc_mc(ctx, "LoadBurst", "LoadBurst_MC.cfg", coverage=True, label="burst", allow_zero=("Finished",))
        r = vlib.tlc_mc(ctx, "LoadBurst", "LoadBurst_MC_nodefer.cfg", label="burst-nodefer", expect_violation=True)
        if not r["violated"] or "ExactlyK" not in r["violated"]:
            raise vlib.Infra("sensitivity: skipping IssuingDone on failure no longer violates ExactlyK")
    record(ctx, "^TestVerifBurstRecord$", ["verif_ramp_test.go", "verif_burst_test.go"],
           {"VERIF_BURST_SCENARIOS": ctx.pick(150, 1500)})
    files = vlib.scenario_files(ctx, "burst-")
    st = {"issuer_error": 0, "listener_error": 0, "timeout": 0}
    distinct = set()
    for f in files:
        lines = vlib.read_ndjson(f)
        b = lines[-1]
        st["issuer_error"] += 1 if b["result"] == "ierr" else 0
        st["listener_error"] += 1 if b["result"] == "lerr" else 0
        st["timeout"] += 1 if (b["result"] != "ierr" and any(a["lkind"] == "stuck" for a in b["agents"])) else 0
        if lines[0]["k"] >= 1:
            distinct.add(hash(json.dumps([lines[0]["k"]] + [(a["fail"], a["lkind"]) for a in b["agents"]])))
    if ctx.only is None:
        for k, v in st.items():
            ctx.add("burst_" + k, v)
            if v == 0:
                raise vlib.Infra("vacuity: no burst scenario exercised " + k)
    ctx.add("evaluations", len(files))
    ctx.add("distinct_nontrivial", len(distinct))
    fails = vlib.validate_scenarios(ctx, "LoadBurst_Trace", "LoadBurst_Trace.cfg", files, label="burst", signature_fn=sig)
    for f in files:
        os.remove(f)
    return fails


def run(ctx):
    part = os.environ.get("VERIF_PART", "")
    fails = []
    if part in ("", "ramp"):
        fails += ramp(ctx)
    single = ctx.only is not None and ctx.only is not vlib.ALL      # --replay of one ramp scenario
    if part in ("", "tracker") and not single:
        fails += tracker(ctx)
    if part in ("", "burst") and not single:
        fails += burst(ctx)
    vlib.report_failures(ctx, fails, describe)
    ctx.cov["rule"] = ("ramp: seeded configurations (MinTPS 1..300, Step 1..150, MaxTPS up to 4 steps above or below "
                       "MinTPS, MaxAttempts 0..3, Terminate, 1..3 agents, 6 multipliers) x scripted window answers "
                       "with at most one injected fault; non-trivial = at least two evaluated windows; distinct = "
                       "distinct (configuration, answers, faults).  tracker: seeded histories over 1..6 transaction ids "
                       "incl. one concurrent burst; non-trivial = more than 3 calls; distinct = distinct call sequences")
    ctx.assumptions += ["the orchestrator's only inputs are the tracker's confirmed counter, its clock, the contexts and "
                        "the issuers' / listeners' return values (all stubbed or measured)",
                        "goroutines started by the orchestrator get scheduled within seconds (freeze scenarios)"]
