"""C32 - pubsub message batching delivers in order within the size limit.
design : MsgBuffer_MC - every Send/TimerFlush/Close/Drain interleaving over small max/capacity/sizes  [TLC exhaustive]
         MsgBufferClose - mutex protocol between Close (timer.Stop) and the timer callback: Close returns [TLC, liveness]
binding: (tv) seeded scenarios recorded from the real pubsub.MessageBuffer (exported API only) validated against
         MsgBuffer_Trace: drained batches must be the spec queue's head, real encoded length == spec WireSize, <= max"""
import json
import os
import vlib

LEVEL = "model_checking"
PKG = "pubsub"
FILES = ["verif_msgbuffer_test.go"]


def sig(f):
    ev = f.get("event", {})
    if ev.get("ev") == "drain" and ev.get("got") == 1 and ev.get("wire", 0) > f.get("reset", {}).get("max", 1 << 60):
        return "drain:batch-encodes-larger-than-max"
    if ev.get("ev") == "close" and ev.get("res") == "hung":
        return "close:never-returns-while-timer-callback-waits-for-the-mutex"
    return "%s:%s" % (ev.get("ev"), f.get("invariant") or "not-explained-by-MsgBuffer")


def describe(f):
    r = f.get("reset", {})
    return "max=%s cap=%s scenario=%s line %s" % (r.get("max"), r.get("cap"), r.get("sc"),
                                                  json.dumps(f.get("event"))[:300])


def run(ctx):
    if ctx.quick:
        # short JVM runs: C1-only JIT and two GC threads halve CPU and wall time on a loaded machine
        os.environ.setdefault("JAVA_TOOL_OPTIONS", "-XX:TieredStopAtLevel=1 -XX:ParallelGCThreads=2")
    if ctx.only is None:
        vlib.tlc_mc(ctx, "MsgBuffer_MC", ctx.pick("MsgBuffer_MC_quick.cfg", "MsgBuffer_MC.cfg"), coverage=True,
                    allow_zero=("MCSendOrig", "SendAsOriginallyCoded"))
        vlib.tlc_mc(ctx, "MsgBufferClose", "MsgBufferClose.cfg", label="close", workers=2)
        if not ctx.quick:
            r = vlib.tlc_mc(ctx, "MsgBufferClose", "MsgBufferClose_original.cfg", label="close-orig", workers=2,
                            expect_violation=True)
            ctx.cov["design_step_detects_stop_under_mutex"] = bool(r["violated"])
            if not r["violated"]:
                raise vlib.Infra("sensitivity: Stop() under the mutex no longer deadlocks in MsgBufferClose")
            r = vlib.tlc_mc(ctx, "MsgBuffer_MC", "MsgBuffer_MC_original.cfg", label="orig", expect_violation=True)
            ctx.cov["design_step_detects_payload_only_accounting"] = bool(r["violated"])
            if not r["violated"] or "BatchWithinMax" not in r["violated"]:
                raise vlib.Infra("sensitivity: the model of payload-only pendingSize no longer violates BatchWithinMax")
    scenarios = ctx.pick(150, 3000)
    rc, out = vlib.go_driver(ctx, PKG, "^TestVerifMsgBufferRecord$", files=FILES, env={"VERIF_SCENARIOS": scenarios})
    if rc != 0:
        raise vlib.Infra("msgbuffer recorder failed:\n" + out[-3000:])
    files = vlib.scenario_files(ctx, "sc")
    if len(files) < (1 if ctx.only is not None else scenarios):
        raise vlib.Infra("recorder wrote %d of %d scenarios" % (len(files), scenarios))
    distinct = set()
    for f in files:
        lines = vlib.read_ndjson(f)
        r = lines[0]
        drains = [l for l in lines if l["ev"] == "drain" and l["got"] == 1]
        multi = [d for d in drains if len(d["msgs"]) >= 2]
        near = [d for d in drains if d["wire"] >= r["max"] - 3]
        ctx.add("batches_drained", len(drains))
        ctx.add("batches_with_2plus_messages", len(multi))
        ctx.add("batches_within_3_bytes_of_max_or_above", len(near))
        ctx.add("sends_rejected_too_large", sum(1 for l in lines if l["ev"] == "send" and l["res"] == "toolarge"))
        ctx.add("sends_rejected_closed", sum(1 for l in lines if l["ev"] == "send" and l["res"] == "closed"))
        ctx.add("timer_mode_scenarios", 1 if r["mode"] == "timer" else 0)
        ctx.add("close_forced_against_timer_callback", sum(1 for l in lines if l["ev"] == "close" and l.get("forced")))
        ctx.add("close_hung", sum(1 for l in lines if l["ev"] == "close" and l["res"] == "hung"))
        # queue-full situations: a send/tick observed with qlen == cap
        ctx.add("observations_with_full_queue", sum(1 for l in lines if l["ev"] == "obs" and l["qlen"] == r["cap"]))
        if multi and near:
            distinct.add(hash(tuple((l["ev"], l.get("len", 0), l.get("res", ""), l.get("got", 0), l.get("wire", 0))
                                    for l in lines[1:]) + (r["max"], r["cap"])))
    ctx.add("evaluations", len(files))
    ctx.add("distinct_nontrivial", len(distinct))
    ctx.sample({"kind": "recorded-trace", "first_lines": vlib.read_ndjson(files[0])[:10]})
    if ctx.only is None:
        for k in ("batches_with_2plus_messages", "batches_within_3_bytes_of_max_or_above", "sends_rejected_too_large",
                  "sends_rejected_closed", "timer_mode_scenarios", "observations_with_full_queue"):
            if not ctx.cov.get(k):
                raise vlib.Infra("vacuity: no scenario exercised " + k)
        if not ctx.cov.get("close_forced_against_timer_callback"):
            # the gate needs the buffer to log under its mutex while Close flushes into a full queue; a refactoring may
            # remove that log line, which is not a defect: the Close/timer race is then only covered unforced
            vlib.log("note: gate scenarios could not hold Close inside its critical section (no log call under the mutex); "
                     "the Close-vs-timer schedule was only exercised unforced by the timer-mode scenarios")
    fails = vlib.validate_scenarios(ctx, "MsgBuffer_Trace", "MsgBuffer_Trace.cfg", files, label="tv", signature_fn=sig)
    for f in fails:
        # replay of a single scenario: bin/check C32 --replay <artefact> reruns scenario `only`
        try:
            p = json.load(open(f["replay"]))
            p["only"] = f["reset"].get("sc")
            json.dump(p, open(f["replay"], "w"), indent=1)
        except Exception:
            pass
    vlib.report_failures(ctx, fails, describe)
    ctx.cov["rule"] = ("tv: seeded scenarios (15-64 steps) of Send with payload sizes concentrated at 0, 1, max/2, max-4..max+1 "
                       "and the varint boundaries 127/128 and 16383/16384, non-blocking reads of Queue, sleeps (timer mode, "
                       "2 ms timeout), Close in the middle/at the end, max in {10,64,130,131,300,16500,random}, capacity 1-3; "
                       "a scenario is non-trivial when it drained a batch of >= 2 messages and a batch whose encoding is within "
                       "3 bytes of max or above; distinct = distinct (event, size, result, encoded length) sequences")
    ctx.assumptions += ["messages are identified by (length, crc32 of content); payloads of >= 3 bytes carry a unique id",
                        "the consumer is the driver itself (non-blocking reads), so the spec's queue is the real channel content",
                        "a size rejection is accepted only for messages within 11 bytes (maximal framing) of max"]
