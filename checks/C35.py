"""C35 - accepting a DSMR block yields its referenced chunks whether local or fetched.
design : DSMRNodeAccept_MC (Accept loop over local / remote chunks against every peer response script)   [TLC exhaustive]
binding: (tv) Accept calls recorded from a real dsmr.Node with scripted get-chunk peers, validated against DSMRNodeAccept"""
import json
import os
import re
import vlib

LEVEL = "model_checking"
PKG = "x/dsmr"
FILES = ["verif_node_common_test.go", "verif_accept_test.go"]


def sig(f):
    ev = f.get("event", {})
    sc = f.get("scenario", [])
    prev = sc[-2] if len(sc) >= 2 else {}
    kind = ev.get("ev")
    if f.get("invariant"):
        return "%s:%s" % (kind, f["invariant"])
    if kind == "accept_ret" and ev.get("res") == "hang":
        return "accept:no-return-after-valid-chunk-served"
    if kind == "req" and prev.get("ev") == "req" and prev.get("kind") == "valid" and prev.get("want") == ev.get("want"):
        return "accept:refuses-served-valid-chunk-and-asks-again"
    if kind == "accept_ret" and ev.get("res") == "err" and prev.get("ev") == "req" and prev.get("kind") == "valid":
        return "accept:fails-after-successful-remote-fetch"
    if prev.get("ev") == "req" and prev.get("kind") == "wrong":
        return "accept:takes-wrong-chunk-for-referenced-one"
    if kind == "accept_ret" and ev.get("res") == "err":
        return "accept:fails"
    if kind == "accept_ret" and len(set(ev.get("chunks", []))) != len(ev.get("chunks", [])):
        return "accept:chunk-twice-in-executed-block"
    if kind == "accept_ret":
        return "accept:chunks-differ-from-certificates"
    return "%s:unexplained" % kind


def describe(f):
    sc = f.get("scenario", [])
    call = [l for l in sc if l.get("ev") == "accept_call"][-1:] or [{}]
    return "block %s script %s -> %s" % (json.dumps(call[0].get("certs")), json.dumps(call[0].get("script")),
                                         json.dumps(f.get("event"))[:300])


def run(ctx):
    if ctx.only is None:
        vlib.tlc_mc(ctx, "DSMRNodeAccept_MC", ctx.pick("DSMRNodeAccept_MC_quick.cfg", "DSMRNodeAccept_MC.cfg"),
                    coverage=not ctx.quick, allow_zero=("AcceptFail",), timeout=1500)
        if not ctx.quick:
            r = vlib.tlc_mc(ctx, "DSMRNodeAccept_MC", "DSMRNodeAccept_MC_original.cfg", label="orig", expect_violation=True)
            ctx.cov["design_step_detects_pre_fix_Accept"] = bool(r["violated"])
            if not r["violated"]:
                raise vlib.Infra("sensitivity: the model of the pre-fix Accept no longer violates NeverFails")
            # variant in which VerifyRemoteChunk rate-limits fetched chunks: must violate the liveness property Served
            r = vlib.run_tlc(ctx, "mc-ratelimited", "DSMRNodeAccept_MC", "DSMRNodeAccept_MC_ratelimited.cfg", timeout=900)
            hit = "Temporal property Served was violated" in r["out"] or "Temporal properties were violated" in r["out"]
            ctx.cov["design_step_detects_rate_limited_fetch"] = hit
            if not hit:
                raise vlib.Infra("sensitivity: the rate-limited fetch variant no longer violates Served:\n" + r["out"][-1500:])
            r = vlib.tlc_mc(ctx, "DSMRNodeAccept_MC", "DSMRNodeAccept_MC_appendfirst.cfg", label="appendfirst", expect_violation=True)
            ctx.cov["design_step_detects_append_before_store"] = bool(r["violated"])
            if not r["violated"]:
                raise vlib.Infra("sensitivity: appending the response before storing it no longer violates PrefixExact")
    scenarios = ctx.pick(120, 2000)
    rc, out = vlib.go_driver(ctx, PKG, "^TestVerifAcceptRecord$", files=FILES, env={"VERIF_SCENARIOS": scenarios}, timeout=1500)
    if rc != 0:
        raise vlib.Infra("accept recorder failed:\n" + out[-3000:])
    files = vlib.scenario_files(ctx, "ac")
    hung_files = [f for f in files if any(l.get("res") == "hang" for l in vlib.read_ndjson(f))]
    # the recorder stops after the first scenario whose Accept did not return (the abandoned call keeps spinning)
    if len(files) < (1 if (ctx.only is not None and ctx.only is not vlib.ALL) else scenarios) and not hung_files:
        raise vlib.Infra("recorder wrote %d of %d scenarios" % (len(files), scenarios))
    distinct = set()
    for f in files:
        lines = vlib.read_ndjson(f)
        remote = False
        for i, l in enumerate(lines):
            if l["ev"] == "req":
                ctx.add("requests_" + l["kind"], 1)
                remote = True
            if l["ev"] == "accept_call":
                stored = {x["c"] for x in lines[:i] if x["ev"] == "store"}
                loc = sum(1 for c in l["certs"] if c in stored)
                ctx.add("blocks_all_local" if loc == len(l["certs"]) else
                        "blocks_all_remote" if loc == 0 else "blocks_mixed", 1)
            if l["ev"] == "accept_ret":
                ctx.add("accept_" + l["res"], 1)
                if l["res"] == "hang":
                    ctx.add("hangs_seen", 1)
        if remote:
            distinct.add(hash(tuple((l["ev"], tuple(l.get("certs", [])), tuple(l.get("script", [])), l.get("c", ""), l.get("kind", ""))
                                    for l in lines[1:])))
    ctx.add("evaluations", len(files))
    ctx.add("distinct_nontrivial", len(distinct))
    for k in ("requests_valid", "requests_wrong", "requests_error", "requests_badsig", "blocks_mixed", "blocks_all_remote"):
        if ctx.only is None and not hung_files and not ctx.cov.get(k):     # a recorder that stopped at a hang saw little
            raise vlib.Infra("vacuous: no recorded scenario exercised %s" % k)
    ctx.sample({"kind": "recorded-trace", "first_lines": vlib.read_ndjson(files[0])[:8]})
    # the trace spec marks (PrintT) every valid chunk that is fetched while its producer's pending weight on the acceptor
    # is already at the rule's limit, and every pre-block store over the limit (must be 0: the driver asks CheckRateLimit)
    ctx.cov["fetches_with_producer_at_rate_limit"] = 0
    ctx.cov["stores_over_rate_limit"] = 0
    ctx.cov["fetches_retried_after_local_store_failure"] = 0
    orig = vlib.tlc_trace

    def capture(*a, **k):
        r = orig(*a, **k)
        ctx.cov["fetches_with_producer_at_rate_limit"] += len(set(re.findall(r'FETCH_OVER_LIMIT", (\d+)', r["out"])))
        ctx.cov["stores_over_rate_limit"] += len(set(re.findall(r'STORE_OVER_LIMIT", (\d+)', r["out"])))
        ctx.cov["fetches_retried_after_local_store_failure"] += len(set(re.findall(r'STORE_FAIL_RETRY", (\d+)', r["out"])))
        return r
    vlib.tlc_trace = capture
    try:
        fails = vlib.validate_scenarios(ctx, "DSMRNodeAccept_Trace", "DSMRNodeAccept_Trace.cfg", files, label="tv",
                                        signature_fn=sig)
    finally:
        vlib.tlc_trace = orig
    if hung_files and any(f.get("signature") == "accept:no-return-after-valid-chunk-served" for f in fails) \
            and (ctx.only is None or ctx.only is vlib.ALL):
        # "no hang": the watchdog alone decides nothing; the same seeded scenario must hang again when replayed alone
        hung = hung_files[0]
        num = int(os.path.basename(hung)[2:7])
        keep = open(hung).read()
        rc2, out2 = vlib.go_driver(ctx, PKG, "^TestVerifAcceptRecord$", files=FILES,
                                   env={"VERIF_SCENARIOS": scenarios, "VERIF_ONLY": num, "VERIF_WATCHDOG_S": 45}, timeout=600)
        again = any(l.get("res") == "hang" for l in vlib.read_ndjson(hung)) if rc2 == 0 else False
        if not again:
            open(hung, "w").write(keep)
            raise vlib.Infra("scenario %d did not return within the watchdog once but returned when replayed alone: machine too slow, no verdict" % num)
        ctx.cov["hang_reproduced_by_replay"] = num
    tight = sum(1 for f in files if vlib.read_ndjson(f)[0].get("limit", 10**6) < 10**6)
    ctx.cov["scenarios_with_small_rate_limit"] = tight
    if ctx.only is None and not fails and not ctx.cov["fetches_with_producer_at_rate_limit"]:
        raise vlib.Infra("vacuous: no chunk was fetched while its producer was at the rate limit on the acceptor")
    if ctx.only is None and not fails and not ctx.cov["fetches_retried_after_local_store_failure"]:
        raise vlib.Infra("vacuous: no fetched chunk met a transient store failure on the acceptor")
    for f in files:
        os.remove(f)
    vlib.report_failures(ctx, fails, describe)
    ctx.cov["rule"] = ("seeded scenarios of 1-2 consecutive blocks with 1-3 fresh chunk certificates, each chunk stored locally or not "
                       "(coin flip), peers answering from a script of 0-4 responses drawn from {error, undecodable, junk chunk, bad "
                       "signature, non-validator producer, expiry out of window, wrong-but-valid chunk, valid} and serving the valid "
                       "chunk afterwards; a scenario is non-trivial when at least one chunk had to be requested; distinct = distinct "
                       "(certs, local set, script, request kinds) sequences. Half of the scenarios run with "
                       "GetMaxAccumulatedProducerChunkWeight = 1-3 chunks, 70% of the chunks by one producer and 0-2 further pending "
                       "chunks of it that no block references; chunks are pre-stored only when CheckRateLimit allows (as the "
                       "signature-request path does), so referenced chunks are fetched while their producer is at the limit. In 40% of "
                       "the Accept calls the acceptor's chunk database refuses the 1st or 2nd pending-record Put of a fetched chunk once")
    ctx.assumptions += ["scripts that never serve the valid chunk are excluded (Accept retries forever by design)",
                        "chunk expiries lie in [block timestamp, parent timestamp + validity window], which is what a quorum of honest "
                        "validators can have signed when the block is built; Accept hands fetched chunks to the ChunkVerifier whose "
                        "window is anchored at the last accepted timestamp",
                        "every validator id (including the acceptor's own) answers from the same script, so the random peer choice "
                        "of the code does not influence the outcome",
                        "a recorded hang (no return within the 30 s watchdog) is reported only if the same scenario hangs again "
                        "when replayed alone with a 45 s watchdog; a repeated request for a chunk that was just served validly is "
                        "rejected by the trace spec without any clock",
                        "all chunks of a scenario have the same byte size, the rate limit is expressed in chunks"]
