"""C35 - accepting a DSMR block yields its referenced chunks whether local or fetched.
design : DSMRNodeAccept_MC (Accept loop over local / remote chunks against every peer response script)   [TLC exhaustive]
binding: (tv) Accept calls recorded from a real dsmr.Node with scripted get-chunk peers, validated against DSMRNodeAccept"""
import json
import os
import vlib

LEVEL = "model_checking"
PKG = "x/dsmr"
FILES = ["verif_node_common_test.go", "verif_accept_test.go"]


def sig(f):
    ev = f.get("event", {})
    sc = f.get("scenario", [])
    prev = sc[-2] if len(sc) >= 2 else {}
    kind = ev.get("ev")
    if f.get("invariant"):
        return "%s:%s" % (kind, f["invariant"])
    if kind == "accept_ret" and ev.get("res") == "hang":
        return "accept:no-return-after-valid-chunk-served"
    if kind == "accept_ret" and ev.get("res") == "err" and prev.get("ev") == "req" and prev.get("kind") == "valid":
        return "accept:fails-after-successful-remote-fetch"
    if prev.get("ev") == "req" and prev.get("kind") == "wrong":
        return "accept:takes-wrong-chunk-for-referenced-one"
    if kind == "accept_ret" and ev.get("res") == "err":
        return "accept:fails"
    if kind == "accept_ret":
        return "accept:chunks-differ-from-certificates"
    return "%s:unexplained" % kind


def describe(f):
    sc = f.get("scenario", [])
    call = [l for l in sc if l.get("ev") == "accept_call"][-1:] or [{}]
    return "block %s script %s -> %s" % (json.dumps(call[0].get("certs")), json.dumps(call[0].get("script")),
                                         json.dumps(f.get("event"))[:300])


def run(ctx):
    if ctx.only is None:
        vlib.tlc_mc(ctx, "DSMRNodeAccept_MC", ctx.pick("DSMRNodeAccept_MC_quick.cfg", "DSMRNodeAccept_MC.cfg"),
                    coverage=not ctx.quick, allow_zero=("AcceptFail",), timeout=1500)
        if not ctx.quick:
            r = vlib.tlc_mc(ctx, "DSMRNodeAccept_MC", "DSMRNodeAccept_MC_original.cfg", label="orig", expect_violation=True)
            ctx.cov["design_step_detects_pre_fix_Accept"] = bool(r["violated"])
            if not r["violated"]:
                raise vlib.Infra("sensitivity: the model of the pre-fix Accept no longer violates NeverFails")
    scenarios = ctx.pick(150, 2000)
    rc, out = vlib.go_driver(ctx, PKG, "^TestVerifAcceptRecord$", files=FILES, env={"VERIF_SCENARIOS": scenarios}, timeout=1500)
    if rc != 0:
        raise vlib.Infra("accept recorder failed:\n" + out[-3000:])
    files = vlib.scenario_files(ctx, "ac")
    if len(files) < (1 if ctx.only is not None else scenarios):
        raise vlib.Infra("recorder wrote %d of %d scenarios" % (len(files), scenarios))
    distinct = set()
    for f in files:
        lines = vlib.read_ndjson(f)
        remote = False
        for i, l in enumerate(lines):
            if l["ev"] == "req":
                ctx.add("requests_" + l["kind"], 1)
                remote = True
            if l["ev"] == "accept_call":
                stored = {x["c"] for x in lines[:i] if x["ev"] == "store"}
                loc = sum(1 for c in l["certs"] if c in stored)
                ctx.add("blocks_all_local" if loc == len(l["certs"]) else
                        "blocks_all_remote" if loc == 0 else "blocks_mixed", 1)
            if l["ev"] == "accept_ret":
                ctx.add("accept_" + l["res"], 1)
                if l["res"] == "hang":
                    # never a verdict from the clock alone: the deterministic replay of the same scenario must hang again
                    if ctx.only is None:
                        ctx.add("hangs_seen", 1)
        if remote:
            distinct.add(hash(tuple((l["ev"], tuple(l.get("certs", [])), tuple(l.get("script", [])), l.get("c", ""), l.get("kind", ""))
                                    for l in lines[1:])))
    ctx.add("evaluations", len(files))
    ctx.add("distinct_nontrivial", len(distinct))
    if ctx.cov.get("hangs_seen"):
        # "no hang": the watchdog alone decides nothing; the same seeded scenario must hang again when replayed alone
        hung = [f for f in files if any(l.get("res") == "hang" for l in vlib.read_ndjson(f))][0]
        num = int(os.path.basename(hung)[2:7])
        keep = open(hung).read()
        rc2, out2 = vlib.go_driver(ctx, PKG, "^TestVerifAcceptRecord$", files=FILES,
                                   env={"VERIF_SCENARIOS": scenarios, "VERIF_ONLY": num}, timeout=600)
        again = any(l.get("res") == "hang" for l in vlib.read_ndjson(hung)) if rc2 == 0 else False
        if not again:
            open(hung, "w").write(keep)
            raise vlib.Infra("scenario %d did not return within 60 s once but returned when replayed alone: machine too slow, no verdict" % num)
        ctx.cov["hang_reproduced_by_replay"] = num
    if ctx.only is None:
        for k in ("requests_valid", "requests_wrong", "requests_error", "requests_badsig", "blocks_mixed", "blocks_all_remote"):
            if not ctx.cov.get(k):
                raise vlib.Infra("vacuous: no recorded scenario exercised %s" % k)
    ctx.sample({"kind": "recorded-trace", "first_lines": vlib.read_ndjson(files[0])[:8]})
    fails = vlib.validate_scenarios(ctx, "DSMRNodeAccept_Trace", "DSMRNodeAccept_Trace.cfg", files, label="tv", signature_fn=sig)
    for f in files:
        os.remove(f)
    vlib.report_failures(ctx, fails, describe)
    ctx.cov["rule"] = ("seeded scenarios of 1-2 consecutive blocks with 1-3 fresh chunk certificates, each chunk stored locally or not "
                       "(coin flip), peers answering from a script of 0-4 responses drawn from {error, undecodable, junk chunk, bad "
                       "signature, non-validator producer, expiry out of window, wrong-but-valid chunk, valid} and serving the valid "
                       "chunk afterwards; a scenario is non-trivial when at least one chunk had to be requested; distinct = distinct "
                       "(certs, local set, script, request kinds) sequences")
    ctx.assumptions += ["scripts that never serve the valid chunk are excluded (Accept retries forever by design)",
                        "chunk expiries lie in [block timestamp, parent timestamp + validity window], which is what a quorum of honest "
                        "validators can have signed when the block is built; Accept hands fetched chunks to the ChunkVerifier whose "
                        "window is anchored at the last accepted timestamp",
                        "every validator id (including the acceptor's own) answers from the same script, so the random peer choice "
                        "of the code does not influence the outcome",
                        "a recorded hang (no return within 60 s) is reported only through the deterministic per-scenario replay"]
