"""C37 - a DSMR chain never references an expired or already-included chunk.
design : DSMRNodeChain_MC (Verify / BuildBlock / Accept over the certificate validity window, adversarial proposer) [TLC exhaustive]
binding: (tv) seeded chains recorded from a real dsmr.Node with the real TimeValidityWindow, validated line by line
         against the statement's MustReject predicate and the DeliveredOnce invariant of DSMRNodeChain"""
import json
import os
import re
import vlib

LEVEL = "model_checking"
PKG = "x/dsmr"
FILES = ["verif_node_common_test.go", "verif_chain_test.go"]


def classify(lines):
    """Re-derives, outside TLC, why the statement forbids each verified/built block (used for signatures and
    for the vacuity counters only; the verdict is TLC's).  Returns list parallel to lines of sets of reasons."""
    exp = lines[0]["exp"]
    blocks = {"g": {"parent": None, "ts": 0, "certs": []}}
    accepted_ts = 0
    out = []
    for l in lines:
        why = set()
        if l["ev"] in ("verify", "build") and (l["ev"] == "verify" or l["res"] == "ok"):
            certs = l["certs"]
            if len(set(certs)) != len(certs):
                why.add("twice-in-block")
            anc = []
            cur = l["parent"]
            while cur is not None and cur in blocks:
                anc += blocks[cur]["certs"]
                cur = blocks[cur]["parent"]
            if set(certs) & set(anc):
                why.add("of-ancestor")
                if any(exp[c] < accepted_ts for c in set(certs) & set(anc)):
                    why.add("of-ancestor-after-eviction")
            if any(exp[c] < l["ts"] for c in certs if c in exp):
                why.add("expired")
            if l["ev"] == "verify" and l["res"] == "ok":
                blocks[l["b"]] = {"parent": l["parent"], "ts": l["ts"], "certs": certs}
        if l["ev"] == "accept" and l["res"] == "ok" and l["b"] in blocks:
            accepted_ts = blocks[l["b"]]["ts"]
        out.append(why)
    return out


def sig(f):
    ev = f.get("event", {})
    kind = ev.get("ev")
    if kind in ("verify", "build"):
        sc = [f["reset"]] + [l for l in f["scenario"] if l.get("ev") != "reset"]
        try:
            why = classify(sc)[-1]
        except Exception:
            why = set()
        why.discard("of-ancestor-after-eviction")
        if why and ev.get("res") == "ok":
            return "%s-accepts:%s" % (kind, "+".join(sorted(why)))
    if kind == "accept":
        return "accept:chunk-delivered-twice" if ev.get("res") == "ok" else "accept:unexplained"
    return "%s:%s" % (kind, f.get("invariant") or "unexplained")


def describe(f):
    return "line %s" % json.dumps(f.get("event"))[:500]


def run(ctx):
    if ctx.only is None:
        vlib.tlc_mc(ctx, "DSMRNodeChain_MC", ctx.pick("DSMRNodeChain_MC_quick.cfg", "DSMRNodeChain_MC.cfg"),
                    coverage=not ctx.quick, timeout=1500)
        if not ctx.quick:
            r = vlib.tlc_mc(ctx, "DSMRNodeChain_MC", "DSMRNodeChain_MC_original.cfg", label="orig", expect_violation=True)
            ctx.cov["design_step_detects_pre_fix_Verify"] = bool(r["violated"])
            if not r["violated"]:
                raise vlib.Infra("sensitivity: the model of the pre-fix Verify no longer violates the chain invariants")
    scenarios = ctx.pick(120, 1500)
    rc, out = vlib.go_driver(ctx, PKG, "^TestVerifChainRecord$", files=FILES,
                             env={"VERIF_SCENARIOS": scenarios, "VERIF_DEPTH": ctx.pick(14, 20)}, timeout=1500)
    if rc != 0:
        raise vlib.Infra("chain recorder failed:\n" + out[-3000:])
    files = vlib.scenario_files(ctx, "ch")
    if len(files) < (1 if ctx.only is not None else scenarios):
        raise vlib.Infra("recorder wrote %d of %d scenarios" % (len(files), scenarios))
    distinct = set()
    for f in files:
        lines = vlib.read_ndjson(f)
        why = classify(lines)
        nontrivial = False
        for l, w in zip(lines, why):
            if l["ev"] == "verify":
                ctx.add("verify_ok" if l["res"] == "ok" else "verify_rejected", 1)
                for x in w:
                    ctx.add("offered_" + x.replace("-", "_"), 1)
                if "of-ancestor-after-eviction" in w or ("expired" in w and "of-ancestor" in w):
                    nontrivial = True
            if l["ev"] == "build":
                ctx.add("build_" + l["res"], 1)
            if l["ev"] == "accept":
                ctx.add("accept_" + l["res"], 1)
        if nontrivial:
            distinct.add(hash(tuple((l["ev"], l.get("parent", ""), l.get("ts", 0), tuple(l.get("certs", [])), l.get("res", ""))
                                    for l in lines[1:])))
    ctx.add("evaluations", len(files))
    ctx.add("distinct_nontrivial", len(distinct))
    if ctx.only is None:
        for k in ("offered_twice_in_block", "offered_of_ancestor", "offered_expired", "offered_of_ancestor_after_eviction",
                  "verify_ok", "build_ok", "accept_ok"):
            if not ctx.cov.get(k):
                raise vlib.Infra("vacuous: no recorded scenario exercised %s" % k)
    ctx.sample({"kind": "recorded-trace", "first_lines": vlib.read_ndjson(files[0])[:6]})
    # soft comparison with the implementation-shaped model: the trace spec prints MODEL_DISAGREES for lines where the
    # code's verdict differs from VerifyResult / BuildAvail of the model; counted as evidence, never a verdict
    ctx.cov["model_disagreements"] = 0
    orig = vlib.tlc_trace

    def capture(*a, **k):
        r = orig(*a, **k)
        ctx.cov["model_disagreements"] += len(re.findall(r"MODEL_DISAGREES", r["out"]))
        return r
    vlib.tlc_trace = capture
    try:
        fails = vlib.validate_scenarios(ctx, "DSMRNodeChain_Trace", "DSMRNodeChain_Trace.cfg", files, label="tv",
                                        signature_fn=sig)
    finally:
        vlib.tlc_trace = orig
    for f in files:
        os.remove(f)
    vlib.report_failures(ctx, fails, describe)
    ctx.cov["rule"] = ("seeded chains on one real node: BuildBlock on any processing tip, hand-assembled blocks of 1-3 certificates "
                       "biased to certificates already on the chain (duplicates, ancestors, expired), accepts of any verified "
                       "child; 5 certificates with expiries 1..4-11, window 2-4; a scenario is non-trivial when a block "
                       "re-references an ancestor's certificate after its expiry passed (evicted from the accepted set or "
                       "expired); distinct = distinct (event,parent,ts,certs,result) sequences")
    ctx.assumptions += ["blocks are verified only on the last accepted block or its verified descendants (what consensus does)",
                        "Accept is called only for verified children of the last accepted block whose chunks are in local storage",
                        "header checks (parent id, height, timestamp order) are not part of C37 and are always satisfied by the driver",
                        "one validator (quorum 1/1); certificate signatures are always valid"]
