"""X08 (extra, not in the manifest) - statesync.Client: skip rule, on-disk marker, start / finish order, failure handling.
design : SyncClient_MC (Accept, onStart, syncer Start in order, Waits in any order, finish: onFinish + clearing the marker; every
         subset of failing points, marker preset or not, all height pairs; invariants SkipRule, MarkerCovers, CleanFinish,
         MustNeverSkips, Order, SuccessMeansComplete; the model of finish() as originally written violates
         SuccessMeansComplete)                                                                    [TLC exhaustive]
binding: (tv) seeded complete runs of a real Client over memdb with scripted syncers / callbacks / failing marker write; the
         calls made, Accept's result, Wait()'s report, the marker on disk and the fatal log are loaded into the module's
         variables (SyncClient_Trace) and the same invariants are evaluated"""
import json
import os
import vlib

LEVEL = "model_checking"


def sig(fail):
    d = fail.get("diag") or ""
    return "%s:%s" % (fail.get("event", {}).get("ev"), d.strip("{} ").replace('"', "") or fail.get("invariant"))


def describe(f):
    if f.get("kf"):
        return "known: " + f["signature"]
    return "failing run %s diag=%s invariant=%s" % (json.dumps(f.get("event"))[:600], f.get("diag"), f.get("invariant"))


def run(ctx):
    if ctx.only is None:
        vlib.tlc_mc(ctx, "SyncClient", "SyncClient_MC.cfg", coverage=True)
        r = vlib.tlc_mc(ctx, "SyncClient", "SyncClient_MC_original.cfg", label="orig", expect_violation=True)
        if not r["violated"] or "SuccessMeansComplete" not in r["violated"]:
            raise vlib.Infra("sensitivity: finish() as originally written no longer violates SuccessMeansComplete")
    rc, out = vlib.go_driver(ctx, "statesync", "^TestVerifSyncClient$", files=["verif_client_test.go"], timeout=ctx.pick(600, 1800),
                             env={"VERIF_SCENARIOS": ctx.pick(300, 3000)})
    p = vlib.panic_in_repo(out)
    if p:
        raise vlib.Violation("panic in the code under test: " + p, signature="panic")
    if rc != 0:
        raise vlib.Infra("statesync recorder failed:\n" + out[-3000:])
    sp = os.path.join(ctx.work, "out", "sc_stats.json")
    st = json.load(open(sp))
    os.remove(sp)
    files = vlib.scenario_files(ctx, "sc-")
    if ctx.only is None:
        for k in ("mode_skipped", "mode_dynamic", "mode_parked", "fatal", "marker_preset", "waitres_nil", "waitres_pending"):
            ctx.add("tv_" + k, st.get(k, 0))
            if st.get(k, 0) == 0:
                raise vlib.Infra("vacuity: runs never showed " + k)
    lines = vlib.read_ndjson(files[0])[1:]
    distinct = set()
    for l in lines:
        if l["mode"] != "skipped":          # non-trivial = a run that started a sync
            distinct.add(hash(json.dumps([l["n"], l["flag0"], l["fail"], l["order"], l["mode"], l["waitres"], l["flag"]])))
    ctx.add("evaluations", len(lines))
    ctx.add("distinct_nontrivial", len(distinct))
    ctx.sample({"kind": "statesync-run", "lines": [l for l in lines if l["fail"]][:2]})
    fails = vlib.validate_scenarios(ctx, "SyncClient_Trace", "SyncClient_Trace.cfg", files, label="sc", signature_fn=sig)
    for f in files:
        os.remove(f)
    vlib.report_failures(ctx, fails, describe)
    ctx.cov["rule"] = ("seeded runs: 1-3 syncers, marker preset with probability 1/4, MinBlocks 0-3, last accepted 0-5, target 0-7, in a "
                       "third of the runs 1-2 failing points out of {onStart, Start of a syncer, Wait of a syncer, onFinish, write of "
                       "the cleared marker}, syncers complete in a random order; evaluation = one complete run; non-trivial = a run "
                       "that started a sync; distinct = distinct (configuration, failures, order, outcome)")
    ctx.assumptions += ["the client's deliberate panic after a fatal log is replaced by parking the goroutine inside the logger",
                        "the merkle / validity-window syncers themselves and vm/statesync.go's onFinish are not driven (C22 covers the "
                        "block backfill); UpdateSyncTarget is only forwarded",
                        "one trace file per run of the driver, one line per scenario"]
