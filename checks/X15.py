"""X15 (extra, not in the manifest) - vm/option.go: every VM gets its options' defaults overlaid with its own config, Opts
fold in order, namespaces are unique.
design : VmOptions_MC (the closure variable NewOption captures, the Opt fold; FreshDefault, CalledIffDecodes,
         AccIsFold).  The code-shaped variant violates FreshDefault (= known finding); the variant that starts from
         the default at every call satisfies everything                                           [TLC exhaustive]
binding: (tv) in-package driver: one Option run for a sequence of VMs' raw configs (absent / object / bad syntax / bad
         type), real Opts nested with NewOpt folded into Options, vm.New with namespace lists; the trace spec states
         what the option's function must be handed and names the violated clause in diag"""
import json
import os
import vlib

LEVEL = "model_checking"


def sig(fail):
    d = fail.get("diag") or ""
    return "%s:%s" % (fail.get("event", {}).get("ev"), d.strip("{} ").replace('"', "") or fail.get("invariant"))


def describe(f):
    return "scenario=%s diag=%s" % (json.dumps(f.get("scenario"))[:900], f.get("diag"))


def run(ctx):
    if ctx.only is None and not os.environ.get("VERIF_SKIP_MC"):
        vlib.tlc_mc(ctx, "VmOptions", "VmOptions_MC_fresh.cfg", coverage=True, label="opt-fresh")
        r = vlib.tlc_mc(ctx, "VmOptions", "VmOptions_MC_code.cfg", label="opt-code", expect_violation=True)
        if not r["violated"] or "FreshDefault" not in r["violated"]:
            raise vlib.Infra("sensitivity: the shared closure variable no longer violates FreshDefault in the model")
    rc, out = vlib.go_driver(ctx, "vm", "^TestVerifOptionsRecord$", files=["verif_options_test.go"],
                             timeout=ctx.pick(900, 1800), env={"VERIF_SCENARIOS": ctx.pick(300, 3000)})
    p = vlib.panic_in_repo(out)
    if p:
        raise vlib.Violation("panic in the code under test: " + p, signature="panic")
    if rc != 0:
        raise vlib.Infra("vm options recorder failed:\n%s" % out[-3000:])
    files = vlib.scenario_files(ctx, "opt-")
    st = {"second_vm_after_object": 0, "undecodable": 0, "nested_fold": 0, "duplicate_namespace": 0}
    distinct = set()
    for f in files:
        lines = vlib.read_ndjson(f)
        invs = [x for x in lines if x["ev"] == "inv"]
        st["second_vm_after_object"] += 1 if any(a["rk"] in ("obj", "type") for a in invs[:-1]) else 0
        st["undecodable"] += sum(1 for a in invs if a["rk"] in ("syntax", "type"))
        st["nested_fold"] += sum(1 for x in lines if x["ev"] == "fold" and len(x["prims"]) >= 2)
        st["duplicate_namespace"] += sum(1 for x in lines if x["ev"] == "new" and len(set(x["nss"])) < len(x["nss"]))
        if len(invs) >= 2 or any(x["ev"] == "fold" and len(x["prims"]) >= 2 for x in lines) or \
                any(x["ev"] == "new" and len(x["nss"]) >= 2 for x in lines):      # non-trivial rule
            distinct.add(hash(json.dumps([[v for k, v in sorted(x.items()) if k not in
                                           ("err", "called", "ga", "gb", "opt", "builder", "gossiper", "subs", "apis", "ok", "kept")]
                                          for x in lines])))
    if ctx.only is None:
        for k, v in st.items():
            ctx.add("options_" + k, v)
            if v == 0:
                raise vlib.Infra("vacuity: no scenario exercised " + k)
    ctx.add("evaluations", len(files))
    ctx.add("distinct_nontrivial", len(distinct))
    ctx.sample({"kind": "options-trace", "lines": vlib.read_ndjson(files[len(files) // 2])[:4]})
    fails = vlib.validate_scenarios(ctx, "VmOptions_Trace", "VmOptions_Trace.cfg", files, label="opt", signature_fn=sig)
    for f in files:
        os.remove(f)
    vlib.report_failures(ctx, fails, describe)
    ctx.cov["rule"] = ("seeded scenarios of three kinds: 1..6 VMs running one Option (defaults 0..9, raw configs absent / "
                       "object setting a and/or b / bad syntax / bad type), 0..6 primitive Opts randomly nested with "
                       "NewOpt, vm.New with 0..5 namespaces out of 7; non-trivial = at least two VMs / two Opts / two "
                       "namespaces; distinct = distinct inputs")
    ctx.assumptions += ["options are exercised through the same unexported entry points VM.Initialize uses "
                        "(Option.optionFunc, Opt.apply); the VM itself is not started",
                        "config types are flat structs of integers (maps / slices / pointers inside a default share even "
                        "more state and are not explored)"]
